"""Build real deepali linear transforms from the model records of Transform.tla."""
from __future__ import annotations

import math
from typing import Any, Dict, List, Optional

import torch

from .rat import F, fl


def part_values(p: Dict[str, Any]) -> Dict[str, torch.Tensor]:
    """Float parameter tensors (with leading group dimension 1) of one elementary part."""
    k = p["k"]
    if k == "translation":
        return {"offset": torch.tensor([fl(F(p["t"]))], dtype=torch.float32)}
    if k == "scaling":
        return {"scales": torch.tensor([fl(F(p["s"]))], dtype=torch.float32)}
    if k == "isoscaling":
        return {"scales": torch.tensor([fl(F(p["s"]))], dtype=torch.float32)}
    if k == "shearing":
        return {"angles": torch.tensor([[math.atan(v) for v in fl(F(p["tn"]))]], dtype=torch.float32)}
    if k == "rotation":
        return {"angles": torch.tensor([[math.atan2(cs[1], cs[0]) for cs in fl(F(p["cs"]))]], dtype=torch.float32)}
    if k == "quaternion":
        return {"quaternion": torch.tensor([fl(F(p["q"]))], dtype=torch.float32)}
    if k == "homogeneous":
        A, t = fl(F(p["A"])), fl(F(p["t"]))
        return {"matrix": torch.tensor([[row + [t[i]] for i, row in enumerate(A)]], dtype=torch.float32)}
    raise ValueError(k)


def ddf_params(grid, p: Dict[str, Any]) -> torch.Tensor:
    """Displacement samples of the affine displacement field (A - I) x + t on the cube coordinates of `grid`."""
    A = torch.tensor(fl(F(p["A"])), dtype=torch.float64)
    t = torch.tensor(fl(F(p["t"])), dtype=torch.float64)
    co = grid.coords(align_corners=grid.align_corners()).to(torch.float64)
    D = A.shape[0]
    u = co.reshape(-1, D) @ (A - torch.eye(D, dtype=torch.float64)).T + t
    return u.reshape(co.shape).movedim(-1, 0).unsqueeze(0).float().contiguous()


def set_part(t, p: Dict[str, Any]) -> None:
    k = p["k"]
    if k == "ddf":
        t.data_(ddf_params(t.grid(), p))
        return
    v = part_values(p)
    if k == "translation":
        t.offset_(v["offset"])
    elif k in ("scaling", "isoscaling"):
        t.scales_(v["scales"])
    elif k in ("shearing", "rotation"):
        t.angles_(v["angles"])
    elif k == "quaternion":
        t.quaternion_(v["quaternion"])
    elif k == "homogeneous":
        t.matrix_(v["matrix"])


CHILD_NAME = {"translation": "translation", "scaling": "scaling", "isoscaling": "scaling", "shearing": "shearing",
              "rotation": "rotation", "quaternion": "rotation", "homogeneous": "affine"}


def build(name: str, parts: List[Dict[str, Any]], grid, holder: str, set_params: bool = True):
    """Construct the named model on `grid` with parameters held as `holder` ('tensor' | 'param')."""
    import deepali.spatial as S

    P = holder == "param"
    base = name.split(":")[0]
    if base == "Sequential":
        members = []
        for p in parts:
            cls = {"translation": S.Translation, "rotation": S.EulerRotation, "scaling": S.AnisotropicScaling,
                   "ddf": S.DisplacementFieldTransform}[p["k"]]
            m = cls(grid, params=P)
            if set_params:
                set_part(m, p)
            members.append(m)
        return S.SequentialTransform(*members)
    if base == "Generic":
        from deepali.spatial.generic import GenericSpatialTransform, TransformConfig

        model = name.split(":")[1]
        cfg = TransformConfig(transform="Affine", affine_model=model, rotation_model="ZXZ")
        t = GenericSpatialTransform(grid, params=P, config=cfg)
        if set_params:
            for p in parts:
                nm = {"quaternion": "quaternion", "homogeneous": "affine"}.get(p["k"], CHILD_NAME[p["k"]])
                set_part(t[nm], p)
        return t
    if base == "EulerRotation":
        order = name.split(":")[1] if ":" in name else None
        t = S.EulerRotation(grid, params=P, order=order)
        if set_params:
            set_part(t, parts[0])
        return t
    cls = getattr(S, base)
    if base == "DisplacementFieldTransform":
        t = cls(grid, params=P)
        if set_params:
            set_part(t, parts[0])
        return t
    if base in ("Translation", "QuaternionRotation", "IsotropicScaling", "AnisotropicScaling", "Shearing", "HomogeneousTransform"):
        t = cls(grid, params=P)
        if set_params:
            set_part(t, parts[0])
        return t
    # named composites: RigidTransform, RigidQuaternionTransform, SimilarityTransform, AffineTransform, FullAffineTransform
    kw = {}
    for p in parts:
        kw[CHILD_NAME[p["k"]]] = P
    t = cls(grid, **kw)
    if set_params:
        for p in parts:
            set_part(t[CHILD_NAME[p["k"]]], p)
    return t


def hom(m) -> torch.Tensor:
    """Spec matrix (D x (D+1) of [num, den]) as float64 tensor."""
    return torch.tensor(fl(F(m)), dtype=torch.float64)


def apply_hom(M: torch.Tensor, x: torch.Tensor) -> torch.Tensor:
    D = M.shape[0]
    return x.to(torch.float64) @ M[:, :D].T + M[:, D]
