"""Run TLC / SANY and parse what they report."""
from __future__ import annotations

import json
import os
import re
import shutil
import subprocess
import tempfile
import time
from dataclasses import dataclass, field
from pathlib import Path
from typing import Dict, Iterable, List, Optional

VERIF = Path(__file__).resolve().parents[2]
SPEC = VERIF / "spec"
COMMON = SPEC / "common"
JAR = "/opt/veriftools/tla/tla2tools.jar:/opt/veriftools/tla/CommunityModules-deps.jar"


class MachineryError(RuntimeError):
    """The verification machinery itself failed (exit code 2, never a violation)."""


@dataclass
class TLCResult:
    ok: bool
    generated: int = 0
    distinct: int = 0
    depth: int = 0
    wall_s: float = 0.0
    lines: List[str] = field(default_factory=list)  # PrintT payload lines (decoded)
    coverage: Dict[str, int] = field(default_factory=dict)  # action -> distinct states
    stdout: str = ""
    error: Optional[str] = None
    cmd: str = ""


_PRINT_RE = re.compile(r'^"(.*)"$')


def _decode_printt(line: str) -> Optional[str]:
    line = line.rstrip("\n")
    if len(line) >= 2 and line[0] == '"' and line[-1] == '"':
        try:
            return json.loads(line)
        except Exception:
            return None
    return None


def run_tlc(
    module: str,
    cfg_text: str,
    *,
    workers: int = 16,
    simulate: Optional[str] = None,
    depth: Optional[int] = None,
    seed: Optional[int] = None,
    env: Optional[Dict[str, str]] = None,
    timeout: int = 3600,
    coverage: bool = False,
    extra: Iterable[str] = (),
    jvm: Iterable[str] = (),
    deadlock: bool = False,
    heap: str = "8g",
    want_lines: bool = True,
) -> TLCResult:
    """Run TLC on spec/<module>.tla with the given configuration text.

    The cfg file and TLC's metadir live in a scratch directory that is removed afterwards.
    """
    scratch = Path(tempfile.mkdtemp(prefix="dvtlc_"))
    try:
        cfg = scratch / f"{module}.cfg"
        cfg.write_text(cfg_text)
        cmd = [
            "java",
            "-XX:+UseParallelGC",
            f"-Xmx{heap}",
            f"-DTLA-Library={COMMON}:{SPEC}",
            *jvm,
            "-cp",
            JAR,
            "tlc2.TLC",
            "-metadir",
            str(scratch / "meta"),
            "-noGenerateSpecTE",
            "-config",
            str(cfg),
        ]
        if simulate is not None:
            cmd += ["-simulate", simulate]
        if depth is not None:
            cmd += ["-depth", str(depth)]
        if seed is not None:
            cmd += ["-seed", str(seed)]
        if coverage:
            cmd += ["-coverage", "1"]
        if not deadlock:
            cmd += ["-deadlock"]
        cmd += ["-workers", str(workers)]
        cmd += list(extra)
        cmd += [str(SPEC / f"{module}.tla")]
        e = dict(os.environ)
        if env:
            e.update(env)
        t0 = time.time()
        try:
            p = subprocess.run(
                cmd, cwd=scratch, env=e, capture_output=True, text=True, timeout=timeout
            )
        except subprocess.TimeoutExpired as ex:
            subprocess.run(["pkill", "-f", "tlc2[.]TLC.*" + str(scratch)], check=False)
            raise MachineryError(f"TLC timed out after {timeout}s on {module}") from ex
        wall = time.time() - t0
        out = p.stdout
        res = TLCResult(ok=(p.returncode == 0), wall_s=wall, stdout=out, cmd=" ".join(cmd))
        m = re.search(r"(\d+) states generated, (\d+) distinct states found", out)
        if m:
            res.generated, res.distinct = int(m.group(1)), int(m.group(2))
        m = re.search(r"depth of the complete state graph search is (\d+)", out)
        if m:
            res.depth = int(m.group(1))
        if want_lines:
            for line in out.splitlines():
                d = _decode_printt(line)
                if d is not None:
                    res.lines.append(d)
        if coverage:
            for m in re.finditer(r"<(\w+) line \d+, col \d+ to line \d+, col \d+ of module \w+>: (\d+):(\d+)", out):
                res.coverage[m.group(1)] = res.coverage.get(m.group(1), 0) + int(m.group(2))
        if p.returncode != 0:
            # find the error text
            em = re.search(r"Error: (.*?)(?:\n\n|\Z)", out, re.S)
            res.error = (em.group(1) if em else out[-2000:]).strip()
            if p.stderr.strip():
                res.error += "\n" + p.stderr.strip()[-1000:]
        return res
    finally:
        shutil.rmtree(scratch, ignore_errors=True)


def sany(module_path: Path) -> None:
    cmd = [
        "java",
        f"-DTLA-Library={COMMON}:{SPEC}",
        "-cp",
        JAR,
        "tla2sany.SANY",
        str(module_path),
    ]
    p = subprocess.run(cmd, capture_output=True, text=True, cwd=module_path.parent)
    if p.returncode != 0 or "Semantic errors" in p.stdout or "***Parse Error***" in p.stdout or "Fatal errors" in p.stdout:
        raise MachineryError(f"SANY failed on {module_path}:\n{p.stdout[-3000:]}")


def json_lines(res: TLCResult, key: Optional[str] = "id") -> List[dict]:
    """Decode PrintT(ToJson(..)) payloads; de-duplicate on `key`."""
    seen = {}
    out = []
    for s in res.lines:
        if not s.startswith("{") and not s.startswith("["):
            continue
        try:
            o = json.loads(s)
        except Exception as ex:  # interleaved output etc.
            raise MachineryError(f"TLC emitted a line that is not JSON: {s[:200]}") from ex
        if key is not None and isinstance(o, dict):
            k = json.dumps(o.get(key), sort_keys=True)
            if k in seen:
                if seen[k] != s:
                    raise MachineryError(f"TLC emitted two different cases with the same id {k}")
                continue
            seen[k] = s
        out.append(o)
    # TLC's workers print in a run-dependent order: return the cases in a canonical order, so that everything a harness derives from a case's
    # position (call-form variants, seeded sub-samples) is the same in every run
    out.sort(key=lambda o_: json.dumps(o_, sort_keys=True))
    return out
