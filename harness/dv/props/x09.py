"""X09 (beyond the listed properties) - random draws: multinomial, _multinomial, rand_sample (spec: Trace_Draws)."""
from __future__ import annotations

import itertools
import json
from typing import Any, Dict, List

import torch

from ..core import Ctx
from ..tlc import MachineryError
from ..trace import validate

TRACE_CFG = "SPECIFICATION TSpec\nCONSTRAINT Report\nPOSTCONDITION Consumed\n"
HEAD = dict(kind="draw", k=0, fn="", weights=[[1]], n=0, replacement=True, refused=True, rows=[], a=[], b=[], mask=[], v1=[], v2=[])


def record(seed: int, reps: int) -> List[List[dict]]:
    from deepali.core import random as R
    import deepali.core.functional as U

    traces = []
    wsets = [[[2, 0, 1, 3, 1]], [[1, 1, 1, 1], [0, 5, 0, 1]], [[1]], [[3, 1, 2, 2, 1, 1, 4, 0, 1, 2, 1]], [[1, 2], [2, 1], [1, 1]]]
    k = 0
    for fn_name, fn in (("multinomial", R.multinomial), ("_multinomial", R._multinomial)):
        evs = []
        for w, repl in itertools.product(wsets, (True, False)):
            N = len(w[0])
            for n in sorted({1, 2, N - 1, N, N + 2} - {0}):
                positives = min(sum(1 for x in row if x > 0) for row in w)
                if not repl and positives < n <= N:
                    continue  # fewer drawable categories than requested although n <= N: torch refuses by its own rule; not judged
                for r in range(reps):
                    g = torch.Generator().manual_seed(seed * 1000 + k)
                    k += 1
                    inp = torch.tensor(w, dtype=torch.float32)
                    ev = dict(HEAD, k=len(evs) + 1, fn=fn_name, weights=w, n=n, replacement=repl, refused=False)
                    try:
                        out = fn(inp if len(w) > 1 else inp[0], n, replacement=repl, generator=g)
                        rows = out.tolist() if len(w) > 1 else [out.tolist()]
                        ev["rows"] = rows
                    except (ValueError, RuntimeError):
                        ev["refused"] = True
                    evs.append(ev)
        traces.append([dict(HEAD)] + evs)
    # rand_sample: two tensors, values at the same positions, optional mask
    evs = []
    for shape, repl, masked in itertools.product([(2, 1, 3, 4), (1, 2, 2, 3, 2)], (True, False), (False, True)):
        numel = int(torch.tensor(shape[2:]).prod())
        for n in (1, numel // 2, numel, numel + 3):
            for r in range(reps):
                g = torch.Generator().manual_seed(seed * 1000 + k)
                k += 1
                a = (torch.arange(numel) * 3 + 1).reshape(1, 1, *shape[2:]).expand(shape).contiguous().float()   # distinct values along positions
                b = (100 - torch.arange(numel)).reshape(1, 1, *shape[2:]).expand(shape).contiguous().float()
                mask = None
                mlist = [1] * numel
                if masked:
                    mlist = [1 if (i * 7 + r) % 3 else 0 for i in range(numel)]
                    if not repl and sum(mlist) < n <= numel:
                        continue
                    mask = torch.tensor(mlist, dtype=torch.float32).reshape(1, 1, *shape[2:])
                ev = dict(HEAD, kind="sample", k=len(evs) + 1, fn="rand_sample", n=n, replacement=repl, refused=False,
                          a=[int(v) for v in a[0, 0].reshape(-1).tolist()], b=[int(v) for v in b[0, 0].reshape(-1).tolist()], mask=mlist)
                try:
                    va, vb = U.rand_sample([a, b], n, mask=mask, replacement=repl, generator=g)
                    if tuple(va.shape) != (shape[0], shape[1], n):
                        ev["v1"], ev["v2"] = [], []
                    else:
                        ev["v1"], ev["v2"] = [int(v) for v in va[-1, -1].tolist()], [int(v) for v in vb[-1, -1].tolist()]
                except (ValueError, RuntimeError):
                    ev["refused"] = True
                evs.append(ev)
    traces.append([dict(HEAD)] + evs)
    return traces


def run(ctx: Ctx) -> None:
    ctx.rule = "recorded draws of multinomial and _multinomial (vector and matrix weights, with/without replacement, zero weights) and of rand_sample (two tensors, optional mask), judged by Trace_Draws"
    traces = record(ctx.seed, 2 if ctx.tier == "quick" else 12)
    rej, nval = validate(ctx, "Trace_Draws", TRACE_CFG, traces, all_rejections=True)
    for tid, lst in rej.items():
        for line, clause in lst:
            e = traces[tid][line]
            ctx.violation(dict(fn=e["fn"], clause=clause, replacement=e["replacement"]),
                          f"{e['fn']}(n={e['n']}, replacement={e['replacement']}) on {e['weights'] if e['kind'] == 'draw' else 'tensors of ' + str(len(e['a'])) + ' positions'}: {clause}; "
                          f"result {e['rows'] if e['kind'] == 'draw' else (e['v1'], e['v2'])}", dict(event=e))
    n = sum(len(t) - 1 for t in traces)
    ctx.count(n=n)
    ctx.traces = nval
    ctx.notes["calls_recorded"] = n
    ctx.sample({k: v for k, v in traces[0][3].items()})
    probe = Ctx(ctx.prop, ctx.tier, ctx.seed)
    e = json.loads(json.dumps(next(e for e in traces[0][1:] if not e["refused"] and not e["replacement"] and e["n"] >= 2)))
    e["rows"][0][1] = e["rows"][0][0]
    e["k"] = 1
    r2, _ = validate(probe, "Trace_Draws", TRACE_CFG, [[dict(HEAD), e]], label="trace-selftest", all_rejections=True)
    if not r2:
        raise MachineryError("binding self-test failed")
    ctx.notes["binding_selftest"] = "a repeated index in a draw without replacement is rejected by Trace_Draws"


def replay(ctx: Ctx, data: Dict[str, Any]) -> None:
    traces = record(ctx.seed, 4)
    rej, _ = validate(ctx, "Trace_Draws", TRACE_CFG, traces, all_rejections=True)
    for tid, lst in rej.items():
        for line, clause in lst:
            e = traces[tid][line]
            ctx.violation(dict(fn=e["fn"], clause=clause), f"{e['fn']}: {clause}", data["case"])
