"""X07 (beyond the listed properties) - output size of layer sequences and networks (spec: NetShapes on ConvShapes)."""
from __future__ import annotations

import json
from typing import Any, Dict

import torch
from torch import nn

from ..core import Ctx
from ..tlc import MachineryError, json_lines

CFG = """SPECIFICATION NSpec
CONSTANTS
  Layers <- QLayers
  MaxLayers = {maxl}
  InSizes <- QIn
  EmitNets = {emit}
  MaxIn = 1
  Kernels = {{1}}
  Strides = {{1}}
  Dilations = {{1}}
  Paddings = {{0}}
  EmitCases = FALSE
{inv}CONSTRAINT NEmit
"""


def layer(L: Dict[str, Any], k: int) -> nn.Module:
    t = L["t"]
    if t == "conv":
        return nn.Conv1d(1, 1, L["k"], stride=L["s"], padding=L["p"], dilation=L["d"])
    if t == "convt":
        return nn.ConvTranspose1d(1, 1, L["k"], stride=L["s"], padding=L["p"], output_padding=L["o"], dilation=L["d"])
    if t == "pool":
        cls = nn.MaxPool1d if k % 2 else nn.AvgPool1d
        return cls(L["k"], stride=L["s"], padding=L["p"], ceil_mode=bool(L["c"]))
    if t == "pad":
        return nn.ConstantPad1d((L["k"], L["s"]), 0.0)
    if t == "up":
        return nn.Upsample(scale_factor=L["k"])
    raise MachineryError(t)


def check_case(ctx: Ctx, c: Dict[str, Any], k: int = 0) -> None:
    from deepali.networks.utils import module_output_size

    net = nn.Sequential(*[layer(L, k + i) for i, L in enumerate(c["net"])])
    m = c["m"]
    desc = [(L["t"], L["k"], L["s"], L["d"], L["p"], L["o"], L["c"]) for L in c["net"]]
    with torch.no_grad():
        actual = net(torch.zeros(1, 1, m)).shape[-1]
    if actual != c["out"]:
        raise MachineryError(f"NetShapes disagrees with torch: {desc} on {m} -> {actual}, specification {c['out']}")
    try:
        got = module_output_size(net, m)
    except Exception as ex:
        ctx.violation(dict(op="module_output_size", exc=type(ex).__name__, layers=[L["t"] for L in c["net"]]),
                      f"module_output_size raised {type(ex).__name__}: {str(ex)[:100]} for {desc} on input size {m}", c)
        return
    if got != c["out"]:
        ctx.violation(dict(op="module_output_size", layers=[L["t"] for L in c["net"]], ceil=any(L["c"] for L in c["net"])),
                      f"module_output_size({desc}, {m}) = {got}, the specification (and the tensor the network produces) gives {c['out']}", c)


def declared_vs_actual(ctx: Ctx) -> int:
    """Networks that declare their output size: the declaration must be what forward() produces."""
    from deepali.networks.unet import UNet, UNetConfig, UNetEncoder, UNetEncoderConfig

    n = 0
    for D, chans, size in [(2, (4, 8), (12, 8)), (2, (4, 8, 16), (16, 24)), (2, (4, 8, 16, 32), (32, 16)), (3, (2, 4), (8, 6, 4)), (3, (2, 4, 8), (8, 12, 16))]:
        cfg = UNetConfig(encoder=UNetEncoderConfig(num_channels=chans))
        for cls, kw in ((UNet, dict(in_channels=1, out_channels=2, config=cfg)), (UNetEncoder, dict(in_channels=1, config=cfg.encoder))):
            try:
                net = cls(spatial_dims=D, **kw)
                with torch.no_grad():
                    y = net(torch.zeros(1, 1, *reversed(size)))
                declared = net.output_size(size)
            except Exception as ex:
                ctx.violation(dict(op=cls.__name__, exc=type(ex).__name__, D=D), f"{cls.__name__}(D={D}, channels={chans}) on {size} raised {type(ex).__name__}: {str(ex)[:100]}",
                              dict(net=cls.__name__, D=D, chans=chans, size=size))
                continue
            ys = y if torch.is_tensor(y) else (y[-1] if isinstance(y, (list, tuple)) else list(y.values())[-1])
            actual = tuple(reversed(ys.shape[2:]))
            if tuple(declared) != actual:
                ctx.violation(dict(op=cls.__name__, what="declared", D=D), f"{cls.__name__}(D={D}, channels={chans}).output_size({size}) = {tuple(declared)}, forward() gives {actual}",
                              dict(net=cls.__name__, D=D, chans=chans, size=size))
            n += 1
    return n


def run(ctx: Ctx) -> None:
    ctx.rule = "every admissible sequence of up to 3 (4 thorough) layers from 14 layer configurations x 4 input sizes: module_output_size against the fold of the counting definitions; torch forward() as second reference"
    maxl = 3 if ctx.tier == "quick" else 4
    ctx.tlc("MC_NetShapes", CFG.format(maxl=min(maxl, 3), emit="FALSE", inv="INVARIANT NLaws\n"), label="laws", timeout=3000)
    res = ctx.tlc("MC_NetShapes", CFG.format(maxl=maxl, emit="TRUE", inv=""), label="emit", timeout=6000)
    cases = [c for c in json_lines(res, key=None) if "net" in c]
    if len(cases) < 5000:
        raise MachineryError(f"only {len(cases)} cases")
    for i, c in enumerate(cases):
        check_case(ctx, c, i + ctx.seed)
        ctx.count(key=json.dumps(c), nontrivial=len(c["net"]) > 1)
    ctx.traces = len(cases)
    ctx.notes["networks_declared_vs_actual"] = declared_vs_actual(ctx)
    ctx.sample(cases[len(cases) // 2])
    probe = Ctx(ctx.prop, ctx.tier, ctx.seed)
    bad = json.loads(json.dumps(cases[-1]))
    bad["out"] += 1
    try:
        check_case(probe, bad)
    except MachineryError:
        probe.violations.append(dict(signature={}, what="torch reference noticed"))
    if not probe.violations:
        raise MachineryError("binding self-test failed")
    ctx.notes["binding_selftest"] = "expected network output size + 1 rejected"


def replay(ctx: Ctx, data: Dict[str, Any]) -> None:
    c = data["case"]
    if "net" in c and isinstance(c["net"], list):
        check_case(ctx, c)
    else:
        declared_vs_actual(ctx)
