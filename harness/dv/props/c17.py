"""C17 - deformation regularisers have the right null space, sign, scaling and units (spec: Regulariser on Deriv)."""
from __future__ import annotations

import json
import math
from typing import Any, Dict, List

import torch

from ..core import Ctx
from ..flowlib import affine_field
from ..rat import F, fl
from ..tol import max_err
from ..tlc import MachineryError, json_lines
from .c12 import poly_field

CFG = ("SPECIFICATION Spec\nCONSTANTS\n  Shapes <- {T}Shapes\n  SpacingsOf <- {T}Spacings\n  FieldsOf <- {T}Fields\n  Probes <- {T}Probes\n"
       "  EmitCases = {emit}\n{inv}CONSTRAINT REmit\n")
REL = 1e-5


def power_norm(pr: Dict[str, Any], key: str):
    """CubGrad / QuartGrad / SumGrad of Regulariser.tla evaluated from the probe's exact Jacobian in unbounded rationals; other keys as emitted."""
    if key not in ("cubgrad", "quartgrad", "sumgrad"):
        return pr[key]
    J = F(pr["J"])
    ent = [v for row in J for v in row]
    if key == "cubgrad":
        return float(sum(abs(v) ** 3 for v in ent))
    if key == "quartgrad":
        return float(sum(v ** 4 for v in ent))
    return float(sum(ent))


def val_at(t: torch.Tensor, idx: List[int]) -> float:
    return float(t[(0, 0) + tuple(reversed(idx))])


def check_energies(ctx: Ctx, c: Dict[str, Any]) -> None:
    import deepali.losses.functional as L
    import deepali.losses.flow as LF

    n, h, fld = c["n"], fl(F(c["h"])), c["fld"]
    D = len(n)
    u = poly_field(n, h, fld)
    affine = bool(c["affine"])
    sig0 = dict(D=D, affine=affine)
    bend, curv = float(fl(F(c["bending"]))), float(fl(F(c["curvature"])))

    def bad(op, msg, **kw):
        ctx.violation(dict(op=op, **sig0, **kw), f"{op} [D={D}, spacing={h}]: {msg}", c)

    def guarded(op, fn, **kw):
        try:
            return fn()
        except Exception as ex:
            bad(op, f"raised {type(ex).__name__}: {str(ex)[:140]}", exc=type(ex).__name__, **kw)
            return None

    def close(a, b, scale=1.0):
        return abs(a - b) <= REL * max(1.0, abs(b), scale)

    inner = (0, 0) + tuple(slice(2, -2) for _ in range(D))
    for mode in ("forward_central_backward", "sobel", None, "central"):
        ms = str(mode)
        # second-order energies: constant on quadratic fields in the interior, zero for affine fields (on the scheme's exact set)
        for name, fn, e in (("bending_loss", L.bending_loss, bend), ("curvature_loss", L.curvature_loss, curv)):
            out = guarded(name, lambda: fn(u, mode=mode, spacing=h, reduction="none"), mode=ms)
            if out is None:
                continue
            for pr in c["probes"]:
                g = val_at(out, pr["i"])
                if not close(g, e):
                    bad(name, f"mode={mode}: value {g} at interior sample {pr['i']}, analytic {e}", mode=ms, what="value")
                    break
            if float(out.min()) < -1e-9:
                bad(name, "negative energy density", mode=ms, what="sign")
            if affine and mode in ("forward_central_backward", "sobel", None):
                if float(out.abs().max()) > 1e-8:
                    where = "border only" if float(out[inner].abs().max()) < 1e-8 else "interior"
                    bad(name, f"mode={mode}: affine field has non-zero energy {float(out.abs().max()):.3g} ({where})", mode=ms, what="null_space", where=where)
            m_ = guarded(name, lambda: fn(u, mode=mode, spacing=h, reduction="mean"), mode=ms)
            s_ = guarded(name, lambda: fn(u, mode=mode, spacing=h, reduction="sum"), mode=ms)
            if m_ is not None and not close(float(m_), float(out.mean()), float(out.abs().max())):
                bad(name, "'mean' is not the mean of 'none'", mode=ms, what="reduction")
            if s_ is not None and not close(float(s_), float(out.sum()), float(out.abs().sum())):
                bad(name, "'sum' is not the sum of 'none'", mode=ms, what="reduction")
            # scaling laws (relations between evaluations): u -> 2u, spacing -> 2 spacing, u -> u + affine
            o2 = guarded(name, lambda: fn(2 * u, mode=mode, spacing=h, reduction="none"), mode=ms)
            if o2 is not None and max_err(o2, 4 * out) > REL * max(1.0, float(out.abs().max())) * 4:
                bad(name, "doubling the field does not quadruple the energy", mode=ms, what="quadratic_scaling")
            os_ = guarded(name, lambda: fn(u, mode=mode, spacing=[2 * v for v in h], reduction="none"), mode=ms)
            if os_ is not None and max_err(os_ * 16, out) > REL * max(1.0, float(out.abs().max())):
                bad(name, "doubling the spacing does not divide the energy by 2^4", mode=ms, what="spacing_power")
            aff = affine_field(n, True, torch.tensor([[0.3, -0.2, 0.1], [0.5, 0.4, -0.3], [0.2, 0.1, 0.6]][:D], dtype=torch.float64)[:, :D],
                               torch.tensor([0.7, -0.1, 0.2][:D], dtype=torch.float64))
            oa = guarded(name, lambda: fn(u + aff, mode=mode, spacing=h, reduction="none"), mode=ms)
            if oa is not None and max_err(oa[inner], out[inner]) > 1e-7 * max(1.0, float(out.abs().max())):
                bad(name, "adding an affine deformation changes the energy in the interior", mode=ms, what="affine_invariance")
        # first-order energies at the interior probes
        lam1, mu1 = 2.0, 0.5
        firsts = [
            ("diffusion_loss", lambda r: L.diffusion_loss(u, mode=mode, spacing=h, reduction=r), "diffusion", 2),
            ("divergence_loss", lambda r: L.divergence_loss(u, mode=mode, spacing=h, reduction=r), "divergence", 2),
            ("total_variation_loss", lambda r: L.total_variation_loss(u, mode=mode, spacing=h, reduction=r), "tv", 1),
            ("grad_loss", lambda r: L.grad_loss(u, p=2, q=1, mode=mode, spacing=h, reduction=r), "sqgrad", 2),
            ("grad_loss[p=3]", lambda r: L.grad_loss(u, p=3, q=1, mode=mode, spacing=h, reduction=r), "cubgrad", 3),
            ("grad_loss[p=4]", lambda r: L.grad_loss(u, p=4, q=1, mode=mode, spacing=h, reduction=r), "quartgrad", 4),
            ("grad_loss[p=1]", lambda r: L.grad_loss(u, p=1, q=1, mode=mode, spacing=h, reduction=r), "tv", 1),
            ("grad_loss[p=3,-u]", lambda r: L.grad_loss(-u, p=3, q=1, mode=mode, spacing=h, reduction=r), "cubgrad", 3),
            ("GradLoss[p=3]", lambda r: LF.GradLoss(p=3, q=1, mode=mode, spacing=h, reduction=r)(u), "cubgrad", 3),
            ("elasticity_loss", lambda r: L.elasticity_loss(u, first_parameter=lam1, second_parameter=mu1, mode=mode, spacing=h, reduction=r), ("elasticity", 0), 2),
            ("elasticity_loss[mu only]", lambda r: L.elasticity_loss(u, first_parameter=0.0, second_parameter=1.0, mode=mode, spacing=h, reduction=r), ("elasticity", 1), 2),
            # no shear stiffness: lam / 2 (div u)^2 = lam * divergence_loss
            ("elasticity_loss[lam only]", lambda r: L.elasticity_loss(u, first_parameter=1.0, second_parameter=0.0, mode=mode, spacing=h, reduction=r) / 1.0, "divergence", 2),
            ("Elasticity[lam only]", lambda r: LF.Elasticity(first_parameter=1.0, shear_modulus=0.0, mode=mode, spacing=h, reduction=r)(u), "divergence", 2),
        ]
        for name, fn, key, power in firsts:
            out = guarded(name, lambda: fn("none"), mode=ms)
            if out is None:
                continue
            for pr in c["probes"]:
                e = pr[key[0]][key[1]] if isinstance(key, tuple) else power_norm(pr, key)
                e = float(fl(F(e))) if not isinstance(e, float) else e
                g = val_at(out, pr["i"])
                if not close(g, e):
                    bad(name, f"mode={mode}: value {g} at interior sample {pr['i']}, analytic {e}", mode=ms, what="value")
                    break
            if float(out.min()) < -1e-9:
                bad(name, "negative energy density", mode=ms, what="sign")
            m_ = guarded(name, lambda: fn("mean"), mode=ms)
            if m_ is not None and not close(float(m_), float(out.mean()), float(out.abs().max())):
                bad(name, "'mean' is not the mean of 'none'", mode=ms, what="reduction")
    # powers of the norm: q = None means 1 / p, q = 0 the absolute value of the plain sum (p = 0)
    for name, kw, key, fnq in (("grad_loss[p=3,q=None]", dict(p=3, q=None), "cubgrad", lambda e: e ** (1.0 / 3.0)), ("grad_loss[p=2,q=0.5]", dict(p=2, q=0.5), "sqgrad", math.sqrt),
                               ("grad_loss[p=0,q=0]", dict(p=0, q=0), "sumgrad", abs), ("grad_loss[p=4,q=2]", dict(p=4, q=2), "quartgrad", lambda e: e * e)):
        out = guarded(name, lambda: L.grad_loss(u, mode="forward_central_backward", spacing=h, reduction="none", **kw))
        if out is None:
            continue
        for pr in c["probes"]:
            e = fnq(power_norm(pr, key) if key in ("cubgrad", "quartgrad", "sumgrad") else float(fl(F(pr[key]))))
            g = val_at(out, pr["i"])
            if not (abs(g - e) <= 1e-4 * max(1.0, abs(e))):
                bad(name, f"value {g} at interior sample {pr['i']}, definition gives {e}", what="value")
                break
    # gradient terms vanish for translations, all terms for linear transformations (given as matrices)
    if all(all(v == [0, 1] for v in comp["L"]) for comp in fld) and affine:
        for name, fn in (("diffusion_loss", L.diffusion_loss), ("total_variation_loss", L.total_variation_loss), ("divergence_loss", L.divergence_loss)):
            o = guarded(name, lambda: fn(u, spacing=h, reduction="none"))
            if o is not None and float(o.abs().max()) > 1e-9:
                bad(name, "translation has non-zero energy", what="null_space")
        o = guarded("elasticity_loss", lambda: L.elasticity_loss(u, first_parameter=1.0, second_parameter=1.0, spacing=h, reduction="none"))
        if o is not None and float(o.abs().max()) > 1e-9:
            bad("elasticity_loss", "translation has non-zero energy", what="null_space")
    lin = torch.eye(D, D + 1).unsqueeze(0) * 1.3
    for name, fn in (("bending_loss", L.bending_loss), ("curvature_loss", L.curvature_loss), ("diffusion_loss", L.diffusion_loss),
                     ("divergence_loss", L.divergence_loss), ("total_variation_loss", L.total_variation_loss)):
        o = guarded(name, lambda: fn(lin), what="linear")
        if o is not None and float(o) != 0.0:
            bad(name, "linear transformation (matrix) has non-zero energy", what="linear")
    # default spacing: without 'spacing' every term differentiates w.r.t. the normalised cube, i.e. with step 2/(n-1) per axis in (x, y, z) order
    dflt = [2.0 / (m - 1) for m in n]
    for name, fn, kw in (("bending_loss", L.bending_loss, {}), ("curvature_loss", L.curvature_loss, {}), ("diffusion_loss", L.diffusion_loss, {}),
                         ("divergence_loss", L.divergence_loss, {}), ("total_variation_loss", L.total_variation_loss, {}),
                         ("grad_loss", L.grad_loss, dict(p=2, q=1)), ("elasticity_loss", L.elasticity_loss, dict(first_parameter=1.0, second_parameter=0.5))):
        a_ = guarded(name, lambda: fn(u, reduction="none", **kw), what="default_spacing")
        b_ = guarded(name, lambda: fn(u, spacing=dflt, reduction="none", **kw), what="default_spacing")
        if a_ is not None and b_ is not None and (a_.shape != b_.shape or float((a_ - b_).abs().max()) > 1e-6 * max(1.0, float(b_.abs().max()))):
            bad(name, f"without 'spacing' the result differs from spacing=2/(n-1) per axis {dflt} (max difference {float((a_ - b_).abs().max()) if a_.shape == b_.shape else 'shape'})",
                what="default_spacing")
    # loss classes of losses.flow agree with the functional forms
    for cls, fn in ((LF.Bending, L.bending_loss), (LF.Curvature, L.curvature_loss), (LF.Diffusion, L.diffusion_loss),
                    (LF.Divergence, L.divergence_loss), (LF.TotalVariation, L.total_variation_loss)):
        a_ = guarded(cls.__name__, lambda: cls(mode="forward_central_backward", spacing=h)(u))
        b_ = guarded(fn.__name__, lambda: fn(u, mode="forward_central_backward", spacing=h))
        if a_ is not None and b_ is not None and not close(float(a_), float(b_)):
            bad(cls.__name__, "loss class differs from the functional form", what="class")
    # ... with every constructor option set (the module must hand each of them on): 'none' maps compared entry by entry
    h2 = [1.5 * v for v in h]
    for cls, fn, kw in ((LF.Bending, L.bending_loss, {}), (LF.Curvature, L.curvature_loss, {}), (LF.Diffusion, L.diffusion_loss, {}), (LF.Divergence, L.divergence_loss, {}),
                        (LF.TotalVariation, L.total_variation_loss, {}), (LF.GradLoss, L.grad_loss, dict(p=3, q=0.5)), (LF.GradLoss, L.grad_loss, dict(p=2, q=None)),
                        (LF.GradLoss, L.grad_loss, dict(p=3, q=None)), (LF.GradLoss, L.grad_loss, dict(p=1.5, q=None)), (LF.GradLoss, L.grad_loss, dict(p=0.5, q=None)),
                        (LF.Elasticity, L.elasticity_loss, dict(first_parameter=1.5, second_parameter=0.25)), (LF.Elasticity, L.elasticity_loss, dict(poissons_ratio=0.25, youngs_modulus=2.0))):
        for okw in (dict(mode="central", spacing=h2), dict(mode="sobel", spacing=h2[0]), dict(sigma=0.7, spacing=h2), dict(spacing=h2, reduction="sum")):
            full = dict(reduction="none", **kw)
            full.update(okw)
            a_ = guarded(cls.__name__, lambda: cls(**full)(u), options=sorted(okw))
            b_ = guarded(fn.__name__, lambda: fn(u, **full), options=sorted(okw))
            if a_ is not None and b_ is not None and (a_.shape != b_.shape or max_err(a_, b_) > 1e-9 * max(1.0, float(b_.abs().max()))):
                bad(cls.__name__, f"loss class constructed with {sorted(full)} differs from the functional form with the same options", what="class_options", options=sorted(okw))
                break
    ctx.count(key=json.dumps(["energies", n, c["h"], fld]), nontrivial=True)


def check_bspline(ctx: Ctx, c: Dict[str, Any]) -> None:
    """B-spline bending = energy of the analytic spline derivatives: coefficients quadratic in the control point index."""
    import deepali.losses.functional as L
    from deepali.losses.bspline import BSplineBending

    n, h, fld = c["n"], fl(F(c["h"])), c["fld"]
    D = len(n)
    if bool(c["affine"]) and all(all(v == [0, 1] for v in comp["L"]) for comp in fld):
        return
    data = poly_field(n, h, fld)
    bend = float(fl(F(c["bending"])))
    for stride in ((3, 2, 2)[:D], 1, 2):
        sig = dict(op="bspline_bending", D=D, stride=str(stride), anisotropic=not isinstance(stride, int))
        try:
            out = L.bending_loss(data, mode="bspline", stride=stride, spacing=h, reduction="none")
            ss = (stride,) * D if isinstance(stride, int) else stride
            exp_shape = tuple((m - 3) * s for m, s in zip(reversed(n), reversed(ss)))
            if tuple(out.shape[2:]) != exp_shape:
                ctx.violation(dict(**sig, what="shape"), f"bending_loss(mode='bspline', stride={stride}) has shape {tuple(out.shape[2:])}, expected {exp_shape}", c)
                continue
            err = float((out - bend).abs().max())
            if err > REL * max(1.0, bend):
                ctx.violation(dict(**sig, what="value"), f"bending_loss(mode='bspline', stride={stride}) differs from the energy of the analytic spline derivatives ({bend}) by {err:.3g}", c)
            if h == [1.0] * D:
                b1 = L.bspline_bending_loss(data, stride=stride, reduction="none")
                # default spacing of flow_derivatives: 2 / (n - 1) per axis
                dflt = [2.0 / (m - 1) for m in n]
                b2 = L.bending_loss(data, mode="bspline", stride=stride, spacing=dflt, reduction="none")
                if max_err(b1, b2) > REL * max(1.0, float(b2.abs().max())):
                    ctx.violation(dict(**sig, what="default_spacing"), "bspline_bending_loss differs from bending_loss(mode='bspline') with the documented default spacing", c)
                mn = BSplineBending(stride=stride, reduction="none")(data)
                if tuple(mn.shape) != tuple(b1.shape) or max_err(mn, b1) > REL * max(1.0, float(b1.abs().max())):
                    ctx.violation(dict(**sig, what="class_none"), f"BSplineBending(stride={stride}, reduction='none') has shape {tuple(mn.shape)}, bspline_bending_loss gives {tuple(b1.shape)}", c)
                m1 = BSplineBending(stride=stride)(data)
                if abs(float(m1) - float(b1.mean())) > REL * max(1.0, float(b1.abs().max())):
                    ctx.violation(dict(**sig, what="class"), "BSplineBending differs from bspline_bending_loss", c)
        except Exception as ex:
            ctx.violation(dict(**sig, exc=type(ex).__name__), f"raised {type(ex).__name__}: {str(ex)[:150]}", c)
    ctx.count(key=json.dumps(["bspline", n, c["h"], fld]))


def check_lame(ctx: Ctx, c: Dict[str, Any]) -> None:
    import deepali.losses.functional as L

    # materials at the ends of the range: no shear stiffness (mu = 0: only the divergence term remains), no first parameter (lam = 0)
    for kw, want in ((dict(first_parameter=2.0, second_parameter=0.0), (2.0, 0.0)), (dict(first_parameter=1.5, shear_modulus=0.0), (1.5, 0.0)),
                     (dict(first_parameter=0.0, second_parameter=0.75), (0.0, 0.75)), (dict(first_parameter=0.0, shear_modulus=1.25), (0.0, 1.25))):
        try:
            l2, m2 = L.lame_parameters(**kw)
            if abs(float(l2) - want[0]) > 1e-9 or abs(float(m2) - want[1]) > 1e-9:
                ctx.violation(dict(op="lame_parameters", pair="degenerate", mu0=want[1] == 0.0), f"lame_parameters({kw}) = ({l2}, {m2}), expected {want}", dict(lame=[kw]))
        except Exception as ex:
            ctx.violation(dict(op="lame_parameters", pair="degenerate", exc=type(ex).__name__), f"lame_parameters({kw}) raised {type(ex).__name__}: {ex}", dict(lame=[kw]))

    for lm in c["lame"]:
        lam, mu, E, nu = (float(fl(F(lm[k]))) for k in ("lam", "mu", "E", "nu"))
        pairs = {
            "lam,mu": dict(first_parameter=lam, second_parameter=mu),
            "lam,shear": dict(first_parameter=lam, shear_modulus=mu),
            "nu,E": dict(poissons_ratio=nu, youngs_modulus=E),
            "mu,nu": dict(shear_modulus=mu, poissons_ratio=nu),
            "mu,E": dict(shear_modulus=mu, youngs_modulus=E),
            "lam,nu": dict(first_parameter=lam, poissons_ratio=nu),
            "lam,E": dict(first_parameter=lam, youngs_modulus=E),
        }
        for name, kw in pairs.items():
            try:
                l2, m2 = L.lame_parameters(**kw)
                if abs(l2 - lam) > 1e-9 * max(1, lam) or abs(m2 - mu) > 1e-9 * max(1, mu):
                    ctx.violation(dict(op="lame_parameters", pair=name), f"lame_parameters({kw}) = ({l2}, {m2}), the same material has (lambda, mu) = ({lam}, {mu})", dict(lame=lm))
            except Exception as ex:
                ctx.violation(dict(op="lame_parameters", pair=name, exc=type(ex).__name__), f"lame_parameters({kw}) raised {type(ex).__name__}: {ex}", dict(lame=lm))
            ctx.count(key=("lame", name, lam, mu))


def check_ic(ctx: Ctx, c: Dict[str, Any]) -> None:
    import deepali.losses.functional as L
    from deepali.core.grid import Grid

    n, h = c["n"], fl(F(c["h"]))
    D = len(n)
    ic = c["ic"][0]
    A = torch.tensor(fl(F(ic["A"])), dtype=torch.float64)
    t = torch.tensor(fl(F(ic["t"])), dtype=torch.float64)
    Ai = torch.tensor(fl(F(ic["invA"])), dtype=torch.float64)
    ti = torch.tensor(fl(F(ic["invt"])), dtype=torch.float64)
    EA = torch.tensor(fl(F(ic["errA"])), dtype=torch.float64)
    Et = torch.tensor(fl(F(ic["errt"])), dtype=torch.float64)
    I = torch.eye(D, dtype=torch.float64)
    for ac in (True, False):
        g = Grid(size=n, spacing=h, align_corners=ac)
        fwd_lin = torch.cat([A, t.unsqueeze(1)], dim=1).unsqueeze(0)
        inv_lin = torch.cat([Ai, ti.unsqueeze(1)], dim=1).unsqueeze(0)
        fwd_flow = affine_field(n, ac, A - I, t)
        inv_flow = affine_field(n, ac, Ai - I, ti)
        fwd_flow_non = fwd_flow  # the forward map as a dense field (paired with the forward matrix as a wrong 'inverse')
        x = g.coords(dtype=torch.float64)
        err_exp = (x.reshape(-1, D) @ EA.T + Et).reshape(x.shape)  # cube units
        for units in ("cube", "voxel", "world"):
            fac = torch.tensor(fl(F(ic[f"{units}_{'t' if ac else 'f'}"])), dtype=torch.float64) if units != "cube" else torch.ones(D, dtype=torch.float64)
            sig = dict(op="inverse_consistency_loss", units=units, ac=ac, D=D)
            for kind, f_, i_ in (("matrix", fwd_lin, inv_lin), ("flow", fwd_flow, inv_flow), ("flow+matrix", fwd_flow, inv_lin)):
                try:
                    e = L.inverse_consistency_loss(f_, i_, grid=g, units=units, reduction="none", margin=0.3 if kind != "matrix" else 0)
                    if kind != "matrix":  # a fractional margin removes int(margin * n) samples at both ends of EVERY axis, each by its own size
                        want = tuple(m - 2 * int(0.3 * m) for m in reversed(n))
                        if tuple(e.shape[-D:]) != want:
                            ctx.violation(dict(**sig, kind=kind, what="margin_shape"), f"error map of a {tuple(reversed(n))} field with margin=0.3 has shape {tuple(e.shape[-D:])}, "
                                          f"expected {want}", c)
                    if float(e.abs().max()) > 1e-7:
                        ctx.violation(dict(**sig, kind=kind, what="exact_inverse"), f"inverse consistency error of an exact inverse pair ({kind}) is {float(e.abs().max()):.3g} {units} units (align_corners={ac})", c)
                except Exception as ex:
                    ctx.violation(dict(**sig, kind=kind, exc=type(ex).__name__), f"raised {type(ex).__name__}: {str(ex)[:140]}", c)
            # without 'grid' the domain is the default grid of the dense field's SHAPE (shape = reversed size)
            try:
                gdef = Grid(shape=tuple(reversed(n)))
                for kind, f_, i_ in (("matrix+flow", fwd_lin, fwd_flow), ("flow+matrix", fwd_flow, fwd_lin), ("flow+flow", fwd_flow, fwd_flow)):
                    e0 = L.inverse_consistency_loss(f_.clone(), i_.clone(), units=units, reduction="none")
                    e1 = L.inverse_consistency_loss(f_.clone(), i_.clone(), grid=gdef, units=units, reduction="none")
                    if tuple(e0.shape) != tuple(e1.shape) or max_err(e0, e1) > 1e-9 * max(1.0, float(e1.abs().max())):
                        ctx.violation(dict(**sig, kind=kind, what="default_grid"), f"inverse_consistency_loss({kind}) without grid differs from grid=Grid(shape=field shape) "
                                      f"(shapes {tuple(e0.shape)} vs {tuple(e1.shape)})", c)
            except Exception as ex:
                ctx.violation(dict(**sig, what="default_grid", exc=type(ex).__name__), f"raised {type(ex).__name__}: {str(ex)[:140]}", c)
            # a pair that is NOT inverse: the error must be reported in the requested unit
            try:
                e = L.inverse_consistency_loss(fwd_lin, fwd_lin, grid=g, units=units, reduction="none")
                exp = (err_exp * fac).norm(dim=-1)
                if max_err(e[0] if e.ndim > exp.ndim else e, exp) > 1e-6 * max(1.0, float(exp.max())):
                    ctx.violation(dict(**sig, what="units"), f"inverse consistency error of a non-inverse pair in {units} units (align_corners={ac}) is off by the factor "
                                  f"{float((e.reshape(-1)[1] / exp.reshape(-1)[1])):.4f}", c)
                m = L.inverse_consistency_loss(fwd_lin, fwd_lin, grid=g, units=units, reduction="mean")
                if abs(float(m) - float(e.mean())) > 1e-9 * max(1.0, float(e.mean())):
                    ctx.violation(dict(**sig, what="reduction"), "'mean' is not the mean of 'none'", c)
            except Exception as ex:
                ctx.violation(dict(**sig, what="units", exc=type(ex).__name__), f"raised {type(ex).__name__}: {str(ex)[:140]}", c)
            # ... restricted by a foreground mask (zero error outside, mean over the foreground only) and by an integer margin
            try:
                exp = (err_exp * fac).norm(dim=-1)
                mk = torch.zeros((1, 1) + tuple(reversed(n)), dtype=torch.float64)
                mk[(0, 0) + tuple(slice(1, None) for _ in range(D))] = 1.0
                # foreground = wherever the mask is NOT zero, whatever its values (soft weights, labels, 0/255): same results as the binary mask
                for mname, mval in (("soft", 0.5), ("label", 3.0), ("255", 255.0)):
                    mk2 = mk * mval
                    mk2[(0, 0) + tuple(slice(2, None) for _ in range(D))] = mval * 2 if mname == "label" else mval
                    for red in ("mean", "sum"):
                        v_b = float(L.inverse_consistency_loss(fwd_lin.clone(), fwd_lin.clone(), grid=g, units=units, mask=mk, reduction=red))
                        v_m = float(L.inverse_consistency_loss(fwd_lin.clone(), fwd_lin.clone(), grid=g, units=units, mask=mk2, reduction=red))
                        if abs(v_b - v_m) > 1e-9 * max(1.0, abs(v_b)):
                            ctx.violation(dict(**sig, what="mask_values", mask=mname, red=red), f"'{red}' with a {mname} mask (non-zero values {mval}) is {v_m}, with the binary mask of the same foreground {v_b}", c)
                em = L.inverse_consistency_loss(fwd_lin.clone(), fwd_lin.clone(), grid=g, units=units, mask=mk, reduction="none")
                em = em[0] if em.ndim > exp.ndim else em
                want = exp * mk[0, 0]
                if max_err(em, want) > 1e-6 * max(1.0, float(exp.max())):
                    ctx.violation(dict(**sig, what="mask"), f"masked inverse consistency error map ({units} units) differs from the unmasked one times the mask by {max_err(em, want):.3g}", c)
                mm = L.inverse_consistency_loss(fwd_lin.clone(), fwd_lin.clone(), grid=g, units=units, mask=mk, reduction="mean")
                wm = float(want.sum() / mk.sum())
                if abs(float(mm) - wm) > 1e-6 * max(1.0, wm):
                    ctx.violation(dict(**sig, what="mask_mean"), f"'mean' with a mask is {float(mm)}, the mean over the foreground is {wm}", c)
                ms = L.inverse_consistency_loss(fwd_lin.clone(), fwd_lin.clone(), grid=g, units=units, mask=mk, reduction="sum")
                if abs(float(ms) - float(want.sum())) > 1e-6 * max(1.0, float(want.sum())):
                    ctx.violation(dict(**sig, what="mask_sum"), f"'sum' with a mask is {float(ms)}, expected {float(want.sum())}", c)
                if min(n) >= 4:
                    ei = L.inverse_consistency_loss(fwd_flow_non, fwd_lin.clone(), grid=g, units=units, margin=1, reduction="none")
                    ei = ei[0] if ei.ndim > exp.ndim else ei
                    wi = exp[tuple(slice(1, -1) for _ in range(D))]
                    if tuple(ei.shape) != tuple(wi.shape) or max_err(ei, wi) > 1e-6 * max(1.0, float(exp.max())):
                        ctx.violation(dict(**sig, what="int_margin"), f"with margin=1 the error map has shape {tuple(ei.shape)} / differs from the interior of the full map (expected shape {tuple(wi.shape)})", c)
            except Exception as ex:
                ctx.violation(dict(**sig, what="mask", exc=type(ex).__name__), f"raised {type(ex).__name__}: {str(ex)[:140]}", c)
        ctx.count(key=("ic", json.dumps(n), json.dumps(c["h"]), ac))


def run(ctx: Ctx) -> None:
    ctx.rule = ("one case per (shape, spacing, polynomial field): energies at interior probes in 4 derivative modes and 3 reductions, scaling / spacing / "
                "affine-invariance relations, null spaces, linear transformations, loss classes; B-spline bending for three stride settings; every pair of "
                "elastic constants for 4 materials; inverse consistency of exact and non-inverse affine pairs in 3 units x 2 align_corners")
    ctx.tlc("MC_Regulariser", CFG.format(T="Q" if ctx.tier == "quick" else "T", emit="FALSE", inv="INVARIANT RLaws\n"), label="laws", timeout=3000)
    res = ctx.tlc("MC_Regulariser", CFG.format(T="Q" if ctx.tier == "quick" else "T", emit="TRUE", inv=""), label="emit", timeout=3000)
    cases = json_lines(res, key=None)
    if not cases:
        raise MachineryError("no cases")
    for c in cases:
        check_energies(ctx, c)
        check_bspline(ctx, c)
        check_ic(ctx, c)
    check_lame(ctx, cases[0])
    ctx.traces = len(cases)
    ctx.sample({k: cases[0][k] for k in ("n", "h", "fld", "bending", "curvature", "lame")})
    probe = Ctx(ctx.prop, ctx.tier, ctx.seed)
    probe.findings = []
    c = json.loads(json.dumps(next(x for x in cases if not x["affine"])))
    c["bending"] = [c["bending"][0] * 2, c["bending"][1]]
    check_energies(probe, c)
    if not probe.violations:
        raise MachineryError("binding self-test failed")
    ctx.notes["binding_selftest"] = "doubled expected bending energy rejected"
    ctx.assumptions += ["polynomial fields of degree <= 2; 'random smooth fields' only through the relational scaling laws on these fields"]


def replay(ctx: Ctx, data: Dict[str, Any]) -> None:
    c = data["case"]
    if "lame" in c and "n" not in c:
        check_lame(ctx, dict(lame=[c["lame"]]))
        return
    check_energies(ctx, c)
    check_bspline(ctx, c)
    check_ic(ctx, c)
