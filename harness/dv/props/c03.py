"""C03 - derived grids keep their place in the world (spec: GridOps)."""
from __future__ import annotations

import json
from typing import Any, Dict, List, Optional

import torch

from ..core import Ctx
from ..gridlib import grid_sig, mk_grid
from ..rat import F, fl, maxabs
from ..tol import F32, bound, max_err
from ..tlc import MachineryError, json_lines


def ac_kw(o: Dict[str, Any]) -> Dict[str, Any]:
    return {} if o["ac"] == -1 else {"align_corners": bool(o["ac"])}


def interleave(lo: List[int], hi: List[int]) -> List[int]:
    out = []
    for a, b in zip(lo, hi):
        out += [a, b]
    return out


def apply_op(g, o: Dict[str, Any], variant: int = 0):
    """Execute one spec operation on a real Grid (variant selects among equivalent call forms)."""
    op = o["op"]
    if op == "resize":
        if variant % 2:
            return g.resize(*o["n"], **ac_kw(o))
        return g.resize(o["n"], **ac_kw(o))
    if op == "reshape":
        return g.reshape(o["n"], **ac_kw(o))
    if op == "resample":
        h_ = fl(F(o["h"]))
        if variant % 4 == 1:
            return g.resample(*h_, min_size=o["min"])
        if len(set(h_)) == 1 and variant % 4 == 2:
            # isotropic: as one number, or by name when it is the grid's smallest / largest spacing
            if abs(float(g.spacing().min()) - h_[0]) < 1e-9:
                return g.resample("min", min_size=o["min"])
            if abs(float(g.spacing().max()) - h_[0]) < 1e-9:
                return g.resample("max", min_size=o["min"])
            return g.resample(h_[0], min_size=o["min"])
        return g.resample(h_, min_size=o["min"])
    if op == "downsample":
        return g.downsample(o["levels"], dims=o["dims"] or None, min_size=o["min"], **ac_kw(o))
    if op == "upsample":
        return g.upsample(o["levels"], dims=o["dims"] or None, **ac_kw(o))
    if op in ("crop", "pad"):
        f = getattr(g, op)
        if o["lo"] == o["hi"]:
            if variant % 5 == 1:
                return f(margin=o["lo"])
            if variant % 5 == 2:
                return f(*o["lo"])
            if variant % 5 == 3:
                return f(tuple(o["lo"]))  # one sequence argument
            if variant % 5 == 4 and len(set(o["lo"])) == 1:
                return f(margin=int(o["lo"][0]))  # one number for every border (positional ints are per-axis margins: f(1) pads the x axis only)
        return f(num=interleave(o["lo"], o["hi"]))
    if op == "center_crop":
        return g.center_crop(o["n"]) if variant % 2 == 0 else g.center_crop(*o["n"])
    if op == "center_pad":
        return g.center_pad(o["n"])
    if op == "narrow":
        return g.narrow(o["dim"], o["start"], o["len"])
    if op == "roi":
        return g.region_of_interest(o["start"], o["n"])
    if op == "pool":
        if variant % 2:
            return g.avg_pool(o["k"], ceil_mode=bool(o["ceil"]))
        return g.pool(o["k"], ceil_mode=bool(o["ceil"]))
    raise MachineryError(f"unknown op {op}")


def op_sig(o: Dict[str, Any]) -> Dict[str, Any]:
    s = {"op": o["op"]}
    for k in ("levels", "k", "ceil", "dim", "valid"):
        if k in o:
            s[k] = o[k]
    if "ac" in o:
        s["ac_arg"] = o["ac"]
    if "dims" in o:
        s["dims"] = "all" if not o["dims"] else "some"
    return s


def compare_grid(ctx: Ctx, c: Dict[str, Any], g, exp: Dict[str, Any], sig: Dict[str, Any], what: str) -> bool:
    n = exp["n"]
    h, cen, RR = fl(F(exp["h"])), fl(F(exp["c"])), fl(F(exp["R"]))
    org = fl(F(c["origin"])) if "origin" in c else None
    scale = max(maxabs(cen), maxabs(org or [0.0]), max(a * b for a, b in zip(n, h)))
    tol = bound(scale, F32)
    bad = []
    if list(g.size()) != list(n) and sig.get("op") == "resample" and "s" in exp:
        # knife edge: the exact fractional size extent/spacing is an integer (e.g. 100 * 3/10 / 1 = 30) but the spacing has no
        # exact float: the library's float32 product may land a hair above it and ceil() gives one more sample.  Not judged.
        sx = F(exp["s"])
        if all(a == b or (sx[i].denominator == 1 and a == b + 1) for i, (a, b) in enumerate(zip(g.size(), n))):
            ctx.notes["knife_edge_sizes_not_judged"] = ctx.notes.get("knife_edge_sizes_not_judged", 0) + 1
            KNIFE.add(json.dumps([c["base"], c["hist"]], sort_keys=True))
            return True
    if list(g.size()) != list(n):
        bad.append(("size", list(g.size()), n))
    else:
        if max_err(g.spacing(), h) > bound(max(h), F32):
            bad.append(("spacing", g.spacing().tolist(), h))
        if max_err(g.center(), cen) > tol:
            bad.append(("center", g.center().tolist(), cen))
        if org is not None and max_err(g.origin(), org) > tol:
            bad.append(("origin", g.origin().tolist(), org))
        if max_err(g.direction(), RR) > 1e-5:
            bad.append(("direction", g.direction().tolist(), RR))
        if g.align_corners() != bool(exp["ac"]):
            bad.append(("align_corners", g.align_corners(), exp["ac"]))
        if "cube_extent" in c and max_err(g.cube_extent(), fl(F(c["cube_extent"]))) > tol:
            bad.append(("cube_extent", g.cube_extent().tolist(), fl(F(c["cube_extent"]))))
    if bad:
        attr, got, want = bad[0]
        ctx.violation(dict(**sig, attr=attr), f"{what}: {attr} is {got}, the specification gives {want}", c)
        return False
    return True


KNIFE: set = set()  # (base, history) keys whose last resample hit a knife edge: longer chains through them are not judged either


def check_chain(ctx: Ctx, c: Dict[str, Any], variant: int = 0) -> None:
    if any(json.dumps([c["base"], c["hist"][:k]], sort_keys=True) in KNIFE for k in range(1, len(c["hist"]))):
        ctx.notes["knife_edge_sizes_not_judged"] = ctx.notes.get("knife_edge_sizes_not_judged", 0) + 1
        return
    base = mk_grid(c["base"])
    g = base
    hist = c["hist"]
    sig0 = dict(depth=len(hist), **grid_sig(c["base"]))
    prev = base
    for k, o in enumerate(hist):
        try:
            prev = g
            g = apply_op(g, o, variant)
        except Exception as ex:
            if k == len(hist) - 1:  # failures of earlier steps are reported by the shorter chain
                ctx.violation(dict(**op_sig(o), **sig0, exc=type(ex).__name__),
                              f"{o['op']} raised {type(ex).__name__} ({str(ex)[:120]}) on a valid grid after {[h['op'] for h in hist[:k]]}", c)
            ctx.count(key=json.dumps([c["base"], hist], sort_keys=True))
            return
    last = hist[-1]
    compare_grid(ctx, c, g, c["g"], dict(**op_sig(last), **sig0), f"after {[h['op'] for h in hist]}")
    # the same resize through the grid's cube: Grid -> Cube -> Grid of the requested size covers the same world cube
    if last["op"] in ("resize", "reshape") and min(c["g"]["n"]) >= 2 and min(prev.size()) >= 2:
        acq = prev.align_corners() if last["ac"] == -1 else bool(last["ac"])
        n_new = list(c["g"]["n"])
        forms = [("size", dict(size=tuple(n_new))), ("shape", dict(shape=tuple(reversed(n_new)))), ("cube()", None)]
        name, kw = forms[variant % len(forms)]
        try:
            if kw is None:
                gc = g.align_corners(acq).cube().grid(size=tuple(n_new), align_corners=acq)
            else:
                gc = prev.align_corners(acq).cube().grid(align_corners=acq, **kw)
            gc = gc.align_corners(prev.align_corners())
        except Exception as ex:
            ctx.violation(dict(op="Cube.grid", form=name, **sig0, exc=type(ex).__name__),
                          f"Grid.cube().grid({name}) raised {type(ex).__name__} ({str(ex)[:120]}) after {[h['op'] for h in hist[:-1]]}", c)
        else:
            compare_grid(ctx, c, gc, c["g"], dict(op="Cube.grid", form=name, ac_arg=last["ac"], **sig0), f"Grid.cube().grid({name}) in place of {last['op']} after {[h['op'] for h in hist[:-1]]}")
    # resample("min" | "max") = resampling to the grid's own smallest / largest spacing; pad/crop by nothing return the grid itself
    if len(hist) == 1:
        for word, val in (("min", float(base.spacing().min())), ("max", float(base.spacing().max()))):
            try:
                gw, gn = base.resample(word), base.resample(val)
                if list(gw.size()) != list(gn.size()) or max_err(gw.spacing(), gn.spacing()) > 1e-6 or max_err(gw.center(), gn.center()) > 1e-4 or max_err(gw.spacing(), [val] * base.ndim) > 1e-6 * max(1.0, val):
                    ctx.violation(dict(op="resample", word=word, **sig0), f"resample('{word}') gives {gw!r}, resample({val}) gives {gn!r}", c)
            except Exception as ex:
                ctx.violation(dict(op="resample", word=word, exc=type(ex).__name__, **sig0), f"resample('{word}') raised {type(ex).__name__}: {str(ex)[:100]}", c)
        for nm in ("pad", "crop"):
            for form, call in (("0", lambda f_: f_(*([0] * base.ndim))), ("margin=0", lambda f_: f_(margin=0)), ("num=zeros", lambda f_: f_(num=(0,) * (2 * base.ndim)))):
                try:
                    g0 = call(getattr(base, nm))
                    if g0 != base or list(g0.size()) != list(base.size()):
                        ctx.violation(dict(op=nm, form=form, what="zero", **sig0), f"{nm}({form}) changes the grid", c)
                except Exception as ex:
                    ctx.violation(dict(op=nm, form=form, exc=type(ex).__name__, **sig0), f"{nm}({form}) raised {type(ex).__name__}: {str(ex)[:100]}", c)
    # same domain for the resize family
    if last["op"] in ("resize", "reshape", "downsample", "upsample") and len(hist) == 1:
        acq = base.align_corners() if last["ac"] == -1 else bool(last["ac"])
        if acq == base.align_corners() and not g.same_domain_as(base):
            ctx.violation(dict(**op_sig(last), **sig0, attr="same_domain_as"),
                          f"{last['op']} result does not report the same domain as its source", c)
    ctx.count(key=json.dumps([c["base"], hist], sort_keys=True))


# ------------------------------------------------------------------ code -> spec (trace validation)
TRACE_CFG = """SPECIFICATION TSpec
CONSTANTS
  Bases = {}
  OpsOf <- NoOps
  MaxDepth = 0
  EmitCases = FALSE
CONSTRAINT Report
POSTCONDITION Consumed
"""


def observe(g) -> Dict[str, Any]:
    from ..trace import micro

    return dict(n=list(g.size()), ac=bool(g.align_corners()), h=[micro(v) for v in g.spacing().tolist()],
                c=[micro(v) for v in g.center().tolist()], o=[micro(v) for v in g.origin().tolist()])


def random_op(rng, g, n_resizes: int) -> Dict[str, Any]:
    D = g.ndim
    n = list(g.size())
    kinds = ["crop", "pad", "center_crop", "center_pad", "narrow", "roi", "pool", "pyramid"]
    if n_resizes < 2:
        kinds += ["resize", "reshape", "resample", "downsample", "upsample"] * 2
    k = rng.choice(kinds)
    ac = rng.choice([-1, 0, 1])
    if k == "resize":
        return dict(op=k, n=[rng.randint(2, 12) for _ in range(D)], ac=ac)
    if k == "reshape":
        return dict(op=k, n=[rng.randint(2, 12) for _ in range(D)], ac=ac)
    if k == "resample":
        from fractions import Fraction as Fr
        return dict(op=k, h=[[x.numerator, x.denominator] for x in (rng.choice([Fr(1, 2), Fr(1), Fr(3, 2), Fr(3, 4), Fr(2), Fr(5, 4)]) for _ in range(D))],
                    min=rng.choice([1, 1, 2, 5]))
    if k == "downsample":
        return dict(op=k, levels=rng.choice([1, 1, 2]), dims=rng.choice([[], [0], [D - 1]]), min=rng.choice([1, 1, 2, 4]), ac=ac)
    if k == "upsample":
        return dict(op=k, levels=1, dims=rng.choice([[], [0], [D - 1]]), ac=ac)
    if k in ("crop", "pad"):
        sgn = 1 if k == "crop" else -1
        lo, hi = [], []
        for i in range(D):
            room = max(n[i] - 1, 0)
            a = rng.randint(-2, 3)
            b = rng.randint(-2, 3)
            while sgn * (a + b) > room:
                a, b = (a - 1, b) if sgn > 0 else (a + 1, b)
            lo.append(a)
            hi.append(b)
        return dict(op=k, lo=lo, hi=hi)
    if k in ("center_crop", "center_pad"):
        return dict(op=k, n=[rng.randint(1, 14) for _ in range(D)])
    if k == "narrow":
        d = rng.randrange(D)
        if n[d] < 1:
            return dict(op="pool", k=2, ceil=True)
        start = rng.randrange(n[d])
        return dict(op=k, dim=d, start=start, len=rng.randint(1, n[d] - start))
    if k == "roi":
        return dict(op=k, start=[rng.randint(-2, max(n[i] - 1, 0)) for i in range(D)], n=[rng.randint(1, 8) for _ in range(D)])
    if k == "pool":
        return dict(op=k, k=rng.choice([2, 3]), ceil=rng.random() < 0.5)
    return dict(op="pyramid", levels=rng.choice([1, 2, 3]), dims=rng.choice([[], [], [0], [D - 1]]), min=rng.choice([0, 0, 2, 3]))


def record_traces(seed: int, ntraces: int) -> List[List[dict]]:
    import random
    from fractions import Fraction as Fr

    from deepali.core.grid import Grid

    from ..rat import J
    from ..rot import random_rotation

    rng = random.Random(seed)
    traces = []
    for _ in range(ntraces):
        D = rng.choice([2, 2, 3])
        n = [rng.randint(2, 12) for _ in range(D)]
        h = [rng.choice([Fr(1, 2), Fr(1), Fr(3, 2), Fr(3, 4), Fr(2), Fr(5, 4), Fr(1, 4)]) for _ in range(D)]
        c = [Fr(rng.randint(-12, 12), rng.choice([1, 2, 4])) for _ in range(D)]
        RR = random_rotation(rng, D, small=True)
        ac = rng.random() < 0.5
        rec = dict(n=n, s=J([Fr(v) for v in n]), h=J(h), c=J(c), R=J(RR), ac=ac)
        g = mk_grid(rec)
        t = [dict(ev="start", g=rec)]
        n_res = 0
        for _ in range(rng.randint(1, 5)):
            o = random_op(rng, g, n_res)
            if o["op"] in ("resize", "reshape", "resample", "downsample", "upsample"):
                n_res += 1
            if o["op"] == "pyramid":
                try:
                    pyr = g.pyramid(o["levels"], dims=o["dims"] or None, min_size=o["min"])
                    out = [observe(pyr[k]) for k in range(o["levels"] + 1)]
                    t.append(dict(ev="pyramid", levels=o["levels"], dims=o["dims"], min=o["min"], exc=False, out=out))
                except Exception as ex:
                    t.append(dict(ev="pyramid", levels=o["levels"], dims=o["dims"], min=o["min"], exc=True, out=[], err=f"{type(ex).__name__}: {ex}"[:200]))
                    break
                continue
            try:
                g2 = apply_op(g, o, rng.randrange(6))
                t.append(dict(ev="op", o=o, exc=False, out=observe(g2)))
                g = g2
            except Exception as ex:
                t.append(dict(ev="op", o=o, exc=True, out=observe(g), err=f"{type(ex).__name__}: {ex}"[:200]))
                break
        traces.append(t)
    return traces


def validate_traces(ctx: Ctx, traces: List[List[dict]], label: str = "trace") -> int:
    from ..trace import validate

    rej, nval = validate(ctx, "Trace_GridOps", TRACE_CFG, traces, label=label)
    for tid, (line, clause) in rej.items():
        t = traces[tid]
        # locate the event within the trace
        ops = [e.get("o", {}).get("op", e["ev"]) for e in t[1:]]
        bad = next((e for e in t[1:] if e.get("o", {}).get("op", e["ev"]) == clause), t[-1])
        sig = dict(op=clause, via="trace", D=len(t[0]["g"]["n"]), ac=t[0]["g"]["ac"], exc=("AssertionError" if "AssertionError" in bad.get("err", "") else bool(bad.get("exc"))))
        ctx.violation(sig, f"recorded Grid call chain {ops} is not a behaviour of GridOps: event '{clause}' unexplained "
                      f"({bad.get('err', 'observed grid differs from the specified result')})", dict(trace=t))
    return nval


def cfg(tier: str, emit: bool, depth: int, bases: str, inv: bool) -> str:
    s = (f"SPECIFICATION Spec\nCONSTANTS\n  Bases <- {bases}\n  OpsOf <- QOpsOf\n  MaxDepth = {depth}\n"
         f"  EmitCases = {'TRUE' if emit else 'FALSE'}\n")
    if inv:
        s += "INVARIANT PostHolds\nINVARIANT BaseValid\nINVARIANT DownUp\n"
    s += "CONSTRAINT Emit\n"
    return s


def run(ctx: Ctx) -> None:
    tier = ctx.tier
    ctx.rule = ("every reachable chain (base grid, op_1..op_k) of the GridOps state machine is one case, replayed on a real "
                "Grid and compared attribute by attribute with the specified result; all chains are distinct by construction")
    bases = "QBases" if tier == "quick" else "TBases"
    depth = 2
    ctx.tlc("MC_GridOps", cfg(tier, False, depth, bases, True), label="laws", timeout=3000)
    res = ctx.tlc("MC_GridOps", cfg(tier, True, depth, bases, False), label="emit", timeout=3000)
    cases = json_lines(res, key=None)
    if not cases:
        raise MachineryError("no chains emitted")
    cases.sort(key=lambda c: len(c["hist"]))  # prefixes first (knife-edge bookkeeping)
    for i, c in enumerate(cases):
        check_chain(ctx, c, variant=i + ctx.seed)
    ops_seen = {}
    for c in cases:
        k = c["hist"][-1]["op"]
        ops_seen[k] = ops_seen.get(k, 0) + 1
    missing = {"resize", "reshape", "resample", "downsample", "upsample", "crop", "pad", "center_crop", "center_pad",
               "narrow", "roi", "pool"} - set(ops_seen)
    if missing:
        raise MachineryError(f"vacuous model: operations never taken: {sorted(missing)}")
    ctx.notes["transitions_by_op"] = ops_seen
    ctx.sample(dict(base=cases[0]["base"], hist=cases[0]["hist"], expected=cases[0]["g"]))
    ctx.sample(dict(base=cases[-1]["base"], hist=cases[-1]["hist"], expected=cases[-1]["g"]))
    ctx.traces = len(cases)
    # rounding-sensitive grids: chains of length 1 on many grids
    res = ctx.tlc("MC_GridOps", cfg(tier, True, 1, "RBases" if tier == "quick" else "RBasesT", False), label="rounding-emit", timeout=3000)
    rc = json_lines(res, key=None)
    for i, c in enumerate(rc):
        check_chain(ctx, c, variant=i)
    ctx.traces += len(rc)
    ctx.notes["rounding_sensitive_chains"] = len(rc)
    # code -> spec: random call chains (incl. pyramid) recorded from the real Grid, validated by Trace_GridOps
    ntr = 400 if tier == "quick" else 5000
    traces = record_traces(ctx.seed, ntr)
    nval = validate_traces(ctx, traces)
    ctx.traces += nval
    ctx.notes["recorded_traces_validated"] = nval
    ev_by_op = {}
    for t in traces:
        for e in t[1:]:
            k = e.get("o", {}).get("op", e["ev"])
            ev_by_op[k] = ev_by_op.get(k, 0) + 1
    ctx.notes["recorded_events_by_op"] = ev_by_op
    ctx.sample(dict(recorded_trace=traces[0]))
    # binding self-test of the trace path: corrupt one observed spacing, require rejection
    bad_t = json.loads(json.dumps([t for t in traces if len(t) > 1 and t[1]["ev"] == "op" and not t[1]["exc"]][0][:2]))
    bad_t[1]["out"]["h"][0] += 5000
    p2 = Ctx(ctx.prop, ctx.tier, ctx.seed)
    p2.findings = []
    validate_traces(p2, [bad_t], label="trace-selftest")
    if not p2.violations:
        raise MachineryError("binding self-test failed: corrupted recorded spacing accepted by Trace_GridOps")
    # binding self-test
    probe = Ctx(ctx.prop, ctx.tier, ctx.seed)
    probe.findings = []
    c = json.loads(json.dumps(next(x for x in cases if x["hist"][-1]["op"] == "resize")))
    c["g"]["h"][0] = [c["g"]["h"][0][0] * 3, c["g"]["h"][0][1] * 2]
    check_chain(probe, c)
    if not probe.violations:
        raise MachineryError("binding self-test failed: corrupted expected spacing accepted")
    ctx.notes["binding_selftest"] = "corrupted expected spacing rejected"
    ctx.assumptions += ["chains up to length 2 exhaustively over the op lattice (length 3 in the thorough tier by simulation)",
                        "rational rotations only; float32 tolerance policy"]


def replay(ctx: Ctx, data: Dict[str, Any]) -> None:
    case = data["case"]
    if "trace" in case:
        # re-record the same call chain on the current tree and validate it again
        t = case["trace"]
        g = mk_grid(t[0]["g"])
        new = [t[0]]
        for e in t[1:]:
            if e["ev"] == "pyramid":
                try:
                    pyr = g.pyramid(e["levels"], dims=e["dims"] or None, min_size=e["min"])
                    new.append(dict(e, exc=False, out=[observe(pyr[k]) for k in range(e["levels"] + 1)]))
                except Exception as ex:
                    new.append(dict(e, exc=True, out=[], err=str(ex)[:100]))
                    break
                continue
            try:
                g = apply_op(g, e["o"], 0)
                new.append(dict(ev="op", o=e["o"], exc=False, out=observe(g)))
            except Exception as ex:
                new.append(dict(ev="op", o=e["o"], exc=True, out=e["out"], err=f"{type(ex).__name__}: {ex}"[:200]))
                break
        validate_traces(ctx, [new])
    else:
        check_chain(ctx, case)
