"""C14 - cubic B-spline evaluation, derivatives and subdivision are exact (spec: BSpline)."""
from __future__ import annotations

import json
from typing import Any, Dict, List

import torch

from ..core import Ctx
from ..rat import F, fl
from ..tol import max_err
from ..tlc import MachineryError, json_lines

BS_CFG = ("SPECIFICATION Spec\nCONSTANTS\n  Strides <- {strides}\n  Derivs <- AllDerivs\n  MaxSize = {maxsize}\n  Coeffs <- QCoeffs\n"
          "  Coeffs2 <- QCoeffs2\n  EmitCases = {emit}\n{inv}CONSTRAINT Emit\n")


def check_weights(ctx: Ctx, c: Dict[str, Any]) -> None:
    import deepali.core.bspline as B
    from deepali.core.kernels import cubic_bspline1d

    s, d = c["s"], c["d"]
    W = torch.tensor(fl(F(c["W"])), dtype=torch.float64)
    for dtype, tol in ((torch.float64, 1e-12), (torch.float32, 1e-6)):
        try:
            w = B.cubic_bspline_interpolation_weights(s, derivative=d, dtype=dtype)
            if tuple(w.shape) != (s, 4) or max_err(w, W) > tol:
                ctx.violation(dict(op="cubic_bspline_interpolation_weights", derivative=d, stride_gt1=s > 1),
                              f"cubic_bspline_interpolation_weights(stride={s}, derivative={d}) differs from the analytic basis by {max_err(w, W):.3g}", c)
            ws = B.cubic_bspline_interpolation_weights([s, s], derivative=[d, 0], dtype=dtype)
            if max_err(ws[0], W) > tol:
                ctx.violation(dict(op="cubic_bspline_interpolation_weights", derivative=d, form="sequence"), "sequence form differs", c)
            if d == 0:
                w3 = B.bspline_interpolation_weights(degree=3, stride=s, dtype=dtype)
                if max_err(w3, W) > tol:
                    ctx.violation(dict(op="bspline_interpolation_weights", derivative=0), f"bspline_interpolation_weights(3, {s}) differs", c)
        except Exception as ex:
            ctx.violation(dict(op="cubic_bspline_interpolation_weights", derivative=d, exc=type(ex).__name__), f"raised {ex}", c)
    if d <= 2:
        try:
            kern = cubic_bspline1d(s, derivative=d).to(torch.float64)
            exp = torch.tensor(fl(F(c["kernel"])), dtype=torch.float64)
            if tuple(kern.shape) != tuple(exp.shape) or max_err(kern, exp) > 1e-6:
                ctx.violation(dict(op="cubic_bspline1d", derivative=d), f"cubic_bspline1d(stride={s}, derivative={d}) differs from beta((p)/s)", c)
        except Exception as ex:
            ctx.violation(dict(op="cubic_bspline1d", derivative=d, exc=type(ex).__name__), f"raised {ex}", c)
    ctx.count(key=("weights", s, d), nontrivial=True)


def check_sizes(ctx: Ctx, c: Dict[str, Any]) -> None:
    import deepali.core.bspline as B

    s = c["s"]
    for m, N in enumerate(c["N"], start=1):
        got = B.cubic_bspline_control_point_grid_size(m, s)
        if got != N:
            ctx.violation(dict(op="cubic_bspline_control_point_grid_size", mod=m % s), f"control grid size for image size {m}, stride {s} is {got}, needed {N}", dict(m=m, s=s, N=N))
            break
    got = B.cubic_bspline_control_point_grid_size((7, 12), (s, 1 + s % 5))
    exp = (c["N"][6], (12 + (1 + s % 5) - 1) // (1 + s % 5) + 3)
    if tuple(got) != exp:
        ctx.violation(dict(op="cubic_bspline_control_point_grid_size", form="sequence"), f"sequence form gives {tuple(got)}, expected {exp}", dict(s=s))
    ctx.count(key=("sizes", s), n=len(c["N"]))


def check_eval(ctx: Ctx, c: Dict[str, Any]) -> None:
    import deepali.core.bspline as B

    s, d, m = c["s"], c["d"], c["m"]
    coeff = torch.tensor(c["c"], dtype=torch.float64)
    f = torch.tensor(fl(F(c["f"])), dtype=torch.float64)
    scale = max(1.0, float(f.abs().max()))
    data = torch.stack([coeff, 2 * coeff]).unsqueeze(0)  # (N=1, C=2, X)
    data = torch.cat([data, -data])                      # N = 2
    sig0 = dict(derivative=d, D=1)
    try:
        out = B.evaluate_cubic_bspline(data, stride=s, size=(m,), derivative=d)
        if tuple(out.shape) != (2, 2, m):
            ctx.violation(dict(op="evaluate_cubic_bspline", what="shape", **sig0), f"output shape {tuple(out.shape)} for size {m}", c)
        else:
            exp = torch.stack([torch.stack([f, 2 * f]), torch.stack([-f, -2 * f])])
            if max_err(out, exp) > 1e-9 * scale:
                ctx.violation(dict(op="evaluate_cubic_bspline", **sig0, stride_gt1=s > 1),
                              f"evaluate_cubic_bspline(stride={s}, derivative={d}) differs from the analytic spline by {max_err(out, exp):.3g}", c)
        full = B.evaluate_cubic_bspline(data, stride=s, derivative=d)
        if full.shape[-1] < m:
            ctx.violation(dict(op="evaluate_cubic_bspline", what="coverage", **sig0), f"evaluated field has {full.shape[-1]} samples, image has {m}", c)
        if d == 0:
            outT = B.evaluate_cubic_bspline(data, stride=s, size=(m,), transpose=True)
            if tuple(outT.shape) != (2, 2, m) or max_err(outT, exp) > 2e-6 * scale:
                ctx.violation(dict(op="evaluate_cubic_bspline", transpose=True, **sig0), f"transposed-convolution evaluation (stride={s}) differs from the analytic spline", c)
    except Exception as ex:
        ctx.violation(dict(op="evaluate_cubic_bspline", exc=type(ex).__name__, **sig0), f"raised {type(ex).__name__}: {ex}", c)
    ctx.count(key=("eval", json.dumps(c["c"]), s, d, m), nontrivial=True)


def check_eval2(ctx: Ctx, c: Dict[str, Any]) -> None:
    import deepali.core.bspline as B

    s, d, m = c["s"], c["d"], c["m"]
    coeff = torch.tensor(c["c"], dtype=torch.float64).unsqueeze(0).unsqueeze(0)  # (1, 1, Y, X)
    f = torch.tensor(fl(F(c["f"])), dtype=torch.float64)
    scale = max(1.0, float(f.abs().max()))
    sig0 = dict(D=2, derivative=d, anisotropic=s[0] != s[1])
    try:
        out = B.evaluate_cubic_bspline(coeff, stride=s, size=tuple(m), derivative=d)[0, 0]
        if tuple(out.shape) != tuple(f.shape) or max_err(out, f) > 1e-9 * scale:
            ctx.violation(dict(op="evaluate_cubic_bspline", **sig0), f"2-D evaluation (stride={s}, derivative={d}) differs from the tensor-product spline", c)
        if d == [0, 0]:
            outT = B.evaluate_cubic_bspline(coeff, stride=s, size=tuple(m), transpose=True)[0, 0]
            if tuple(outT.shape) != tuple(f.shape) or max_err(outT, f) > 2e-6 * scale:
                ctx.violation(dict(op="evaluate_cubic_bspline", transpose=True, **sig0), f"2-D transposed evaluation (stride={s}) differs", c)
            from deepali.core.kernels import cubic_bspline1d
            kern = [cubic_bspline1d(si).double() for si in s]
            outK = B.evaluate_cubic_bspline(coeff, stride=s, size=tuple(m), kernel=kern, transpose=True)[0, 0]
            if tuple(outK.shape) != tuple(f.shape) or max_err(outK, f) > 2e-6 * scale:
                ctx.violation(dict(op="evaluate_cubic_bspline", transpose=True, kernels="explicit", **sig0), f"2-D transposed evaluation with explicit per-axis kernels (stride={s}) differs", c)
        if d == [0, 0] and s[0] == s[1]:
            from deepali.core.kernels import cubic_bspline1d as _k1

            outS = B.evaluate_cubic_bspline(coeff, stride=s[0], size=tuple(m), kernel=_k1(s[0]).double(), transpose=True)[0, 0]
            if tuple(outS.shape) != tuple(f.shape) or max_err(outS, f) > 2e-6 * scale:
                ctx.violation(dict(op="evaluate_cubic_bspline", transpose=True, kernels="single", **sig0), f"2-D transposed evaluation with ONE kernel tensor for all axes (stride={s[0]}) differs", c)
            wS = B.cubic_bspline_interpolation_weights(s[0], dtype=torch.float64)
            outW = B.evaluate_cubic_bspline(coeff, stride=s[0], size=tuple(m), kernel=wS)[0, 0]
            if tuple(outW.shape) != tuple(f.shape) or max_err(outW, f) > 1e-9 * scale:
                ctx.violation(dict(op="evaluate_cubic_bspline", kernels="single weights", **sig0), f"2-D evaluation with ONE weight table for all axes (stride={s[0]}) differs", c)
        if d == [0, 0]:
            # subdivision along SOME axes, named in every accepted way: x only (0, 'x', SpatialDim.X, [0]), then y, equals subdividing both at once
            from deepali.core.enum import SpatialDim

            both = B.subdivide_cubic_bspline(coeff)
            Yc, Xc = coeff.shape[2:]
            for form, dx_ in (("0", 0), ("'x'", "x"), ("SpatialDim.X", SpatialDim.X), ("[0]", [0]), ("(SpatialDim.X,)", (SpatialDim.X,))):
                sx_ = B.subdivide_cubic_bspline(coeff, dims=dx_)
                if tuple(sx_.shape[2:]) != (Yc, 2 * Xc - 1):
                    ctx.violation(dict(op="subdivide_cubic_bspline", dims=form, what="shape", **sig0), f"subdivide_cubic_bspline(dims={form}) of a ({Yc}, {Xc}) lattice has shape {tuple(sx_.shape[2:])}, expected ({Yc}, {2 * Xc - 1})", c)
                    continue
                sxy = B.subdivide_cubic_bspline(sx_, dims=1 if not isinstance(dx_, str) else "y")
                if tuple(sxy.shape) != tuple(both.shape) or max_err(sxy, both) > 1e-12 * scale:
                    ctx.violation(dict(op="subdivide_cubic_bspline", dims=form, what="order", **sig0), f"subdividing along x (dims={form}) and then along y differs from subdividing both axes at once", c)
            sy_ = B.subdivide_cubic_bspline(coeff, dims=1)
            if tuple(sy_.shape[2:]) != (2 * Yc - 1, Xc):
                ctx.violation(dict(op="subdivide_cubic_bspline", dims="1", what="shape", **sig0), f"subdivide_cubic_bspline(dims=1) has shape {tuple(sy_.shape[2:])}", c)
        # the same derivative through spatial_derivatives(mode='bspline'): the spline derivative per coefficient spacing, divided by the
        # physical spacing of each axis once per derivative order along it
        if d != [0, 0]:
            import deepali.core.functional as U

            code = "x" * d[0] + "y" * d[1]
            full = B.evaluate_cubic_bspline(coeff, stride=s, derivative=d)
            for hname, hh in (("none", None), ("unit", 1.0), ("scalar", 0.5), ("vector", (0.5, 2.0)), ("per-item", torch.tensor([[2.0, 0.25]], dtype=torch.float64))):
                got = U.spatial_derivatives(coeff, mode="bspline", which=code, stride=s, spacing=hh)[code]
                hv = [1.0, 1.0] if hh is None else ([float(hh)] * 2 if isinstance(hh, float) else [float(v) for v in torch.as_tensor(hh).reshape(-1)])
                e = full / (hv[0] ** d[0] * hv[1] ** d[1])
                if tuple(got.shape) != tuple(e.shape) or max_err(got, e) > 1e-9 * max(1.0, float(e.abs().max())):
                    ctx.violation(dict(op="spatial_derivatives", spacing=hname, **sig0),
                                  f"spatial_derivatives(mode='bspline', which='{code}', stride={s}, spacing={hname}:{hv}) differs from the spline derivative divided by spacing^order", c)
                    break
        # free-form deformation: buffer u for these coefficients (x component)
        if d == [0, 0]:
            from deepali.core.grid import Grid
            from deepali.spatial import FreeFormDeformation

            for transpose in (False, True):
                g = Grid(size=tuple(m), align_corners=True)
                t = FreeFormDeformation(g, stride=s, params=False, transpose=transpose)
                shp = tuple(t.data_shape)
                if shp[1:] != tuple(coeff.shape[2:]):
                    ctx.violation(dict(op="FreeFormDeformation", what="data_shape", **sig0), f"FFD data_shape {shp} != control grid {tuple(coeff.shape[2:])}", c)
                    break
                p = torch.zeros((1,) + shp)
                p[0, 0] = coeff[0, 0].float()
                u = t.data_(p).update().u
                if tuple(u.shape[2:]) != tuple(f.shape) or max_err(u[0, 0], f) > 2e-5 * scale:
                    ctx.violation(dict(op="FreeFormDeformation", transpose=transpose, **sig0), f"FFD(stride={s}, transpose={transpose}) displacement differs from the spline", c)
    except Exception as ex:
        ctx.violation(dict(op="evaluate_cubic_bspline", exc=type(ex).__name__, **sig0), f"raised {type(ex).__name__}: {ex}", c)
    ctx.count(key=("eval2", json.dumps(c["c"]), tuple(s), tuple(d)), nontrivial=True)


def check_subdiv(ctx: Ctx, c: Dict[str, Any]) -> None:
    import deepali.core.bspline as B

    coeff = torch.tensor(c["c"], dtype=torch.float64)
    exp = torch.tensor(fl(F(c["c2"])), dtype=torch.float64)
    data = coeff.reshape(1, 1, 1, -1).expand(1, 1, 3, -1).contiguous()  # (1,1,Y=3,X)
    try:
        out = B.subdivide_cubic_bspline(data, dims=[0])
        if tuple(out.shape) != (1, 1, 3, exp.shape[0]) or max_err(out[0, 0, 1], exp) > 1e-12:
            ctx.violation(dict(op="subdivide_cubic_bspline"), f"subdivided coefficients differ from the masks [1/8,3/4,1/8], [1/2,1/2]", c)
        out2 = B.subdivide_cubic_bspline(data.transpose(2, 3).contiguous(), dims=[1])
        if max_err(out2[0, 0, :, 1], exp) > 1e-12:
            ctx.violation(dict(op="subdivide_cubic_bspline", dim=1), "subdivision along y differs", c)
    except Exception as ex:
        ctx.violation(dict(op="subdivide_cubic_bspline", exc=type(ex).__name__), f"raised {ex}", c)
    ctx.count(key=("subdiv", json.dumps(c["c"])), nontrivial=True)


def check_ffd_refine(ctx: Ctx) -> None:
    """Refining an FFD's image grid (n -> 2n-1, same domain) leaves the represented function unchanged; linear precision."""
    from deepali.core.grid import Grid
    from deepali.spatial import FreeFormDeformation

    gen = torch.Generator().manual_seed(5)
    for size, stride in (((9, 7), 4), ((9, 9), (2, 3)), ((7, 5, 5), 2), ((17, 9), 4)):
        g = Grid(size=size, spacing=[1.0, 1.5, 2.0][: len(size)], align_corners=True)
        t = FreeFormDeformation(g, stride=stride, params=False)
        shp = tuple(t.data_shape)
        D = len(size)
        # linear precision: coefficients linear in the control point index -> displacement linear in the sample index
        strides = (stride,) * D if isinstance(stride, int) else stride
        idx = torch.meshgrid(*[torch.arange(n, dtype=torch.float32) for n in shp[1:]], indexing="ij")  # (.., y, x)
        lin = sum((k + 1) * 0.25 * ii for k, ii in enumerate(reversed(idx)))  # slope per control point along x: .25, y: .5
        p = torch.zeros((1,) + shp)
        p[0, 0] = lin
        u = t.data_(p).update().u[0, 0]
        sidx = torch.meshgrid(*[torch.arange(n, dtype=torch.float32) for n in reversed(size)], indexing="ij")
        exp = sum((k + 1) * 0.25 * (ii / strides[k] + 1) for k, ii in enumerate(reversed(sidx)))
        sig = dict(op="FreeFormDeformation", what="linear_precision", D=D)
        if tuple(u.shape) != tuple(exp.shape) or max_err(u, exp) > 1e-4:
            ctx.violation(sig, f"FFD(size={size}, stride={stride}) with linear coefficients does not reproduce the linear function (off by {max_err(u, exp) if u.shape == exp.shape else 'shape'})", dict(size=size, stride=stride))
        # refinement with random coefficients
        p = torch.randint(-5, 6, (1,) + shp, generator=gen).float()
        t.data_(p)
        u0 = t.update().u.clone()
        fine = g.resize(tuple(2 * n - 1 for n in size))
        try:
            t.grid_(fine)
            u1 = t.update().u
            sel = (slice(None), slice(None)) + tuple(slice(0, None, 2) for _ in size)
            err = max_err(u1[sel], u0)
            if err > 1e-4:
                ctx.violation(dict(op="FreeFormDeformation.grid_", D=D), f"refining the FFD grid {size} -> {tuple(fine.size())} (stride {stride}) changes the represented function by {err:.3g}", dict(size=size, stride=stride))
        except Exception as ex:
            ctx.violation(dict(op="FreeFormDeformation.grid_", exc=type(ex).__name__, D=D), f"grid_(2n-1) raised {type(ex).__name__}: {ex}", dict(size=size, stride=stride))
        ctx.count(key=("ffd", size, stride))


def run(ctx: Ctx) -> None:
    tier = ctx.tier
    ctx.rule = ("weights: one case per (stride, derivative order); sizes: every image size 1..MaxSize per stride (exhaustive); eval: one case per "
                "(coefficient vector, stride, derivative, image size) in 1-D and per (coefficient matrix, strides, derivative orders) in 2-D; subdivision "
                "cases; FFD linear precision and grid refinement")
    strides = "QStrides" if tier == "quick" else "TStrides"
    maxsize = 512 if tier == "quick" else 4096
    ctx.tlc("MC_BSpline", BS_CFG.format(strides=strides, maxsize=maxsize, emit="FALSE", inv="INVARIANT Laws\n"), label="laws", timeout=3000)
    res = ctx.tlc("MC_BSpline", BS_CFG.format(strides=strides, maxsize=maxsize, emit="TRUE", inv=""), label="emit", timeout=3000)
    cases = json_lines(res, key=None)
    if not cases:
        raise MachineryError("no cases")
    fn = {"weights": check_weights, "sizes": check_sizes, "eval": check_eval, "eval2": check_eval2, "subdiv": check_subdiv}
    for c in cases:
        fn[c["kind"]](ctx, c)
    check_ffd_refine(ctx)
    ctx.traces = len(cases)
    ctx.notes["sizes_exhaustive"] = [1, maxsize]
    ctx.notes["cases_by_kind"] = {k: sum(1 for c in cases if c["kind"] == k) for k in fn}
    ctx.sample(next(c for c in cases if c["kind"] == "eval" and c["s"] > 1))
    ctx.sample(next({k: c[k] for k in ("kind", "s", "d", "W")} for c in cases if c["kind"] == "weights" and c["s"] == 2))
    probe = Ctx(ctx.prop, ctx.tier, ctx.seed)
    probe.findings = []
    c = json.loads(json.dumps(next(x for x in cases if x["kind"] == "weights" and x["s"] == 3 and x["d"] == 1)))
    c["W"][1][3] = [c["W"][1][3][0] * 2, c["W"][1][3][1]]
    check_weights(probe, c)
    if not probe.violations:
        raise MachineryError("binding self-test failed")
    ctx.notes["binding_selftest"] = "doubled expected derivative weight rejected"
    ctx.assumptions += ["integer coefficient tensors incl. unit impulses (expose every kernel entry) and linear functions; D = 1, 2 (3-D through the FFD refinement test)"]


def replay(ctx: Ctx, data: Dict[str, Any]) -> None:
    c = data["case"]
    if "kind" in c:
        {"weights": check_weights, "sizes": check_sizes, "eval": check_eval, "eval2": check_eval2, "subdiv": check_subdiv}[c["kind"]](ctx, c)
    else:
        check_ffd_refine(ctx)
