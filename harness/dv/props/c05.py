"""C05 - resampling onto any oriented grid matches an independent reference resampler (spec: Resample)."""
from __future__ import annotations

import json
from typing import Any, Dict, List

import torch

from ..core import Ctx
from ..gridlib import grid_sig, mk_grid
from ..rat import F, fl
from ..tol import max_err
from ..tlc import MachineryError, json_lines

TOL = 3e-4  # values up to ~30; interpolation weights from float32 grid coordinates


def cfg(tier: str, emit: bool) -> str:
    s = (f"SPECIFICATION Spec\nCONSTANTS\n  Sources <- {'QSources' if tier == 'quick' else 'TSources2'}\n  TargetsOf <- {'QTargets' if tier == 'quick' else 'TTargets'}\n"
         f"  Pads <- AllPads\n  EmitCases = {'TRUE' if emit else 'FALSE'}\n")
    if not emit:
        s += "INVARIANT Laws\n"
    s += "CONSTRAINT Emit\n"
    return s


def src_tensor(src: Dict[str, Any]) -> torch.Tensor:
    n = src["g"]["n"]
    return torch.tensor(src["v"], dtype=torch.float32).reshape(tuple(reversed(n)))  # x fastest -> (.., y, x)


def pad_arg(pad):
    return {"zeros": "zeros", "border": "border"}.get(pad[0], float(pad[1]))


def check_case(ctx: Ctx, c: Dict[str, Any], k: int = 0) -> None:
    import SimpleITK as sitk

    import deepali.core.functional as U
    from deepali.core.grid import Axes
    from deepali.data.image import Image, ImageBatch
    from deepali.modules.sample import SampleImage

    gs, gt = mk_grid(c["src"]["g"]), mk_grid(c["gt"])
    if k % 2:  # construct the same grids through the origin= route (as file headers / SimpleITK images do)
        from deepali.core.grid import Grid

        gs = Grid(size=gs.size(), origin=fl(F(c["src_origin"])), spacing=gs.spacing(), direction=gs.direction(), align_corners=gs.align_corners())
        gt = Grid(size=gt.size(), origin=fl(F(c["gt_origin"])), spacing=gt.spacing(), direction=gt.direction(), align_corners=gt.align_corners())
    D = gs.ndim
    data = src_tensor(c["src"])
    pad = pad_arg(c["pad"])
    tshape = tuple(reversed(c["gt"]["n"]))
    lin = torch.tensor(fl(F(c["linear"])), dtype=torch.float64).reshape(tshape)
    near_sets = [set(fl(F(s))) for s in c["nearest"]]
    inhull = torch.tensor(c["inhull"]).reshape(tshape)
    tie = torch.tensor(c["tie"]).reshape(tshape)
    sig0 = dict(pad=c["pad"][0], D=D, src_ac=bool(c["src"]["g"]["ac"]), tgt_ac=bool(c["gt"]["ac"]), rotated=grid_sig(c["gt"])["rotated"])

    def bad(op, msg, **kw):
        ctx.violation(dict(op=op, **sig0, **kw), f"{op} [pad={c['pad']}, src ac={sig0['src_ac']}, target ac={sig0['tgt_ac']}]: {msg}", c)

    def guarded(op, fn, **kw):
        try:
            return fn()
        except Exception as ex:
            bad(op, f"raised {type(ex).__name__}: {str(ex)[:150]}", exc=type(ex).__name__, **kw)
            return None

    def cmp_lin(op, out, **kw):
        if out is None:
            return
        out = out.detach().to(torch.float64).reshape(-1, *tshape)
        for o in out:
            err = max_err(o, lin)
            if err > TOL * 30:
                where = "inside" if float((o - lin).abs()[inhull].max() if inhull.any() else 0) > TOL * 30 else "padding region"
                bad(op, f"linear resampling differs from the reference semantics by {err:.3g} ({where})", mode="linear", where=where, **kw)
                return

    def cmp_near(op, out, **kw):
        if out is None:
            return
        o = out.detach().to(torch.float64).reshape(-1)[: len(near_sets)]
        for j, (v, S) in enumerate(zip(o.tolist(), near_sets)):
            if not any(abs(v - s) <= 1e-4 for s in S):
                bad(op, f"nearest-neighbour value {v} at target sample {j} not among the admissible {sorted(S)}", mode="nearest", **kw)
                return

    # (c) independent reference: SimpleITK with the identity transform must agree with the SPEC inside the hull
    simg = sitk.GetImageFromArray(data.numpy())
    # the reference image headers come from the SPECIFICATION, not from deepali objects
    simg.SetOrigin(fl(F(c["src_origin"]))); simg.SetSpacing(fl(F(c["src"]["g"]["h"]))); simg.SetDirection([v for r in fl(F(c["src"]["g"]["R"])) for v in r])
    ref = sitk.Image([int(v) for v in c["gt"]["n"]], sitk.sitkFloat32)
    ref.SetOrigin(fl(F(c["gt_origin"]))); ref.SetSpacing(fl(F(c["gt"]["h"]))); ref.SetDirection([v for r in fl(F(c["gt"]["R"])) for v in r])
    r_lin = torch.from_numpy(sitk.GetArrayFromImage(sitk.Resample(simg, ref, sitk.Transform(), sitk.sitkLinear, 0.0))).to(torch.float64)
    margin = torch.tensor([[min(min(float(i[d][0]) / i[d][1], n - 1 - float(i[d][0]) / i[d][1]) for d, n in enumerate(c["src"]["g"]["n"])) > 1e-3]
                           for i in c["index"]]).reshape(tshape)  # strictly inside (ITK treats the boundary itself differently)
    m = inhull & margin
    if m.any() and float((r_lin - lin).abs()[m].max()) > TOL * 30:
        raise MachineryError(f"SimpleITK disagrees with Resample.tla inside the source hull by {float((r_lin - lin).abs()[m].max()):.3g}")
    r_nn = torch.from_numpy(sitk.GetArrayFromImage(sitk.Resample(simg, ref, sitk.Transform(), sitk.sitkNearestNeighbor, 0.0))).to(torch.float64).reshape(-1)
    for j, S in enumerate(near_sets):
        if m.reshape(-1)[j] and not tie.reshape(-1)[j] and not any(abs(float(r_nn[j]) - s) <= 1e-4 for s in S):
            raise MachineryError("SimpleITK nearest-neighbour disagrees with Resample.tla away from ties")

    img = Image(data.unsqueeze(0), gs)
    # (b) deepali: Image.sample on a grid
    o = guarded("Image.sample", lambda: img.sample(gt, mode="linear", padding=pad))
    if o is not None:
        if o.grid() != gt or tuple(o.shape[1:]) != tshape:
            bad("Image.sample", "result does not carry the target grid / shape")
        cmp_lin("Image.sample", o.tensor())
    o = guarded("Image.sample", lambda: img.sample(gt, mode="nearest", padding=pad), mode="nearest")
    if o is not None:
        cmp_near("Image.sample", o.tensor())
    # batches: N = 2 with a shared target grid, and with per-image target grids
    batch = ImageBatch(torch.stack([data.unsqueeze(0), data.unsqueeze(0) * 2]), [gs, gs])
    o = guarded("ImageBatch.sample[shared grid]", lambda: batch.sample(gt, mode="linear", padding=pad))
    if o is not None:
        ot = o.tensor().to(torch.float64)
        if ot.shape[0] != 2:
            bad("ImageBatch.sample[shared grid]", f"batch size {ot.shape[0]}")
        else:
            cmp_lin("ImageBatch.sample[shared grid]", ot[0])
            if c["pad"][0] != "constant":
                cmp_lin("ImageBatch.sample[shared grid]", ot[1] / 2, item=1)
            if len(o.grids()) != 2 or any(g != gt for g in o.grids()):
                bad("ImageBatch.sample[shared grid]", f"result carries {len(o.grids())} grid(s) for 2 images", what="grids")
    if tuple(gt.shape) == tuple(gs.shape):  # per-image target grids must have one shape
        o = guarded("ImageBatch.sample[per-image grids]", lambda: batch.sample([gt, gs], mode="linear", padding=pad))
        if o is not None:
            cmp_lin("ImageBatch.sample[per-image grids]", o.tensor()[0])
            if max_err(o.tensor()[1], data.unsqueeze(0) * 2) > TOL * 30:
                bad("ImageBatch.sample[per-image grids]", "image sampled on its own grid changed")
            if len(o.grids()) != 2 or o.grids()[0] != gt or o.grids()[1] != gs:
                bad("ImageBatch.sample[per-image grids]", "result grids are not the per-image target grids", what="grids")
    # batch whose images have DIFFERENT grids, sampled on one shared grid that equals the first image's grid
    gs_b = gs.center(gs.center() + 0.5 * gs.spacing())
    mixed = ImageBatch(torch.stack([data.unsqueeze(0), data.unsqueeze(0)]), [gs, gs_b])
    o = guarded("ImageBatch.sample[mixed grids]", lambda: mixed.sample(gs, mode="linear", padding=pad))
    single = guarded("Image.sample", lambda: Image(data.unsqueeze(0), gs_b).sample(gs, mode="linear", padding=pad))
    if o is not None and single is not None:
        if max_err(o.tensor()[0], data.unsqueeze(0)) > 1e-5:
            bad("ImageBatch.sample[mixed grids]", "image already on the target grid changed")
        if max_err(o.tensor()[1], single.tensor()) > 1e-4:
            bad("ImageBatch.sample[mixed grids]", "second image (on another grid) was not resampled onto the shared target grid", item=1)
    # explicit normalised coordinates obtained from the target grid agree with the grid route
    ac = gs.align_corners()
    coords = gt.coords(align_corners=gt.align_corners())
    coords = gt.transform_points(coords, axes=Axes.from_grid(gt), to_grid=gs, to_axes=Axes.from_align_corners(ac), decimals=None)
    o = guarded("ImageBatch.sample[coords]", lambda: img.batch().sample(coords.unsqueeze(0), mode="linear", padding=pad))
    cmp_lin("ImageBatch.sample[coords]", o)
    o = guarded("sample_image", lambda: U.sample_image(data.unsqueeze(0).unsqueeze(0), coords.reshape(1, -1, D), mode="linear", padding=pad, align_corners=ac))
    cmp_lin("sample_image", o)
    o = guarded("sample_image", lambda: U.sample_image(data.unsqueeze(0).unsqueeze(0), coords.reshape(1, -1, D), mode="nearest", padding=pad, align_corners=ac), mode="nearest")
    cmp_near("sample_image", o)
    o = guarded("grid_sample", lambda: U.grid_sample(data.unsqueeze(0).unsqueeze(0), coords.unsqueeze(0), mode="linear", padding=pad, align_corners=ac))
    cmp_lin("grid_sample", o)
    # the same for image data of other types (integer images are interpolated in float; float64 stays float64)
    for dt in (torch.int16, torch.uint8, torch.float64):
        o = guarded("grid_sample", lambda: U.grid_sample(data.to(dt).unsqueeze(0).unsqueeze(0), coords.unsqueeze(0).to(torch.float64 if dt == torch.float64 else torch.float32),
                                                         mode="linear", padding=pad, align_corners=ac), dtype=str(dt))
        cmp_lin("grid_sample", o, dtype=str(dt))
        o = guarded("Image.sample", lambda: Image(data.to(dt).unsqueeze(0), gs).sample(gt, mode="linear", padding=pad), dtype=str(dt))
        if o is not None:
            cmp_lin("Image.sample", o.tensor(), dtype=str(dt))
    # SampleImage module: target cube coordinates -> source
    sm = guarded("SampleImage", lambda: SampleImage(target=gt, source=gs, sampling="linear", padding=pad))
    if sm is not None:
        tc = gt.coords(align_corners=gt.align_corners()).unsqueeze(0)
        o = guarded("SampleImage", lambda: sm(tc, data.unsqueeze(0).unsqueeze(0)))
        cmp_lin("SampleImage", o)
    # ... and with target points given w.r.t. every axes of the target grid (explicit 'axes')
    for ax in (Axes.WORLD, Axes.GRID, Axes.CUBE, Axes.CUBE_CORNERS):
        if ax is Axes.CUBE_CORNERS and min(c["gt"]["n"]) == 1:
            continue  # the corner-aligned cube of an axis with one sample has zero extent: its coordinates are undefined
        sm = guarded("SampleImage", lambda: SampleImage(target=gt, source=gs, axes=ax, sampling="linear", padding=pad), axes=ax.value)
        if sm is not None:
            pts = gt.points(ax).reshape(1, *tshape, D)
            o = guarded("SampleImage", lambda: sm(pts, data.unsqueeze(0).unsqueeze(0)), axes=ax.value)
            cmp_lin("SampleImage", o, axes=ax.value)
    # the module's other input forms return the same samples: dict of named images, data=/mask= keywords
    sm = guarded("SampleImage", lambda: SampleImage(target=gt, source=gs, sampling="linear", padding=pad), form="inputs")
    if sm is not None:
        tc = gt.coords(align_corners=gt.align_corners()).unsqueeze(0)
        d4 = data.unsqueeze(0).unsqueeze(0)
        o = guarded("SampleImage", lambda: sm(tc, {"a": d4, "b": d4.clone()}), form="dict")
        if o is not None:
            if not isinstance(o, dict) or set(o) != {"a", "b"}:
                bad("SampleImage", f"dict input returns {type(o).__name__} with keys {sorted(o) if isinstance(o, dict) else None}", form="dict")
            else:
                cmp_lin("SampleImage[dict]", o["a"], form="dict")
                cmp_lin("SampleImage[dict]", o["b"], form="dict", key="b")
        mk = torch.ones_like(d4)
        o = guarded("SampleImage", lambda: sm(tc, data=d4, mask=mk), form="data+mask")
        if o is not None:
            if not (isinstance(o, tuple) and len(o) == 2):
                bad("SampleImage", f"data=/mask= returns {type(o).__name__}", form="data+mask")
            else:
                cmp_lin("SampleImage[data+mask]", o[0], form="data+mask")
                mo = o[1].reshape(tshape)
                if bool((mo[inhull & margin] == 0).any()):
                    bad("SampleImage[data+mask]", "the sampled all-ones mask is zero at target samples strictly inside the source field of view", form="data+mask", what="mask")
        o = guarded("SampleImage", lambda: sm(tc, data=d4), form="data")
        cmp_lin("SampleImage[data=]", o, form="data")
        # unbatched points (..., X, D) and an unbatched image (C, ..., X)
        o = guarded("SampleImage", lambda: sm(tc[0], d4), form="unbatched points")
        cmp_lin("SampleImage[unbatched points]", o, form="unbatched points")
        o = guarded("SampleImage", lambda: sm(tc, d4[0]), form="unbatched image")
        if o is not None and o.ndim != d4.ndim - 1:
            bad("SampleImage", f"an unbatched image (C, ..., X) comes back with shape {tuple(o.shape)}", form="unbatched image", what="shape")
        cmp_lin("SampleImage[unbatched image]", o, form="unbatched image")
        mo_only = guarded("SampleImage", lambda: sm(tc, mask=mk), form="mask only")
        if mo_only is not None and (mo_only.dtype != torch.bool or bool((mo_only.reshape(tshape)[inhull & margin] == 0).any())):
            bad("SampleImage", "mask= alone does not return the boolean sampled mask (true strictly inside the source field of view)", form="mask only")
    # (a corner-aligned target with ONE sample along an axis has a cube of zero extent along it: target points cannot be expressed in its cube
    #  coordinates, which is what align_centers and AlignImage work in - those forms are not judged on such targets, as for explicit CUBE_CORNERS axes)
    degenerate_t = gt.align_corners() and min(c["gt"]["n"]) == 1
    # align_centers=True: the target grid is moved so that its center coincides with the source's; same as sampling on that moved grid
    gt_c = gt.center(gs.center())
    ref_c = guarded("Image.sample", lambda: img.sample(gt_c, mode="linear", padding=pad).tensor(), role="align_centers reference")
    for cls_name in ("SampleImage", "TransformImage", "AlignImage") if not degenerate_t else ():
        import deepali.modules.sample as MS

        cls_c = getattr(MS, cls_name)
        smc = guarded(cls_name, lambda: cls_c(target=gt, source=gs, sampling="linear", padding=pad, align_centers=True), align_centers=True)
        if smc is None or ref_c is None:
            continue
        tc = gt.coords(align_corners=gt.align_corners()).unsqueeze(0)
        o = guarded(cls_name, (lambda: smc(tc, data.unsqueeze(0).unsqueeze(0))) if cls_name == "SampleImage" else (lambda: smc(None, data.unsqueeze(0).unsqueeze(0))), align_centers=True)
        if o is not None and (o.numel() != ref_c.numel() or max_err(o.reshape(ref_c.shape), ref_c) > 1e-4 * max(1.0, float(ref_c.abs().max()))):
            bad(cls_name, f"align_centers=True differs from sampling on the target grid moved onto the source's center by {max_err(o.reshape(ref_c.shape), ref_c) if o.numel() == ref_c.numel() else 'shape'}", align_centers=True)
    # TransformImage / AlignImage without a transform are plain resamplers from the source to the target grid
    from deepali.core.enum import Sampling
    from deepali.modules.sample import AlignImage, TransformImage

    for cls_ in (TransformImage, AlignImage) if not degenerate_t else ():
        for ax in (None, Axes.WORLD, Axes.CUBE):
            tm = guarded(cls_.__name__, lambda: cls_(target=gt, source=gs, axes=ax, sampling="linear", padding=pad), axes=str(ax and ax.value), transform=None)
            if tm is not None:
                o = guarded(cls_.__name__, lambda: tm(None, data.unsqueeze(0).unsqueeze(0)), axes=str(ax and ax.value), transform=None)
                cmp_lin(cls_.__name__ + "(None)", o, axes=str(ax and ax.value))
        # nearest-neighbour mode named in every accepted way (keyword / positional, str / enum)
        for how, mk in (("sampling='nearest'", lambda: cls_(target=gt, source=gs, sampling="nearest", padding=pad)), ("Sampling.NEAREST", lambda: cls_(gt, gs, None, Sampling.NEAREST, pad)),
                        ("sampling='nn'", lambda: cls_(target=gt, source=gs, sampling="nn", padding=pad))):
            tm = guarded(cls_.__name__, mk, mode="nearest", how=how)
            if tm is not None:
                o = guarded(cls_.__name__, lambda: tm(None, data.unsqueeze(0).unsqueeze(0)), mode="nearest", how=how)
                cmp_near(cls_.__name__ + "(None)", o, how=how)
    for how, mk in (("sampling='nearest'", lambda: SampleImage(target=gt, source=gs, sampling="nearest", padding=pad)), ("Sampling.NEAREST", lambda: SampleImage(gt, gs, None, Sampling.NEAREST, pad))):
        sm_n = guarded("SampleImage", mk, mode="nearest", how=how)
        if sm_n is not None:
            o = guarded("SampleImage", lambda: sm_n(gt.coords(align_corners=gt.align_corners()).unsqueeze(0), data.unsqueeze(0).unsqueeze(0)), mode="nearest", how=how)
            cmp_near("SampleImage", o, how=how)
    # sampling on its own grid returns the image unchanged: through the modules, with points given w.r.t. every axes
    for ax in (None, Axes.WORLD, Axes.GRID, Axes.CUBE, Axes.CUBE_CORNERS):
        if ax is Axes.CUBE_CORNERS and min(c["src"]["g"]["n"]) == 1:
            continue
        for src_arg in (None, gs):
            sm = guarded("SampleImage[own grid]", lambda: SampleImage(target=gs, source=src_arg, axes=ax, sampling="linear", padding=pad), axes=str(ax and ax.value))
            if sm is None:
                continue
            pts = gs.points(ax if ax is not None else Axes.from_grid(gs)).reshape(1, *data.shape, D)
            o = guarded("SampleImage[own grid]", lambda: sm(pts, data.unsqueeze(0).unsqueeze(0)), axes=str(ax and ax.value))
            if o is not None and (tuple(o.shape[2:]) != tuple(data.shape) or max_err(o.reshape(data.shape), data) > 1e-4 * max(1.0, float(data.abs().max()))):
                bad("SampleImage[own grid]", f"sampling an image on its own grid (points w.r.t. {ax and ax.value} axes, source={'None' if src_arg is None else 'same grid'}) changes it", axes=str(ax and ax.value), own=True)
    # sampling on its own grid returns the image unchanged
    o = guarded("Image.sample[own grid]", lambda: img.sample(gs, padding=pad))
    if o is not None and max_err(o.tensor(), data.unsqueeze(0)) > 1e-5:
        bad("Image.sample[own grid]", "sampling an image on its own grid changes it")
    ctx.count(key=json.dumps([c["src"], c["gt"], c["pad"]]), nontrivial=bool(inhull.any()))


def run(ctx: Ctx) -> None:
    tier = ctx.tier
    ctx.rule = ("one case per (source image on an oriented grid, target grid, padding rule); every target sample's expected value "
                "(linear: exact rational, nearest: admissible set) comes from Resample.tla; three-way with SimpleITK inside the source hull; "
                "non-trivial = at least one target sample inside the source hull")
    ctx.tlc("MC_Resample", cfg(tier, False), label="laws", timeout=3000)
    res = ctx.tlc("MC_Resample", cfg(tier, True), label="emit", timeout=3000)
    cases = json_lines(res, key=None)
    if not cases:
        raise MachineryError("no cases")
    for k, c in enumerate(cases):
        check_case(ctx, c, k)
    ctx.traces = len(cases)
    c0 = cases[len(cases) // 2]
    ctx.sample(dict(src=c0["src"], gt=c0["gt"], pad=c0["pad"], linear=c0["linear"][:6], nearest=c0["nearest"][:6]))
    ctx.notes["target_samples"] = sum(len(c["linear"]) for c in cases)
    ctx.notes["target_samples_in_hull"] = sum(sum(c["inhull"]) for c in cases)
    probe = Ctx(ctx.prop, ctx.tier, ctx.seed)
    probe.findings = []
    c = json.loads(json.dumps(next(x for x in cases if sum(x["inhull"]) > 2)))
    j = c["inhull"].index(True)
    c["linear"][j] = [c["linear"][j][0] + 3 * c["linear"][j][1], c["linear"][j][1]]
    try:
        check_case(probe, c)
    except MachineryError:
        probe.violations.append({})
    if not probe.violations:
        raise MachineryError("binding self-test failed")
    ctx.notes["binding_selftest"] = "perturbed expected sample value rejected"
    ctx.assumptions += ["small integer images (3x4, 4x4, 2x3x2) on rationally rotated anisotropic grids; every sample compared",
                        "SimpleITK (identity transform) is the independent reference for the spec inside the source hull; ties of nearest-neighbour are left open"]


def replay(ctx: Ctx, data: Dict[str, Any]) -> None:
    check_case(ctx, data["case"])
