"""C13 - composition of flows and velocity fields obeys its algebra (spec: Flow, section C13)."""
from __future__ import annotations

import json
from typing import Any, Dict

import torch

from ..core import Ctx
from ..flowlib import FLOW_CFG, affine_field, interior
from ..rat import F, fl
from ..tol import max_err
from ..tlc import MachineryError, json_lines


def hom_field(n, ac, H, dtype=torch.float64):
    H = torch.tensor(fl(F(H)), dtype=dtype)
    D = H.shape[0]
    return affine_field(n, ac, H[:, :D], H[:, D], dtype)


def check_compose(ctx: Ctx, c: Dict[str, Any]) -> None:
    import deepali.core.functional as U

    n, ac = c["n"], bool(c["ac"])
    sig0 = dict(op="compose_flows", ac=ac, D=len(n))
    for dtype, tol in ((torch.float64, 1e-10), (torch.float32, 2e-5)):
        u = affine_field(n, ac, c["uA"], c["ut"], dtype)
        v = affine_field(n, ac, c["vA"], c["vt"], dtype)
        exp = affine_field(n, ac, c["CA"], c["Ct"], torch.float64)
        try:
            w = U.compose_flows(u, v, align_corners=ac)
            err = max_err(w, exp)
            if err > tol:
                ctx.violation(dict(**sig0, what="value"), f"compose_flows(align_corners={ac}) of affine fields differs from (A+B+BA, a+b+Ba) by {err:.3g}", c)
            z = torch.zeros_like(u)
            if max_err(U.compose_flows(z, v, align_corners=ac), v) > tol or max_err(U.compose_flows(u, z, align_corners=ac), u) > tol:
                ctx.violation(dict(**sig0, what="identity"), f"the zero field is not a two-sided identity of compose_flows(align_corners={ac})", c)
            if ac:  # default convention
                wd = U.compose_flows(u, v)
                if max_err(wd, exp) > tol:
                    ctx.violation(dict(**sig0, what="default"), "compose_flows default align_corners differs", c)
        except Exception as ex:
            ctx.violation(dict(**sig0, exc=type(ex).__name__), f"compose_flows raised {ex}", c)
    ctx.count(key=json.dumps(["compose", c]), nontrivial=True)


def check_bch(ctx: Ctx, c: Dict[str, Any]) -> None:
    import deepali.core.functional as U

    n = c["n"]
    D = len(n)
    sp = fl(F(c["sp"]))
    ac = True
    u = affine_field(n, ac, c["uA"], c["ut"])
    v = affine_field(n, ac, c["vA"], c["vt"])
    exp_b = affine_field(n, ac, c["BA"], c["Bt"])
    sig0 = dict(D=D)
    for mode, margin in (("forward_central_backward", 0), (None, 1)):
        sel = (slice(None), slice(None)) + interior(n, margin)
        try:
            b = U.lie_bracket(v, u, mode=mode, spacing=sp)
            err = max_err(b[sel], exp_b[sel])
            if err > 1e-7:
                ctx.violation(dict(op="lie_bracket", mode=str(mode), **sig0), f"lie_bracket(mode={mode}) of affine fields differs from Jv.u - Ju.v by {err:.3g}", c)
            b2 = U.lie_bracket(u, v, mode=mode, spacing=sp)
            if max_err(b2[sel], -b[sel]) > 1e-7:
                ctx.violation(dict(op="lie_bracket", what="antisymmetry", mode=str(mode), **sig0), "lie_bracket is not antisymmetric", c)
        except Exception as ex:
            ctx.violation(dict(op="lie_bracket", exc=type(ex).__name__, mode=str(mode), **sig0), f"lie_bracket raised {ex}", c)
    # spacing argument omitted: documented default = derivatives w.r.t. the normalized (align_corners) cube coordinates;
    # spacing 1 = derivatives per sample
    try:
        b0 = U.lie_bracket(v, u, mode="forward_central_backward")
        if max_err(b0, exp_b) > 1e-7:
            ctx.violation(dict(op="lie_bracket", what="default_spacing", **sig0), "lie_bracket without spacing differs from the bracket w.r.t. cube coordinates", c)
        b1 = U.lie_bracket(v, u, mode="forward_central_backward", spacing=1)
        e1 = affine_field(n, ac, c["BA1"], c["Bt1"])
        if max_err(b1, e1) > 1e-7:
            ctx.violation(dict(op="lie_bracket", what="unit_spacing", **sig0), "lie_bracket with spacing=1 is not the per-sample derivative bracket", c)
    except Exception as ex:
        ctx.violation(dict(op="lie_bracket", exc=type(ex).__name__, what="default_spacing", **sig0), f"lie_bracket raised {ex}", c)
    # Gaussian pre-smoothing: both Jacobians are taken from smoothed fields - the bracket stays antisymmetric and [u, u] = 0
    try:
        bs = U.lie_bracket(v, u, mode="forward_central_backward", spacing=sp, sigma=1.0)
        bt = U.lie_bracket(u, v, mode="forward_central_backward", spacing=sp, sigma=1.0)
        if max_err(bs, -bt) > 1e-7 * max(1.0, float(bs.abs().max())):
            ctx.violation(dict(op="lie_bracket", what="antisymmetry_sigma", **sig0), f"lie_bracket(sigma=1) is not antisymmetric (off by {max_err(bs, -bt):.3g})", c)
        bu = U.lie_bracket(u, u, mode="forward_central_backward", spacing=sp, sigma=1.0)
        if float(bu.abs().max()) > 1e-7:
            ctx.violation(dict(op="lie_bracket", what="self_bracket_sigma", **sig0), f"lie_bracket(u, u, sigma=1) = {float(bu.abs().max()):.3g}, not zero", c)
    except Exception as ex:
        ctx.violation(dict(op="lie_bracket", exc=type(ex).__name__, what="sigma", **sig0), f"lie_bracket(sigma=1) raised {ex}", c)
    # change of units: with x' = C x (C diagonal), u' = C u and spacing' = C spacing every bracket - hence the whole BCH series - transforms like a vector
    try:
        cf = torch.tensor([2.0, 0.5, 3.0][:D], dtype=u.dtype).reshape(1, D, *([1] * D))
        sp2 = [a * b for a, b in zip(sp if isinstance(sp, (list, tuple)) else [sp] * D, [2.0, 0.5, 3.0][:D])]
        w1 = U.compose_svfs(u, v, mode="forward_central_backward", spacing=sp, bch_terms=3)
        w2 = U.compose_svfs(u * cf, v * cf, mode="forward_central_backward", spacing=sp2, bch_terms=3)
        if max_err(w2, w1 * cf) > 1e-7 * max(1.0, float(w1.abs().max())):
            ctx.violation(dict(op="compose_svfs", what="unit_covariance", **sig0),
                          f"compose_svfs is not covariant under a change of units (fields and spacing scaled by {[2.0, 0.5, 3.0][:D]}): off by {max_err(w2, w1 * cf):.3g}", c)
        b1 = U.lie_bracket(v, u, mode="forward_central_backward", spacing=sp)
        b2 = U.lie_bracket(v * cf, u * cf, mode="forward_central_backward", spacing=sp2)
        if max_err(b2, b1 * cf) > 1e-7 * max(1.0, float(b1.abs().max())):
            ctx.violation(dict(op="lie_bracket", what="unit_covariance", **sig0), f"lie_bracket is not covariant under a change of units: off by {max_err(b2, b1 * cf):.3g}", c)
    except Exception as ex:
        ctx.violation(dict(op="compose_svfs", exc=type(ex).__name__, what="unit_covariance", **sig0), f"compose_svfs with scaled units raised {ex}", c)
    # every derivative scheme: the bracket transforms like a vector under a change of units, and on affine fields every scheme agrees with the
    # exact bracket away from the border (all schemes differentiate affine functions exactly there; the Gaussian one up to its truncation)
    cf = torch.tensor([2.0, 0.5, 3.0][:D], dtype=u.dtype).reshape(1, D, *([1] * D))
    sp2 = [a * b for a, b in zip(sp if isinstance(sp, (list, tuple)) else [sp] * D, [2.0, 0.5, 3.0][:D])]
    for mode in ("central", "forward", "backward", "prewitt", "sobel", "gaussian"):  # (bspline mode changes the lattice: not a bracket of sampled fields)
        try:
            b1 = U.lie_bracket(v, u, mode=mode, spacing=sp)
            b2 = U.lie_bracket(v * cf, u * cf, mode=mode, spacing=sp2)
            if max_err(b2, b1 * cf) > 1e-7 * max(1.0, float(b1.abs().max())):
                ctx.violation(dict(op="lie_bracket", what="unit_covariance", mode=mode, **sig0),
                              f"lie_bracket(mode={mode}) is not covariant under a change of units: off by {max_err(b2, b1 * cf):.3g}", c)
            if tuple(b1.shape) == tuple(exp_b.shape):
                m_ = 3 if mode == "gaussian" else 1
                if min(n) > 2 * m_ + 1:
                    sel = (slice(None), slice(None)) + interior(n, m_)
                    tol_ = 2e-3 * max(1.0, float(exp_b.abs().max())) if mode == "gaussian" else 1e-7
                    if max_err(b1[sel], exp_b[sel]) > tol_:
                        ctx.violation(dict(op="lie_bracket", mode=mode, what="interior", **sig0),
                                      f"lie_bracket(mode={mode}) of affine fields differs from Jv.u - Ju.v by {max_err(b1[sel], exp_b[sel]):.3g} in the interior", c)
            w1 = U.compose_svfs(u, v, mode=mode, spacing=sp, bch_terms=2)
            w2 = U.compose_svfs(u * cf, v * cf, mode=mode, spacing=sp2, bch_terms=2)
            if max_err(w2, w1 * cf) > 1e-7 * max(1.0, float(w1.abs().max())):
                ctx.violation(dict(op="compose_svfs", what="unit_covariance", mode=mode, **sig0),
                              f"compose_svfs(mode={mode}) is not covariant under a change of units: off by {max_err(w2, w1 * cf):.3g}", c)
        except Exception as ex:
            ctx.violation(dict(op="lie_bracket", exc=type(ex).__name__, mode=mode, **sig0), f"lie_bracket(mode={mode}) raised {type(ex).__name__}: {str(ex)[:100]}", c)
    # a batch with one spacing row PER FIELD: every field is differentiated with its own row
    try:
        sp_a = [float(x_) for x_ in (sp if isinstance(sp, (list, tuple)) else [sp] * D)]
        sp_b = [a_ * b_ for a_, b_ in zip(sp_a, [2.0, 0.5, 3.0][:D])]
        S = torch.tensor([sp_a, sp_b], dtype=u.dtype)
        ub, vb = torch.cat([u, 0.5 * u]), torch.cat([v, v])
        for mode in ("forward_central_backward", "central", None):
            bb = U.lie_bracket(vb, ub, mode=mode, spacing=S)
            b0 = U.lie_bracket(v, u, mode=mode, spacing=sp_a)
            b1 = U.lie_bracket(v, 0.5 * u, mode=mode, spacing=sp_b)
            if max_err(bb[0:1], b0) > 1e-9 * max(1.0, float(b0.abs().max())) or max_err(bb[1:2], b1) > 1e-9 * max(1.0, float(b1.abs().max())):
                ctx.violation(dict(op="lie_bracket", what="per_field_spacing", mode=str(mode), **sig0),
                              f"lie_bracket(mode={mode}) of a batch with one spacing row per field differs from the brackets of the single fields (field 0: {max_err(bb[0:1], b0):.3g}, field 1: {max_err(bb[1:2], b1):.3g})", c)
            wb = U.compose_svfs(ub, vb, mode=mode, spacing=S, bch_terms=2)
            w1 = U.compose_svfs(0.5 * u, v, mode=mode, spacing=sp_b, bch_terms=2)
            if max_err(wb[1:2], w1) > 1e-9 * max(1.0, float(w1.abs().max())):
                ctx.violation(dict(op="compose_svfs", what="per_field_spacing", mode=str(mode), **sig0), f"compose_svfs(mode={mode}) of a batch with one spacing row per field: field 1 differs from the single-field result by {max_err(wb[1:2], w1):.3g}", c)
    except Exception as ex:
        ctx.violation(dict(op="lie_bracket", exc=type(ex).__name__, what="per_field_spacing", **sig0), f"per-field spacing raised {type(ex).__name__}: {str(ex)[:100]}", c)
    # none of these functions may change the fields handed to it
    u0, v0 = u.clone(), v.clone()
    try:
        U.compose_svfs(u, v, mode="forward_central_backward", spacing=sp, bch_terms=3)
        U.lie_bracket(v, u, spacing=sp)
        U.compose_flows(u, v)
        for k_ in (0, 1):
            U.logv(u, num_iters=2, bch_terms=1, sigma=None, exp_steps=k_)
            U.expv(v, steps=k_, inverse=True)
            U.expv(v, steps=k_, scale=0.5)
    except Exception as ex:
        ctx.violation(dict(op="inputs", exc=type(ex).__name__, **sig0), f"raised {type(ex).__name__}: {str(ex)[:100]}", c)
    if max_err(u, u0) > 0 or max_err(v, v0) > 0:
        ctx.violation(dict(op="inputs", what="mutated", **sig0), "compose_svfs / lie_bracket / compose_flows / logv / expv changed a field it was given", c)
        u.copy_(u0); v.copy_(v0)
    for terms in range(6):
        exp = hom_field(n, ac, c["bch"][terms])
        margin = 0
        try:
            w = U.compose_svfs(u, v, mode="forward_central_backward", spacing=sp, bch_terms=terms)
            err = max_err(w, exp)
            if err > 1e-7:
                ctx.violation(dict(op="compose_svfs", bch_terms=terms, **sig0),
                              f"compose_svfs(bch_terms={terms}) of affine fields differs from the BCH series by {err:.3g}", c)
            if terms == 3:
                wd = U.compose_svfs(u, v, mode="forward_central_backward", spacing=sp)
                if max_err(wd, exp) > 1e-7:
                    ctx.violation(dict(op="compose_svfs", what="default_terms", **sig0), "default bch_terms is not 3", c)
        except Exception as ex:
            ctx.violation(dict(op="compose_svfs", bch_terms=terms, exc=type(ex).__name__, **sig0), f"compose_svfs raised {ex}", c)
    ctx.count(key=json.dumps(["bch", c["n"], c["uA"], c["ut"], c["vA"], c["vt"]]), nontrivial=True)


def check_logv(ctx: Ctx, c: Dict[str, Any]) -> None:
    """The first logv iterates of an affine flow are exact affine expressions - for EITHER align_corners convention."""
    import deepali.core.functional as U

    if not c.get("logv") or bool(c["ac"]):
        return  # cases of the (smaller) cube-convention hull: invariance carries over to every larger hull
    k = int(c["k"])
    D = len(c["n"])
    n = [15, 15] if D == 2 else [11, 11, 11]
    for ac in (True, False):
        flow = affine_field(n, ac, c["A"], c["t"])
        for it in range(1, len(c["logv"]) + 1):
            exp = hom_field(n, ac, c["logv"][it - 1])
            try:
                w = U.logv(flow, num_iters=it, bch_terms=0, sigma=None, exp_steps=k, align_corners=ac)
            except Exception as ex:
                ctx.violation(dict(op="logv", ac=ac, exc=type(ex).__name__), f"logv raised {ex}", c)
                continue
            m = n[0] // 2
            centre = (0, slice(None)) + (slice(m - 1, m + 2),) * D
            err = float((w[centre] - exp[centre]).abs().max())
            if err > 1e-9:
                ctx.violation(dict(op="logv", ac=ac, D=D), f"logv(num_iters={it}, exp_steps={k}, align_corners={ac}) of an affine flow differs from the exact iterate by {err:.3g} at the grid centre", c)
        ctx.count(key=json.dumps(["logv", ac, c["A"], c["t"], k]))


def run(ctx: Ctx) -> None:
    ctx.rule = ("compose: one case per (shape, align_corners, pair of affine fields with id+u keeping the hull); bch: one case per (shape, ordered pair "
                "of distinct affine fields) x 6 truncation orders; logv: round trip on the hull-invariant generators; all values at every grid point")
    ctx.tlc("MC_Flow", FLOW_CFG.format(T="Q" if ctx.tier == "quick" else "T", emit="FALSE", inv="INVARIANT Laws\n"), label="laws", timeout=3000)
    res = ctx.tlc("MC_Flow", FLOW_CFG.format(T="Q" if ctx.tier == "quick" else "T", emit="TRUE", inv=""), label="emit", timeout=3000)
    cases = json_lines(res, key=None)
    comp = [c for c in cases if c["kind"] == "compose"]
    bch = [c for c in cases if c["kind"] == "bch"]
    exps = [c for c in cases if c["kind"] == "exp"]
    if not comp or not bch:
        raise MachineryError("no cases")
    for c in comp:
        check_compose(ctx, c)
    for c in bch:
        check_bch(ctx, c)
    for c in exps:
        check_logv(ctx, c)
    ctx.traces = len(comp) + len(bch)
    ctx.sample(comp[0])
    ctx.sample({k: bch[0][k] for k in ("n", "uA", "ut", "vA", "vt", "BA", "Bt")})
    probe = Ctx(ctx.prop, ctx.tier, ctx.seed)
    probe.findings = []
    c = json.loads(json.dumps(next(x for x in bch if x["BA"] != [[[0, 1]] * len(x["n"])] * len(x["n"]))))
    c["bch"][4] = c["bch"][3]
    check_bch(probe, c)
    ctx.notes["binding_selftest"] = "BCH order 4 replaced by order 3: " + ("rejected" if probe.violations else "identical for this pair")
    ctx.notes["noncommuting_pairs"] = sum(1 for x in bch if any(v != [0, 1] for row in x["BA"] for v in row) or any(v != [0, 1] for v in x["Bt"]))
    if ctx.notes["noncommuting_pairs"] == 0:
        raise MachineryError("vacuous: all pairs commute")
    ctx.assumptions += ["affine fields only (closed under the bracket, so every BCH truncation is exact); the approximation-error clauses for smooth non-affine fields are not decided (DESIGN section 4)"]


def replay(ctx: Ctx, data: Dict[str, Any]) -> None:
    c = data["case"]
    {"compose": check_compose, "bch": check_bch, "exp": check_logv}[c["kind"]](ctx, c)
