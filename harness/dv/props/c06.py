"""C06 - a spatial transform means one world-space map, however it is evaluated (spec: Transform)."""
from __future__ import annotations

import json
from typing import Any, Dict, List

import torch

from ..core import Ctx
from ..gridlib import mk_grid
from ..rat import F, fl
from ..tform import apply_hom, build, hom
from ..tol import F32, bound, max_err
from ..tlc import MachineryError, json_lines

ATOL = 5e-5  # float32 transforms composed of several float32 parts; convention errors are >= 1e-2


def cfg(tier: str, emit: bool) -> str:
    t = "Q" if tier == "quick" else "T"
    s = (f"SPECIFICATION Spec\nCONSTANTS\n  Dims = {{2, 3}}\n  ModelsOf <- QModels\n  GridsOf <- {t}GridsOf\n  OthersOf <- {t}Others\n"
         f"  EmitCases = {'TRUE' if emit else 'FALSE'}\n")
    if not emit:
        s += "INVARIANT Laws\n"
    s += "CONSTRAINT Emit\n"
    return s


def probes(D: int) -> torch.Tensor:
    g = torch.Generator().manual_seed(7 + D)
    return torch.rand(6, D, generator=g, dtype=torch.float64) * 1.6 - 0.8


def check_case(ctx: Ctx, c: Dict[str, Any], k: int = 0) -> None:
    from deepali.core.grid import Axes
    from deepali.core.linalg import as_homogeneous_matrix
    from deepali.spatial import ImageTransformer, PointSetTransformer

    name, parts = c["name"], c["parts"]
    g, g2 = mk_grid(c["g"]), mk_grid(c["g2"])
    D = g.ndim
    M, W, M2, Mwg = hom(c["M"]), hom(c["W"]), hom(c["M2"]), hom(c["Mwg"])
    partial = [hom(m) for m in c["partial"]]
    nonrigid = any(p["k"] == "ddf" for p in parts)
    holder = ("tensor", "param")[k % 2]
    sig0 = dict(model=name, D=D, holder=holder, ac=bool(c["g"]["ac"]))
    scale = max(1.0, float(W.abs().max()), float(Mwg.abs().max()))
    cube = Axes.from_grid(g)

    def bad(view, msg, **kw):
        ctx.violation(dict(view=view, **sig0, **kw), f"{name}[{holder}] D={D}: {view}: {msg}", c)

    def guarded(view, fn, **kw):
        try:
            return fn()
        except Exception as ex:
            bad(view, f"raised {type(ex).__name__}: {str(ex)[:150]}", exc=type(ex).__name__, **kw)
            return None

    def cmp(view, got, exp, tol=None, mask=None, **kw):
        if got is None:
            return
        tol = tol or ATOL * scale
        got = got.detach().to(torch.float64)
        if got.numel() != exp.numel():
            bad(view, f"result has shape {tuple(got.shape)}, expected {tuple(exp.shape)}", **kw)
            return
        d = (got.reshape(exp.shape) - exp).abs()
        if mask is not None:
            if int(mask.sum()) == 0:
                return
            d = d[mask]
        err = float(d.max()) if torch.isfinite(d).all() else float("inf")
        if err > tol:
            bad(view, f"differs from the one world-space map by {err:.3g} (tol {tol:.2g})", **kw)

    def inside(xc: torch.Tensor) -> torch.Tensor:
        """Points (cube coordinates of g) that stay inside the domain through every member (linear interpolation exact)."""
        # linear interpolation of the samples is exact only inside the hull of the sample centres:
        # |x_i| <= 1 (align_corners) or 1 - 1/n_i (cube convention), minus a safety margin
        lim = torch.tensor([(1.0 if g.align_corners() else 1.0 - 1.0 / n) - 0.02 for n in g.size()], dtype=torch.float64)
        ok = (xc.abs() <= lim).all(dim=-1)
        if nonrigid:
            for Pk in partial:
                ok &= (apply_hom(Pk, xc).abs() <= lim).all(dim=-1)
        return ok

    # 0. freshly constructed = identity
    for h in ("tensor", "param"):
        t0 = guarded("construct", lambda: build(name, parts, g, h, set_params=False), fresh=True)
        if t0 is None:
            continue
        x = probes(D).float().unsqueeze(0)
        y = guarded("default identity", lambda: t0(x), fresh=True, holder0=h)
        if y is not None and max_err(y, x) > 1e-5:
            bad("default identity", f"a freshly constructed transform moves points by {max_err(y, x):.3g}", fresh=True, holder0=h)
    t = guarded("construct", lambda: build(name, parts, g, holder))
    if t is None:
        ctx.count(key=json.dumps([name, parts, c["g"]]))
        return
    P = probes(D)
    P = P[inside(P)] if nonrigid else P
    if P.shape[0] == 0:
        raise MachineryError(f"no interior probe for {name}")
    x = P.float().unsqueeze(0)
    # 1. tensor / matrix representation (linear models)
    if not nonrigid:
        T = guarded("tensor", lambda: as_homogeneous_matrix(t.tensor()))
        if T is not None:
            cmp("tensor", T[0], M)
        if hasattr(t, "matrix") and not hasattr(t, "transforms"):
            Tm = guarded("matrix", lambda: t.matrix())
            if Tm is not None:
                cmp("matrix", Tm[0], M)
    # 2. point map in its own cube coordinates (call and forward)
    cmp("call", guarded("call", lambda: t(x)), apply_hom(M, P).unsqueeze(0))
    cmp("forward", guarded("forward", lambda: t.forward(x)), apply_hom(M, P).unsqueeze(0))
    # 3. world-coordinate point API and other grids / axes (the same physical points, other coordinates)
    xw = g.transform_points(P.float(), axes=cube, to_axes="world").to(torch.float64)
    cube2 = Axes.from_grid(g2)
    x2 = g.transform_points(P.float(), axes=cube, to_grid=g2, to_axes=cube2, decimals=None).to(torch.float64)
    cmp("points[world]", guarded("points[world]", lambda: t.points(xw.float(), axes="world")), apply_hom(W, xw), tol=ATOL * scale * 5)
    cmp("points[other grid cube]", guarded("points[other grid cube]", lambda: t.points(x2.float(), grid=g2, axes=cube2)), apply_hom(M2, x2), tol=ATOL * scale * 5)
    cmp("points[world->grid of other]", guarded("points[world->grid of other]",
        lambda: t.points(xw.float(), grid=g2, axes="world", to_grid=g2, to_axes="grid")), apply_hom(Mwg, xw), tol=ATOL * scale * 20)
    # explicit output grid different from the input grid
    exp_og = g.transform_points(apply_hom(W, xw).float(), axes="world", to_axes="grid", decimals=None).to(torch.float64)
    cmp("points[to_grid != grid]", guarded("points[to_grid != grid]",
        lambda: t.points(x2.float(), grid=g2, axes=cube2, to_grid=g, to_axes="grid")), exp_og, tol=ATOL * scale * 20)
    pst = guarded("PointSetTransformer", lambda: PointSetTransformer(t, grid=g2, axes="world", to_grid=g, to_axes="grid"))
    if pst is not None:
        cmp("PointSetTransformer", guarded("PointSetTransformer", lambda: pst(xw.float().unsqueeze(0))), exp_og.unsqueeze(0), tol=ATOL * scale * 20)
    # ... the transformer given only the input grid/axes of the points: output in the same coordinates
    pst = guarded("PointSetTransformer", lambda: PointSetTransformer(t, grid=g2, axes=cube2), form="grid+axes")
    if pst is not None:
        cmp("PointSetTransformer[grid, axes]", guarded("PointSetTransformer", lambda: pst(x2.float().unsqueeze(0)), form="grid+axes"), apply_hom(M2, x2).unsqueeze(0), tol=ATOL * scale * 5, form="grid+axes")
    pst = guarded("PointSetTransformer", lambda: PointSetTransformer(t, grid=g2, axes=cube2.value), form="grid+axes str")
    if pst is not None:
        cmp("PointSetTransformer[grid, axes]", guarded("PointSetTransformer", lambda: pst(x2.float().unsqueeze(0)), form="grid+axes str"), apply_hom(M2, x2).unsqueeze(0), tol=ATOL * scale * 5, form="grid+axes str")
    # ... a copy with other parameters (data(arg)) taken from an already evaluated transform describes the NEW parameters in every view
    if hasattr(t, "data") and not hasattr(t, "transforms") and callable(getattr(t, "data", None)):
        t_id = guarded("construct", lambda: build(name, parts, g, holder, set_params=False), role="data(arg) source")
        pnew = guarded("data()", lambda: t.data().detach().clone())
        if t_id is not None and pnew is not None:
            try:
                t_id(x)
                t_id.disp()
                t_id.update()
            except Exception:
                pass
            tn = guarded("data(arg)", lambda: t_id.data(pnew))
            if tn is not None:
                co = g.coords(align_corners=g.align_corners()).reshape(-1, D)
                exp_u = apply_hom(M, co.to(torch.float64)) - co.to(torch.float64)
                u = guarded("data(arg).disp", lambda: tn.disp())
                if u is not None:
                    u = u[0].movedim(0, -1).reshape(-1, D)
                    cmp("data(arg).disp", u, exp_u, tol=ATOL * scale * 20, mask=inside(co.to(torch.float64)).unsqueeze(-1).expand_as(exp_u) if nonrigid else None)
                cmp("data(arg).points[world]", guarded("data(arg).points[world]", lambda: tn.points(xw.float(), axes="world")), apply_hom(W, xw), tol=ATOL * scale * 5)
                cmp("data(arg).call", guarded("data(arg).call", lambda: tn(x)), apply_hom(M, P).unsqueeze(0))
                # ... and the source of the copy is still the identity
                y0 = guarded("data(arg) source", lambda: t_id(x))
                if y0 is not None and max_err(y0, x) > 1e-5:
                    bad("data(arg) source", "taking a copy with other parameters changed the transform it was taken from")
    # ... the transformer with its defaults: points w.r.t. the transform's own grid / cube axes
    pst = guarded("PointSetTransformer", lambda: PointSetTransformer(t), form="defaults")
    if pst is not None:
        cmp("PointSetTransformer[defaults]", guarded("PointSetTransformer", lambda: pst(x), form="defaults"), apply_hom(M, P).unsqueeze(0), form="defaults")
    # ... the generic configurable transform given its parameters as a dict of tensors, or predicted by a callable returning such a dict
    # (member names, and the aliases a predicting network may use): every form is the same map
    if name.startswith("Generic"):
        from deepali.spatial.generic import GenericSpatialTransform

        # (values as a NON-optimisable member holds them: an optimisable member stores a re-parameterised version of its angles / scales)
        t_plain = guarded("construct", lambda: build(name, parts, g, "tensor"), role="generic params source")
        pd = guarded("data()", lambda: {nm: ch.data().detach().clone() for nm, ch in t_plain.named_transforms()}) if t_plain is not None else None
        if pd is not None:
            alias = {"translation": "offset", "rotation": "angles", "scaling": "scales"}
            pd_alias = {alias.get(kk, kk): vv for kk, vv in pd.items()}
            forms_ = [("dict", lambda: GenericSpatialTransform(g, params=dict(pd), config=t.config)), ("callable", lambda: GenericSpatialTransform(g, params=lambda *a_, **k_: dict(pd), config=t.config)),
                      ("callable, aliases", lambda: GenericSpatialTransform(g, params=lambda *a_, **k_: dict(pd_alias), config=t.config))]
            if "shearing" in pd:  # (a predicting callable has no key for shear parameters: dict form only)
                forms_ = forms_[:1]
            for form, mk in forms_:
                tg = guarded("construct[generic params]", mk, form=form)
                if tg is None:
                    continue
                cmp("call[generic params]", guarded("call[generic params]", lambda: tg(x), form=form), apply_hom(M, P).unsqueeze(0), form=form)
                Tg = guarded("tensor[generic params]", lambda: as_homogeneous_matrix(tg.update().tensor()), form=form)
                if Tg is not None:
                    cmp("tensor[generic params]", Tg[0], M, form=form)
                dd = guarded("data[generic params]", lambda: tg.update() and {nm: ch.data() for nm, ch in tg.named_transforms()}, form=form)
                if dd is not None and any(max_err(dd[kk], pd[kk]) > 1e-6 for kk in pd):
                    bad("data[generic params]", "the members do not hold the given parameters", form=form)
    # ... a displacement field FITTED to a given flow field describes that flow: given on its own grid with cube or world vectors, and on another grid
    if name == "DisplacementFieldTransform":
        from deepali.data.flow import FlowFields

        co = g.coords(align_corners=g.align_corners()).reshape(-1, D)
        exp_u = apply_hom(M, co.to(torch.float64)) - co.to(torch.float64)
        u_own = exp_u.reshape(*g.shape, D).movedim(-1, 0).unsqueeze(0).float()
        ff_own = FlowFields(u_own, g, Axes.from_grid(g))
        for how, ff in (("own grid, cube axes", ff_own), ("own grid, world axes", ff_own.axes(Axes.WORLD)), ("own grid, grid axes", ff_own.axes(Axes.GRID))):
            for h in ("tensor", "param"):
                tf = guarded("fit", lambda: build(name, parts, g, h, set_params=False).fit(ff), how=how, holder1=h)
                if tf is None:
                    continue
                u = guarded("fit.disp", lambda: tf.disp(), how=how)
                if u is not None:
                    cmp("fit.disp", u[0].movedim(0, -1).reshape(-1, D), exp_u, tol=ATOL * scale * 20, mask=inside(co.to(torch.float64)).unsqueeze(-1).expand_as(exp_u), how=how)
                cmp("fit.call", guarded("fit.call", lambda: tf(x), how=how), apply_hom(M, P).unsqueeze(0), tol=ATOL * scale * 5, how=how)
    # 4. dense displacement on its own grid, on the same grid with the other cube convention, and on another grid
    for view, gg in (("disp[own]", g), ("disp[own, other align_corners]", g.align_corners(not g.align_corners())), ("disp[other]", g2)):
        ax = Axes.from_grid(gg)
        co = gg.coords(align_corners=gg.align_corners()).reshape(-1, D)  # cube coords of gg
        sw = gg.transform_points(co, axes=ax, to_axes="world", decimals=None).to(torch.float64)
        tw = apply_hom(W, sw)
        exp_u = (gg.transform_points(tw.float(), axes="world", to_axes=ax, decimals=None).to(torch.float64) - co.to(torch.float64))
        ins = inside(g.transform_points(sw.float(), axes="world", to_axes=cube, decimals=None).to(torch.float64))
        u = guarded(view, (lambda: t.disp()) if gg is g else (lambda gg=gg: t.disp(gg)))
        if u is not None:
            u = u[0].movedim(0, -1).reshape(-1, D)
            cmp(view, u, exp_u, tol=ATOL * scale * 20, mask=ins.unsqueeze(-1).expand_as(exp_u) if nonrigid else None)
    fl_ = guarded("flow", lambda: t.flow(g2))
    if fl_ is not None:
        if fl_.axes() is not Axes.from_grid(g2) or fl_.grid() != g2:
            bad("flow", "flow(grid) does not carry the requested grid / its cube axes")
    # 5. image warping: out(x_j) = source(W(x_j)) for a world-linear ramp image
    a = torch.tensor([0.7, -1.3, 0.4][:D], dtype=torch.float64)
    b = 2.0
    for src_name, src in (("other", g2), ("own", g)):
        src_world = src.index_to_world(src.coords(normalize=False).to(torch.float32)).to(torch.float64)
        img = (src_world @ a + b).float().unsqueeze(0).unsqueeze(0)
        if src_name == "own":
            # the transformer with its defaults: target = the transform's grid, source = target
            itd = guarded("ImageTransformer", lambda: ImageTransformer(t), target="default", source="default")
            outd = guarded("ImageTransformer", lambda: itd(img), target="default", source="default") if itd is not None else None
            if outd is not None:
                twd = g.index_to_world(g.coords(normalize=False).to(torch.float32)).to(torch.float64).reshape(-1, D)
                wpd = apply_hom(W, twd)
                insd = (g.world_to_cube(wpd.float(), align_corners=True, decimals=None).abs() <= 0.97).all(dim=-1)
                insd &= inside(g.transform_points(twd.float(), axes="world", to_axes=cube, decimals=None).to(torch.float64)) if nonrigid else True
                if outd.numel() == wpd.shape[0] and int(insd.sum()) >= 3:
                    errd = float((outd.reshape(-1).to(torch.float64) - (wpd @ a + b))[insd].abs().max())
                    if errd > 3e-4 * max(1.0, float((wpd @ a + b).abs().max())):
                        bad("ImageTransformer", f"with default target/source the warped ramp differs from source(W(x)) by {errd:.3g}", target="default", source="default")
                elif outd.numel() != wpd.shape[0]:
                    bad("ImageTransformer", f"with default target the output has {outd.numel()} samples, the transform's grid has {wpd.shape[0]}", target="default", source="default")
        for tgt_name, tgt in (("own", g), ("own-resized", g.resize(tuple(n + 3 for n in g.size()))), ("other", g2.resize(tuple(n + 1 for n in g2.size())))):
            it = guarded("ImageTransformer", lambda: ImageTransformer(t, target=tgt, source=src, padding="border"), target=tgt_name, source=src_name)
            if it is None:
                continue
            out = guarded("ImageTransformer", lambda: it(img), target=tgt_name, source=src_name)
            if out is None:
                continue
            tw = tgt.index_to_world(tgt.coords(normalize=False).to(torch.float32)).to(torch.float64).reshape(-1, D)
            wp = apply_hom(W, tw)
            expv = wp @ a + b
            ins = (src.world_to_cube(wp.float(), align_corners=True, decimals=None).abs() <= 0.97).all(dim=-1)
            ins &= inside(g.transform_points(tw.float(), axes="world", to_axes=cube, decimals=None).to(torch.float64)) if nonrigid else True
            if int(ins.sum()) < 3:
                continue
            got = out.reshape(-1).to(torch.float64)
            if got.shape[0] != expv.shape[0]:
                bad("ImageTransformer", f"output has {got.shape[0]} samples, target grid has {expv.shape[0]}", target=tgt_name, source=src_name)
                continue
            err = float((got - expv)[ins].abs().max())
            if err > 3e-4 * max(1.0, float(expv.abs().max())):
                bad("ImageTransformer", f"warped ramp differs from source(W(x)) by {err:.3g} on {int(ins.sum())} inside samples", target=tgt_name, source=src_name)
            if tgt_name == "own":
                # the functional-style modules given the transform as a tensor w.r.t. the cube of the (own) target grid: same warp
                from deepali.modules import AlignImage, TransformImage

                mods = [("TransformImage", TransformImage)] + ([] if nonrigid else [("AlignImage", AlignImage)])
                for mname, cls in mods:
                    mod = guarded(mname, lambda: cls(target=tgt, source=src, padding="border"), source=src_name)
                    if mod is None:
                        continue
                    o2 = guarded(mname, lambda: mod(t.tensor(), img), source=src_name)
                    if o2 is None:
                        continue
                    g2_ = o2.reshape(-1).to(torch.float64)
                    if g2_.shape[0] != expv.shape[0]:
                        bad(mname, f"output has {g2_.shape[0]} samples, target grid has {expv.shape[0]}", source=src_name)
                        continue
                    err = float((g2_ - expv)[ins].abs().max())
                    if err > 3e-4 * max(1.0, float(expv.abs().max())):
                        bad(mname, f"warped ramp differs from source(W(x)) by {err:.3g} on {int(ins.sum())} inside samples", source=src_name)
    ctx.count(key=json.dumps([name, parts, c["g"], c["g2"]]), nontrivial=True)


def check_empty_composites(ctx: Ctx) -> None:
    """A composite without members is the identity in every view."""
    import torch

    from deepali.core.grid import Grid
    from deepali.spatial import MultiLevelTransform, SequentialTransform

    for D in (2, 3):
        g = Grid(size=(6, 5, 4)[:D], spacing=(1.0, 1.5, 0.5)[:D])
        x = torch.tensor([[[0.3, -0.2, 0.5][:D], [-0.7, 0.1, 0.0][:D]]])
        for cls in (SequentialTransform, MultiLevelTransform):
            sig = dict(view="empty composite", model=cls.__name__, D=D)
            try:
                t = cls(g)
                y = t(x)
                if max_err(y, x) > 0:
                    ctx.violation(dict(**sig, what="call"), f"{cls.__name__}(grid) without members moves points by {max_err(y, x):.3g}", dict(scenario="empty", **sig))
                T = t.tensor()
                eye = torch.eye(D, D + 1).unsqueeze(0)
                if tuple(T.shape[-2:]) != (D, D + 1) or max_err(T.reshape(-1, D, D + 1)[0], eye[0]) > 0:
                    ctx.violation(dict(**sig, what="tensor"), f"{cls.__name__}(grid).tensor() is not the identity matrix: {T.tolist()}", dict(scenario="empty", **sig))
                u = t.disp()
                if float(u.abs().max()) > 0 or tuple(u.shape[2:]) != tuple(g.shape):
                    ctx.violation(dict(**sig, what="disp"), f"{cls.__name__}(grid).disp() is not a zero field on the grid", dict(scenario="empty", **sig))
                if len(t) != 0 or "0" in t or 0 in t:
                    ctx.violation(dict(**sig, what="container"), f"{cls.__name__}(grid) reports members", dict(scenario="empty", **sig))
            except Exception as ex:
                ctx.violation(dict(**sig, exc=type(ex).__name__), f"{cls.__name__}(grid) without members raised {type(ex).__name__}: {str(ex)[:120]}", dict(scenario="empty", **sig))
            ctx.count(key=json.dumps(sig, sort_keys=True))


def check_coarse_fields(ctx: Ctx) -> None:
    """Dense fields whose parameters live on a coarser grid (stride > 1), with and without resizing of the buffered field: the displacement field
    on the transform's own grid, the point map at the grid points (plain call and the grid=True call form) and composites with a linear member
    in front all describe the same mapping - for either align_corners convention."""
    import torch

    import deepali.spatial as S
    from deepali.core.grid import Grid

    for D in (2, 3):
        for ac in (True, False):
            g = Grid(size=(12, 10, 8)[:D], spacing=(1.0, 1.5, 0.5)[:D], align_corners=ac)
            xg = g.coords(align_corners=ac).unsqueeze(0)
            lim = 1.0 - 3.0 / min(g.size())
            inner = (xg.abs() <= lim).all(dim=-1)
            for cls in (S.DisplacementFieldTransform, S.StationaryVelocityFieldTransform):
                for resize in (True, False):
                    sig = dict(view="coarse field", model=cls.__name__, D=D, ac=ac, resize=resize)
                    case = dict(scenario="coarse", **sig)
                    try:
                        t = cls(g, stride=2, resize=resize, params=False)
                        gen = torch.Generator().manual_seed(5 + D)
                        p = torch.zeros((1,) + tuple(t.data_shape))
                        # smooth small field: a*sin over the coarse lattice
                        shp = t.data_shape[1:]
                        axes_ = [torch.linspace(-1, 1, n_) for n_ in shp]
                        mesh = torch.meshgrid(*axes_, indexing="ij")
                        for i_ in range(D):
                            p[0, i_] = 0.04 * torch.sin(1.3 * mesh[i_ % D] + 0.7 * i_) * torch.cos(0.9 * mesh[(i_ + 1) % D])
                        t.data_(p)
                        y = t(xg)                       # point map at the grid points
                        u = t.disp()                    # dense field on the own grid
                        ud = u.movedim(1, -1)
                        if tuple(ud.shape) != tuple(xg.shape):
                            ctx.violation(dict(**sig, what="shape"), f"{cls.__name__}(stride=2, resize={resize}).disp() has shape {tuple(u.shape)} on a grid of shape {tuple(g.shape)}", case)
                            continue
                        err = float(((y - xg) - ud)[inner].abs().max())
                        if err > 1e-5:
                            ctx.violation(dict(**sig, what="disp vs points"), f"{cls.__name__}(stride=2, resize={resize}, align_corners={ac}) D={D}: disp() differs from the displacement of the grid points by {err:.3g}", case)
                        yg = t(xg, grid=True)
                        err = float((yg - y)[inner].abs().max())
                        if err > 1e-5:
                            ctx.violation(dict(**sig, what="grid=True"), f"{cls.__name__}(stride=2, resize={resize}, align_corners={ac}) D={D}: call(grid=True) differs from the plain call at the grid points by {err:.3g}", case)
                        # composites: a linear member in front of / behind the field, called at the grid points with grid=True
                        for order in ("linear first", "field first"):
                            lin = S.Translation(g, params=False)
                            lin.data_(torch.tensor([[0.07, -0.05, 0.03][:D]]))
                            seq = S.SequentialTransform(lin, t) if order == "linear first" else S.SequentialTransform(t, lin)
                            a_ = seq(xg)
                            b_ = seq(xg, grid=True)
                            lim2 = lim - 0.1
                            inner2 = (xg.abs() <= lim2).all(dim=-1)
                            err = float((a_ - b_)[inner2].abs().max())
                            if err > 1e-5:
                                ctx.violation(dict(**sig, what="composite grid=True", order=order), f"Sequential({order}) of a Translation and a {cls.__name__}: call(grid=True) differs from the plain call at the grid points by {err:.3g}", case)
                    except Exception as ex:
                        ctx.violation(dict(**sig, exc=type(ex).__name__), f"{cls.__name__}(stride=2, resize={resize}) raised {type(ex).__name__}: {str(ex)[:120]}", case)
                    ctx.count(key=json.dumps(sig, sort_keys=True), nontrivial=True)


def check_multilevel(ctx: Ctx, cases: List[dict]) -> None:
    """A multi-level composite adds the displacements of its members."""
    from deepali.spatial import MultiLevelTransform

    by = {}
    for c in cases:
        if c["name"] in ("Translation", "AnisotropicScaling", "RigidTransform"):
            by.setdefault((json.dumps(c["g"]), len(c["g"]["n"])), []).append(c)
    for (gk, D), cs in by.items():
        if len(cs) < 2:
            continue
        for nm in (2, 3, 4):
            if len(cs) < nm:
                continue
            members = [cs[(i * (len(cs) - 1)) // (nm - 1)] for i in range(nm)]
            g = mk_grid(members[0]["g"])
            ts = [build(m["name"], m["parts"], g, "tensor") for m in members]
            Ms = [hom(m["M"]) for m in members]
            P = probes(D)
            exp = P + sum((apply_hom(M, P) - P) for M in Ms)
            names = [m["name"] for m in members]
            sig = dict(view="MultiLevelTransform", D=D, members=nm)
            case = dict(members=members)
            try:
                ml = MultiLevelTransform(*ts)
                y = ml(P.float().unsqueeze(0))
                mat = ml.tensor()
            except Exception as ex:
                ctx.violation(dict(**sig, exc=type(ex).__name__), f"MultiLevelTransform{tuple(names)} raised {ex}", case)
                continue
            err = max_err(y[0], exp)
            if err > 1e-4:
                ctx.violation(sig, f"MultiLevelTransform{tuple(names)} does not add the members' displacements (off by {err:.3g})", case)
            # all members are linear: tensor() is the homogeneous matrix of x + sum u_i(x) = (sum A_i - (n - 1) I) x + sum t_i
            Msum = sum(Ms) - (nm - 1) * torch.eye(D, D + 1, dtype=Ms[0].dtype)
            if tuple(mat.shape[-2:]) == (D, D + 1):
                err = max_err(mat.reshape(D, D + 1), Msum)
                if err > 1e-4:
                    ctx.violation(dict(**sig, what="tensor"), f"MultiLevelTransform{tuple(names)}.tensor() is not the matrix of the summed map (off by {err:.3g})", case)
            ctx.count(key=("multilevel", gk, tuple(names)))


def run(ctx: Ctx) -> None:
    tier = ctx.tier
    ctx.rule = ("one case per (model, parameter set, transform grid, other grid) leaf of Transform.tla; each is evaluated through every "
                "view (tensor/matrix, call/forward, points() in world and other-grid coordinates, PointSetTransformer, disp()/flow() on own and "
                "other grid, ImageTransformer on two targets, default identity), with parameters held as tensor or nn.Parameter")
    ctx.tlc("MC_Transform", cfg(tier, False), label="laws", timeout=3000)
    res = ctx.tlc("MC_Transform", cfg(tier, True), label="emit", timeout=3000)
    cases = json_lines(res, key=None)
    if not cases:
        raise MachineryError("no cases")
    for k, c in enumerate(cases):
        check_case(ctx, c, k + ctx.seed)
        if tier == "thorough":
            check_case(ctx, c, k + ctx.seed + 1)
    check_multilevel(ctx, cases)
    check_empty_composites(ctx)
    check_coarse_fields(ctx)
    ctx.traces = len(cases)
    ctx.sample({k: cases[0][k] for k in ("name", "parts", "g", "M", "W")})
    ctx.sample({k: cases[-1][k] for k in ("name", "parts", "g", "M", "W")})
    ctx.notes["models"] = sorted({c["name"] for c in cases})
    probe = Ctx(ctx.prop, ctx.tier, ctx.seed)
    probe.findings = []
    c = json.loads(json.dumps(next(x for x in cases if x["name"] == "RigidTransform")))
    c["W"][0][-1] = [c["W"][0][-1][0] + c["W"][0][-1][1], c["W"][0][-1][1]]
    check_case(probe, c)
    if not any(v["signature"].get("view", "").startswith(("points[world]", "ImageTransformer")) for v in probe.violations):
        raise MachineryError("binding self-test failed: shifted world map accepted")
    ctx.notes["binding_selftest"] = "shifted expected world map rejected by points[world] / ImageTransformer"
    ctx.assumptions += ["linear models and their composites only in this check; non-rigid models (DDF/SVF/FFD/SVFFD) are bound through C09/C11/C14 on the families where interpolation is exact",
                        "rational parameter lattice; float32 parameter storage tolerance 5e-5 x scale"]


def replay(ctx: Ctx, data: Dict[str, Any]) -> None:
    c = data["case"]
    if "c1" in c:
        check_multilevel(ctx, [c["c1"], c["c2"]])
    else:
        check_case(ctx, c, 0)
        check_case(ctx, c, 1)
