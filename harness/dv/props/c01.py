"""C01 - Grid coordinate systems map consistently (spec: GridDefs/Grid/GridCoords)."""
from __future__ import annotations

import json
import random
from fractions import Fraction
from typing import Any, Dict, List

import torch
import torch.nn.functional as TF

from ..core import Ctx
from ..gridlib import GRID_CFG_COMMON, grid_sig, mk_grid
from ..rat import F, fl, maxabs
from ..tol import F32, bound, max_err
from ..tlc import MachineryError, json_lines

HELPERS = {
    # (a, b) -> (method name, needs align_corners kw)
    ("grid", "cube"): ("index_to_cube", False),
    ("grid", "cube_corners"): ("index_to_cube", True),
    ("cube", "grid"): ("cube_to_index", False),
    ("cube_corners", "grid"): ("cube_to_index", True),
    ("grid", "world"): ("index_to_world", None),
    ("world", "grid"): ("world_to_index", None),
    ("cube", "world"): ("cube_to_world", False),
    ("cube_corners", "world"): ("cube_to_world", True),
    ("world", "cube"): ("world_to_cube", False),
    ("world", "cube_corners"): ("world_to_cube", True),
}


def cfg(tier: str, emit: bool, invariants: bool) -> str:
    t = "Q" if tier == "quick" else "T"
    s = GRID_CFG_COMMON.format(dims="{2, 3}", t=t, emit="TRUE" if emit else "FALSE")
    if invariants:
        s += "INVARIANT GridLaws\nINVARIANT PairLaws\nINVARIANT VecLaw\n" + ("INVARIANT DiscInv\n" if tier == "quick" else "")
    s += "CONSTRAINT Emit\n"
    return s


def rounding_extra(b: str, decimals_default: bool) -> float:
    if not decimals_default:
        return 0.0
    if b == "grid":
        return 0.5e-6
    if b in ("cube", "cube_corners"):
        return 0.5e-12
    return 0.0


def frac_sized(g):
    from deepali.core.grid import Grid

    h = Grid(size=[float(n) - 0.5 for n in g.size()], spacing=g.spacing(), center=g.center(), direction=g.direction(), align_corners=g.align_corners())
    if tuple(h.size()) != tuple(g.size()):
        raise MachineryError("fractional-size construction changed the number of samples")
    return h


def homogeneous_transform_(T, pts, vec):
    from deepali.core.linalg import homogeneous_transform

    return homogeneous_transform(T, pts, vectors=vec)


def check_map_case(ctx: Ctx, c: Dict[str, Any], variant: int = 0) -> None:
    from deepali.core.grid import Axes, grid_transform_points, grid_transform_vectors

    g = mk_grid(c["g"])
    g2 = mk_grid(c["g2"][0]) if c["g2"] else None
    if variant % 3 == 2:
        # the same grids with a FRACTIONAL internal size (n - 1/2 samples, as left behind by downsample() of an odd-sized grid or
        # resample()): the number of samples is still n, so every coordinate map must be the one of the integer-sized grid
        g = frac_sized(g)
        g2 = frac_sized(g2) if g2 is not None else None
    a, b, vec = c["a"], c["b"], bool(c["vec"])
    M = F(c["M"])
    P = F(c["P"])
    Q = F(c["Q"])
    scale = max(maxabs(M), maxabs(Q), maxabs(P))
    sig0 = dict(a=a, b=b, vec=vec, to_grid=g2 is not None, frac=variant % 3 == 2, **grid_sig(c["g"]))

    def report(op: str, err: float, tol: float, **kw):
        ctx.violation(dict(op=op, **sig0, **kw), f"{op}({a}->{b}, vectors={vec}, to_grid={g2 is not None}) "
                      f"differs from the specified map by {err:.3g} (tolerance {tol:.3g})", c)

    def guarded(op: str, fn, **kw):
        try:
            return fn()
        except Exception as ex:  # an enabled action refused
            ctx.violation(dict(op=op, exc=type(ex).__name__, **sig0, **kw),
                          f"{op}({a}->{b}, vectors={vec}) raised {type(ex).__name__}: {ex}", c)
            return None

    # 1. the matrix
    T = guarded("Grid.transform", lambda: g.transform(a, b, to_grid=g2, vectors=vec))
    if T is not None:
        tol = bound(scale, F32)
        Dm = len(M)
        if not vec and tuple(T.shape) == (Dm, Dm):
            # a square matrix is an accepted operand form of a homogeneous transformation with zero
            # translation (core/linalg.py); the property is about the map, not its storage form
            T = torch.cat([T, torch.zeros(Dm, 1, dtype=T.dtype)], dim=1)
        if tuple(T.shape) != (len(M), len(M[0])):
            report("Grid.transform", float("inf"), tol, shape=list(T.shape))
        else:
            err = max_err(T, fl(M))
            if err > tol:
                report("Grid.transform", err, tol)
    # 2. applying it to points / vectors of several leading shapes and dtypes
    D = len(P[0])
    forms = [
        ("M", torch.float32, lambda t: t),
        ("1M", torch.float64, lambda t: t.unsqueeze(0)),
        ("MYX", torch.float64, lambda t: t.reshape(t.shape[0], 1, 1, D)),
        ("single", torch.float32, lambda t: t[-1]),
    ]
    form = forms[variant % len(forms)]
    for name, dtype, shaper in (form, forms[0]) if form is not forms[0] else (form,):
        pin = shaper(torch.tensor(fl(P), dtype=dtype))
        qexp = shaper(torch.tensor(fl(Q), dtype=torch.float64))
        kind = F32  # grid attributes are float32, so every map is float32 accurate at best
        if vec:
            out = guarded("Grid.transform_vectors", lambda: g.transform_vectors(pin, a, b, to_grid=g2), form=name)
            ops = [("Grid.transform_vectors", out, 0.0)]
            out2 = guarded("Grid.apply_transform", lambda: g.apply_transform(pin, a, b, to_grid=g2, vectors=True, decimals=None), form=name)
            ops.append(("Grid.apply_transform", out2, 0.0))
            out3 = guarded("grid_transform_vectors", lambda: grid_transform_vectors(pin, g, Axes(a), g2 if g2 is not None else g, Axes(b)), form=name)
            ops.append(("grid_transform_vectors", out3, 0.0))
        else:
            out = guarded("Grid.transform_points", lambda: g.transform_points(pin, a, b, to_grid=g2, decimals=None), form=name)
            ops = [("Grid.transform_points", out, 0.0)]
            outd = guarded("Grid.transform_points", lambda: g.transform_points(pin, a, b, to_grid=g2), form=name, decimals="default")
            ops.append(("Grid.transform_points[default decimals]", outd, rounding_extra(b, True)))
            out3 = guarded("grid_transform_points", lambda: grid_transform_points(pin, g, Axes(a), g2 if g2 is not None else g, Axes(b), decimals=None), form=name)
            ops.append(("grid_transform_points", out3, 0.0))
            if g2 is None and (a, b) in HELPERS:
                meth, ac_kw = HELPERS[(a, b)]
                if ac_kw is None:
                    outh = guarded(f"Grid.{meth}", lambda: getattr(g, meth)(pin, decimals=None), form=name)
                else:
                    outh = guarded(f"Grid.{meth}", lambda: getattr(g, meth)(pin, decimals=None, align_corners=ac_kw), form=name)
                    if ac_kw == g.align_corners():
                        outh2 = guarded(f"Grid.{meth}", lambda: getattr(g, meth)(pin, decimals=None), form=name, default_ac=True)
                        ops.append((f"Grid.{meth}[default align_corners]", outh2, 0.0))
                ops.append((f"Grid.{meth}", outh, 0.0))
        for op, o, extra in ops:
            if o is None:
                continue
            tol = bound(scale, kind, extra)
            if tuple(o.shape) != tuple(qexp.shape):
                report(op, float("inf"), tol, form=name, shape=list(o.shape))
                continue
            err = max_err(o, qexp)
            if err > tol:
                report(op, err, tol, form=name)
    # 3. Cube of the grid: cube axes <-> world
    cube_axes = "cube_corners" if g.align_corners() else "cube"
    if g2 is None and {a, b} == {cube_axes, "world"}:
        cube = g.cube()
        pin = torch.tensor(fl(P), dtype=torch.float64)
        qexp = torch.tensor(fl(Q), dtype=torch.float64)
        if vec:
            o = guarded("Cube.transform_vectors", lambda: cube.transform_vectors(pin, "cube" if a != "world" else "world", "world" if a != "world" else "cube"))
            op = "Cube.transform_vectors"
        else:
            o = guarded("Cube.transform_points", lambda: cube.transform_points(pin, "cube" if a != "world" else "world", "world" if a != "world" else "cube"))
            op = "Cube.transform_points"
        if o is not None:
            tol = bound(scale, F32)
            err = max_err(o, qexp)
            if err > tol:
                report(op, err, tol)
    # 3b. Cube.from_grid with the convention named by the cube axes of the case, whatever the grid's own flag is
    if g2 is None and "world" in (a, b) and ({a, b} & {"cube", "cube_corners"}):
        from deepali.core.cube import Cube

        flag = "cube_corners" in (a, b)
        ac_before = g.align_corners()
        pin = torch.tensor(fl(P), dtype=torch.float64)
        qexp = torch.tensor(fl(Q), dtype=torch.float64)
        for how, mk in (("explicit", lambda: Cube.from_grid(g, align_corners=flag)), ("derived", lambda: Cube.from_grid(g.align_corners(flag)))):
            cube = guarded("Cube.from_grid", mk, how=how)
            if cube is None:
                continue
            fa, fb = ("cube", "world") if a != "world" else ("world", "cube")
            o = guarded("Cube.from_grid.transform", lambda: cube.transform_vectors(pin, fa, fb) if vec else cube.transform_points(pin, fa, fb), how=how)
            if o is not None:
                err = max_err(o, qexp)
                if err > bound(scale, F32):
                    report("Cube.from_grid(align_corners=%s).transform_%s" % (flag, "vectors" if vec else "points"), err, bound(scale, F32), how=how)
        if g.align_corners() != ac_before:
            ctx.violation(dict(op="Cube.from_grid", what="mutates", **sig0), "Cube.from_grid changed the grid's align_corners flag", c)
    # 3c. two grids: the map between their own cubes through Cube.transform(to_cube=) and the cube_* functions
    if g2 is not None:
        ca1 = "cube_corners" if g.align_corners() else "cube"
        ca2 = "cube_corners" if g2.align_corners() else "cube"
        if a == ca1 and b == ca2:
            import deepali.core.cube as CU

            c1, c2 = g.cube(), g2.cube()
            pin = torch.tensor(fl(P), dtype=torch.float64)
            qexp = torch.tensor(fl(Q), dtype=torch.float64)
            routes = [("Cube.transform_%s[to_cube]" % ("vectors" if vec else "points"),
                       lambda: c1.transform_vectors(pin, "cube", to_cube=c2) if vec else c1.transform_points(pin, "cube", to_cube=c2)),
                      ("cube_transform_%s" % ("vectors" if vec else "points"),
                       lambda: CU.cube_transform_vectors(pin, c1, Axes.CUBE, c2) if vec else CU.cube_transform_points(pin, c1, Axes.CUBE, c2)),
                      ("cube_%s_transform" % ("vectors" if vec else "points"),
                       lambda: homogeneous_transform_((CU.cube_vectors_transform if vec else CU.cube_points_transform)(c1, Axes.CUBE, c2).double(), pin, vec)),
                      ("Cube.transform[via world]", lambda: (c2.transform_vectors(c1.transform_vectors(pin, "cube", "world"), "world", "cube") if vec
                                                             else c2.transform_points(c1.transform_points(pin, "cube", "world"), "world", "cube")))]
            for op, fn in routes:
                o = guarded(op, fn)
                if o is not None:
                    err = max_err(o, qexp) if tuple(o.shape) == tuple(qexp.shape) else float("inf")
                    if err > bound(scale, F32):
                        report(op, err, bound(scale, F32))
    # 3d. the grid_*_transform functions return the matrix of the case
    from deepali.core.grid import grid_points_transform, grid_vectors_transform

    Tf = guarded("grid_vectors_transform" if vec else "grid_points_transform",
                 lambda: (grid_vectors_transform if vec else grid_points_transform)(g, Axes(a), g2 if g2 is not None else g, Axes(b)))
    if Tf is not None:
        Tf = Tf.double()
        if not vec and tuple(Tf.shape) == (len(M), len(M)):
            Tf = torch.cat([Tf, torch.zeros(len(M), 1, dtype=Tf.dtype)], dim=1)
        if tuple(Tf.shape) != (len(M), len(M[0])) or max_err(Tf, fl(M)) > bound(scale, F32):
            report("grid_vectors_transform" if vec else "grid_points_transform", max_err(Tf, fl(M)) if tuple(Tf.shape) == (len(M), len(M[0])) else float("inf"), bound(scale, F32))
    # 3e. path independence at the level of the MATRICES: the matrix of a -> b is the product (core.linalg.hmm) of the matrices a -> m and m -> b
    #     for every intermediate axes m (the maps between the two cube conventions are square matrices, the others homogeneous ones)
    if g2 is None and not vec:
        from deepali.core.linalg import as_homogeneous_matrix, hmm

        for m_ in ("grid", "world", "cube", "cube_corners"):
            if m_ in (a, b) or (m_ == "cube_corners" and min(g.size()) < 2):
                continue
            prod = guarded("hmm", lambda: as_homogeneous_matrix(hmm(g.transform(m_, b), g.transform(a, m_))).double(), via=m_)
            if prod is not None:
                e_ = max_err(prod, fl(M)) if tuple(prod.shape) == (len(M), len(M[0])) else float("inf")
                if e_ > bound(scale, F32, 1e-5):
                    report("hmm(T(m->b), T(a->m))", e_, bound(scale, F32, 1e-5), via=m_)
    # 4. the homogeneous POINT matrix of the case applied through core.linalg / core.affine: to points with vectors=False,
    #    to displacements with vectors=True (the translation column must then be ignored)
    from deepali.core import affine as A_
    from deepali.core.linalg import homogeneous_transform

    Tp = guarded("Grid.transform", lambda: g.transform(a, b, to_grid=g2, vectors=False), role="point-matrix")
    if Tp is not None:
        pin = torch.tensor(fl(P), dtype=torch.float64)
        qexp = torch.tensor(fl(Q), dtype=torch.float64)
        Tp = Tp.double()
        fns = [("homogeneous_transform", lambda: homogeneous_transform(Tp, pin, vectors=vec)),
               ("affine.apply_transform", lambda: A_.apply_transform(Tp, pin, vectors=vec)),
               ("affine.transform_vectors" if vec else "affine.transform_points", lambda: (A_.transform_vectors if vec else A_.transform_points)(Tp, pin)),
               ("homogeneous_transform[batched]", lambda: homogeneous_transform(Tp.unsqueeze(0), pin.unsqueeze(0), vectors=vec).squeeze(0))]
        for op, fn in fns:
            o = guarded(op, fn)
            if o is None:
                continue
            if tuple(o.shape) != tuple(qexp.shape):
                report(op, float("inf"), 0.0, shape=list(o.shape))
                continue
            err = max_err(o, qexp)
            if err > bound(scale, F32):
                report(op, err, bound(scale, F32))
        if max_err(pin, torch.tensor(fl(P), dtype=torch.float64)) > 0:
            ctx.violation(dict(op="homogeneous_transform", what="mutates", **sig0), "applying the matrix changed the caller's points", c)
    # 5. integer-typed points / vectors (e.g. voxel indices) are mapped like the same numbers in floating point
    Pi = torch.tensor([[2, -1, 3][:len(P[0])], [0, 4, 1][:len(P[0])]], dtype=torch.int64)
    try:
        if vec:
            oi, of_ = g.transform_vectors(Pi, a, b, to_grid=g2), g.transform_vectors(Pi.double(), a, b, to_grid=g2)
        else:
            oi, of_ = g.transform_points(Pi, a, b, to_grid=g2, decimals=None), g.transform_points(Pi.double(), a, b, to_grid=g2, decimals=None)
        if not oi.dtype.is_floating_point or max_err(oi.double(), of_.double()) > bound(max(scale, float(of_.abs().max())), F32):
            report("Grid.transform_%s[int64 input]" % ("vectors" if vec else "points"), max_err(oi.double(), of_.double()), bound(scale, F32), dtype=str(oi.dtype))
    except Exception as ex:
        ctx.violation(dict(op="Grid.transform_%s" % ("vectors" if vec else "points"), exc=type(ex).__name__, input="int64", **sig0), f"integer-typed input raised {type(ex).__name__}: {str(ex)[:100]}", c)
    ctx.count(key=(json.dumps(c["g"], sort_keys=True), a, b, vec, json.dumps(c["g2"], sort_keys=True)),
              nontrivial=(a != b or g2 is not None))


def check_grid_case(ctx: Ctx, c: Dict[str, Any]) -> None:
    """Normalised sample lattice of one grid: coords(), points(), identity sampling."""
    g = mk_grid(c["g"])
    n = c["g"]["n"]
    D = len(n)
    sig0 = grid_sig(c["g"])
    for ac, key in ((True, "t"), (False, "f")):
        exp_axes = F(c["coords"][key])  # per axis list of coordinates
        # per-axis coords(dim=i)
        for i in range(D):
            try:
                ci = g.coords(dim=i, align_corners=ac)
            except Exception as ex:
                ctx.violation(dict(op="Grid.coords", dim=i, norm_ac=ac, exc=type(ex).__name__, **sig0), f"coords(dim={i}) raised {ex}", c)
                continue
            exp = fl(exp_axes[i])
            if ci.numel() != n[i]:
                ctx.violation(dict(op="Grid.coords", what="count", norm_ac=ac, **sig0),
                              f"coords(dim={i}, align_corners={ac}) has {ci.numel()} samples, expected exactly {n[i]}", c)
                continue
            err = max_err(ci, exp)
            if err > bound(1.0, F32):
                ctx.violation(dict(op="Grid.coords", what="values", norm_ac=ac, **sig0),
                              f"coords(dim={i}, align_corners={ac}) differs from the lattice by {err:.3g}", c)
        # full coordinate tensor, all layout options
        for channels_last in (True, False):
            for flip in (False, True):
                try:
                    co = g.coords(align_corners=ac, channels_last=channels_last, flip=flip)
                except Exception as ex:
                    ctx.violation(dict(op="Grid.coords", full=True, exc=type(ex).__name__, **sig0), f"coords() raised {ex}", c)
                    continue
                if not channels_last:
                    co = co.movedim(0, -1)
                if flip:
                    co = co.flip(-1)
                # co[..., k, j, i, :] must be (Cx[i], Cy[j], Cz[k])
                axes = [torch.tensor(fl(exp_axes[d]), dtype=torch.float64) for d in range(D)]
                mesh = torch.meshgrid(*reversed(axes), indexing="ij")  # order (..., y, x)
                exp = torch.stack(list(reversed(mesh)), dim=-1)
                if tuple(co.shape) != tuple(exp.shape):
                    ctx.violation(dict(op="Grid.coords", what="shape", full=True, **sig0), f"coords() shape {tuple(co.shape)} != {tuple(exp.shape)}", c)
                    continue
                err = max_err(co, exp)
                if err > bound(1.0, F32):
                    ctx.violation(dict(op="Grid.coords", what="values", full=True, norm_ac=ac, channels_last=channels_last, flip=flip, **sig0),
                                  f"coords(align_corners={ac}, channels_last={channels_last}, flip={flip}) differs from the lattice by {err:.3g}", c)
        # sampling an image at its own coords with the matching flag returns the image
        gen = torch.Generator().manual_seed(1234 + D)
        img = torch.randint(-50, 50, (1, 2) + tuple(reversed(n)), generator=gen).to(torch.float32)
        co = g.coords(align_corners=ac).unsqueeze(0)
        out = TF.grid_sample(img, co, mode="bilinear", padding_mode="zeros", align_corners=ac)
        err = max_err(out, img)
        if err > bound(50.0, F32, 2e-4):
            ctx.violation(dict(op="sample_at_coords", norm_ac=ac, **sig0),
                          f"sampling an image at Grid.coords(align_corners={ac}) with the matching flag changes it by {err:.3g}", c)
    # unnormalised coords are the integer indices; centred coords are index - (n-1)/2
    idx = g.coords(normalize=False)
    for i in range(D):
        ar = torch.arange(n[i])
        shape = [1] * D
        shape[D - 1 - i] = n[i]
        if not torch.equal(idx[..., i].to(torch.int64), ar.reshape(shape).expand(idx.shape[:-1])):
            ctx.violation(dict(op="Grid.coords", what="indices", **sig0), "coords(normalize=False) are not the integer indices", c)
    from deepali.core.grid import Grid

    # anchors: the middle index is the center, index zero is the origin() the grid reports, and a grid rebuilt from that origin is the same grid;
    # also for the same geometry with ONE sample along an axis (where (n - 1) / 2 = 0: origin and center coincide along that axis)
    cen = torch.tensor(fl(F(c["g"]["c"])), dtype=torch.float64)
    hs = fl(F(c["g"]["h"]))
    variants = [("as is", g, list(n))]
    for k_ in range(D):
        n1 = [1 if i == k_ else m for i, m in enumerate(n)]
        if n1 != list(n):
            variants.append((f"one sample along axis {k_}", Grid(size=tuple(n1), spacing=g.spacing(), center=g.center(), direction=g.direction(), align_corners=g.align_corners()), n1))
    variants.append(("one sample", Grid(size=(1,) * D, spacing=g.spacing(), center=g.center(), direction=g.direction(), align_corners=g.align_corners()), [1] * D))
    for vname, gv, nv in variants:
        try:
            mid = torch.tensor([(m - 1) / 2 for m in nv], dtype=torch.float64)
            tolc = bound(max(1.0, float(cen.abs().max()), max(float(a_ * b_) for a_, b_ in zip(nv, hs))), F32)
            sigv = dict(size1=min(nv) == 1, variant=vname if vname == "as is" else "singleton", **sig0)
            if max_err(gv.index_to_world(mid.float()), cen) > tolc:
                ctx.violation(dict(op="Grid.index_to_world", what="center", **sigv), f"[{vname}, size {nv}] index (n-1)/2 = {mid.tolist()} maps to {gv.index_to_world(mid.float()).tolist()}, the center is {cen.tolist()}", c)
            if max_err(gv.world_to_index(cen.float(), decimals=None), mid) > tolc:
                ctx.violation(dict(op="Grid.world_to_index", what="center", **sigv), f"[{vname}, size {nv}] the center maps to index {gv.world_to_index(cen.float(), decimals=None).tolist()}, expected {mid.tolist()}", c)
            o0 = gv.index_to_world(torch.zeros(D))
            if max_err(gv.origin(), o0) > tolc:
                ctx.violation(dict(op="Grid.origin", what="index0", **sigv), f"[{vname}, size {nv}] origin() is {gv.origin().tolist()} but index 0 lies at {o0.tolist()}", c)
            # origin = center - R diag(h) (n - 1) / 2, written out
            o_exp = cen - (gv.direction().double() @ (torch.tensor(hs, dtype=torch.float64) * mid))
            if max_err(gv.origin(), o_exp) > tolc:
                ctx.violation(dict(op="Grid.origin", what="value", **sigv), f"[{vname}, size {nv}] origin() is {gv.origin().tolist()}, center - R h (n-1)/2 = {o_exp.tolist()}", c)
            g_o = Grid(size=tuple(nv), origin=gv.origin(), spacing=gv.spacing(), direction=gv.direction(), align_corners=gv.align_corners())
            if max_err(g_o.center(), cen) > tolc:
                ctx.violation(dict(op="Grid(origin=)", what="roundtrip", **sigv), f"[{vname}, size {nv}] a grid rebuilt from origin() has center {g_o.center().tolist()}, expected {cen.tolist()}", c)
            if max_err(gv.cube().center(), cen) > tolc or max_err(gv.domain().center(), cen) > tolc:
                ctx.violation(dict(op="Grid.cube", what="center", **sigv), f"[{vname}] the cube / domain of the grid is not centred at the grid's center", c)
            if max_err(gv.world_to_cube(cen.float(), align_corners=False, decimals=None), torch.zeros(D)) > 1e-5:
                ctx.violation(dict(op="Grid.world_to_cube", what="center", **sigv), f"[{vname}, size {nv}] the center does not map to the middle of the cube", c)
        except Exception as ex:
            ctx.violation(dict(op="Grid.origin", exc=type(ex).__name__, variant=vname, **sig0), f"[{vname}] anchor checks raised {type(ex).__name__}: {str(ex)[:100]}", c)
    # transform() / inverse_transform() without arguments: the grid's OWN cube (per its align_corners flag) <-> world, inverse to each other
    try:
        from deepali.core.linalg import as_homogeneous_matrix, hmm

        own = "cube_corners" if g.align_corners() else "cube"
        if not (g.align_corners() and min(n) < 2):
            for vflag in (False, True):
                Tf = g.transform(vectors=vflag).double()
                Ti = g.inverse_transform(vectors=vflag).double()
                Ef, Ei = g.transform(own, "world", vectors=vflag).double(), g.transform("world", own, vectors=vflag).double()
                if max_err(Tf, Ef) > 1e-5 * max(1.0, float(Ef.abs().max())) or max_err(Ti, Ei) > 1e-5 * max(1.0, float(Ei.abs().max())):
                    ctx.violation(dict(op="Grid.inverse_transform", what="own axes", vectors=vflag, **sig0),
                                  f"transform()/inverse_transform(vectors={vflag}) are not the maps between the grid's own {own} axes and the world", c)
                prod = (Ti @ Tf) if vflag else as_homogeneous_matrix(hmm(Ti, Tf)).double()
                eye_ = torch.eye(D, D if vflag else D + 1, dtype=torch.float64)
                if max_err(prod.reshape(eye_.shape), eye_) > 1e-5:
                    ctx.violation(dict(op="Grid.inverse_transform", what="inverse", vectors=vflag, **sig0), f"inverse_transform(vectors={vflag}) o transform(vectors={vflag}) is not the identity: {prod.tolist()}", c)
                cT = g.cube().transform(vectors=vflag).double()
                cI = g.cube().inverse_transform(vectors=vflag).double()
                if max_err(cT, Ef) > 1e-5 * max(1.0, float(Ef.abs().max())) or max_err(cI, Ei) > 1e-5 * max(1.0, float(Ei.abs().max())):
                    ctx.violation(dict(op="Cube.inverse_transform", what="own axes", vectors=vflag, **sig0), "the cube's transform()/inverse_transform() differ from the grid's own-cube maps", c)
    except Exception as ex:
        ctx.violation(dict(op="Grid.inverse_transform", exc=type(ex).__name__, **sig0), f"transform()/inverse_transform() raised {type(ex).__name__}: {str(ex)[:100]}", c)
    # unnormalised coordinates: integer indices, and indices counted from the middle sample (center=True)
    try:
        for i_ in range(D):
            ci_ = g.coords(dim=i_, normalize=False)
            cc_ = g.coords(dim=i_, normalize=False, center=True)
            want_i = torch.arange(n[i_], dtype=torch.float64)
            if ci_.numel() != n[i_] or max_err(ci_.double(), want_i) > 0:
                ctx.violation(dict(op="Grid.coords", what="indices", **sig0), f"coords(dim={i_}, normalize=False) = {ci_.tolist()}, expected 0..{n[i_] - 1}", c)
            if cc_.numel() != n[i_] or max_err(cc_.double(), want_i - (n[i_] - 1) / 2) > 1e-6:
                ctx.violation(dict(op="Grid.coords", what="centered", **sig0), f"coords(dim={i_}, normalize=False, center=True) = {cc_.tolist()}, expected indices minus (n-1)/2", c)
        full_c = g.coords(normalize=False, center=True)
        full_i = g.coords(normalize=False)
        off_ = torch.tensor([(m - 1) / 2 for m in n], dtype=torch.float64)
        if tuple(full_c.shape) != tuple(full_i.shape) or max_err(full_c.double(), full_i.double() - off_) > 1e-6:
            ctx.violation(dict(op="Grid.coords", what="centered", full=True, **sig0), "coords(normalize=False, center=True) is not the index lattice minus (n-1)/2", c)
    except Exception as ex:
        ctx.violation(dict(op="Grid.coords", exc=type(ex).__name__, what="unnormalised", **sig0), f"unnormalised coords raised {type(ex).__name__}: {str(ex)[:100]}", c)
    # equality of grids / cubes: equal to a copy built from the same attributes, different from every grid that differs in one attribute
    # (the harnesses of C03..C05, C10 and C19 rely on Grid.__eq__ to compare grids)
    from deepali.core.cube import Cube
    from deepali.core.grid import Grid

    try:
        same = mk_grid(c["g"])
        if not (g == same) or (g != same):
            ctx.violation(dict(op="Grid.__eq__", what="equal", **sig0), "two grids built from the same attributes are not equal", c)
        if not (g.cube() == same.cube()):
            ctx.violation(dict(op="Cube.__eq__", what="equal", **sig0), "the cubes of two equal grids are not equal", c)
        rot = torch.eye(D)
        rot[0, 0], rot[0, 1], rot[1, 0], rot[1, 1] = 0.0, -1.0, 1.0, 0.0
        others = [("size", g.resize(tuple(m + 1 for m in n))), ("center", g.center(g.center() + 0.01 * g.spacing())), ("spacing", g.spacing(g.spacing() * 1.01)),
                  ("direction", g.direction(rot @ g.direction())), ("one axis", g.resize(tuple(m + (1 if i == D - 1 else 0) for i, m in enumerate(n))))]
        for what, h in others:
            if g == h or not (g != h):
                ctx.violation(dict(op="Grid.__eq__", what=what, **sig0), f"a grid with another {what} compares equal", c)
            if what != "size" and what != "one axis" and g.cube() == h.cube():
                ctx.violation(dict(op="Cube.__eq__", what=what, **sig0), f"the cube of a grid with another {what} compares equal", c)
        if g == g.cube() or g == "grid":
            ctx.violation(dict(op="Grid.__eq__", what="type", **sig0), "a grid compares equal to an object of another type", c)
        # a cube rebuilt from its own flat description (center form, origin form, list / ndarray) is the same cube
        cu = g.cube()
        flat_c = cu.extent().tolist() + cu.center().tolist() + cu.direction().flatten().tolist()
        flat_o = cu.extent().tolist() + cu.origin().tolist() + cu.direction().flatten().tolist()
        import numpy as _np

        for form, mk in (("from_seq", lambda: Cube.from_seq(flat_c)), ("from_seq(origin)", lambda: Cube.from_seq(flat_o, origin=True)),
                         ("from_numpy", lambda: Cube.from_numpy(_np.asarray(flat_c))), ("from_numpy(list, origin)", lambda: Cube.from_numpy(flat_o, origin=True)),
                         ("numpy round trip", lambda: Cube.from_numpy(cu.numpy())), ("direction flat", lambda: cu.direction(*cu.direction().flatten().tolist()))):
            try:
                c2_ = mk()
                if max_err(c2_.center(), cu.center()) > 1e-4 * max(1.0, float(cu.center().abs().max())) or max_err(c2_.extent(), cu.extent()) > 1e-5 * float(cu.extent().max()) \
                        or max_err(c2_.direction(), cu.direction()) > 1e-5:
                    ctx.violation(dict(op="Cube." + form, what="values", **sig0), f"Cube.{form} of the grid's cube gives {c2_!r}, expected {cu!r}", c)
            except Exception as ex:
                ctx.violation(dict(op="Cube." + form, exc=type(ex).__name__, **sig0), f"Cube.{form} raised {type(ex).__name__}: {str(ex)[:100]}", c)
    except Exception as ex:
        ctx.violation(dict(op="Grid.__eq__", exc=type(ex).__name__, **sig0), f"comparing grids raised {type(ex).__name__}: {str(ex)[:100]}", c)
    ctx.count(key=("grid", json.dumps(c["g"], sort_keys=True)))


def check_lattice_case(ctx: Ctx, c: Dict[str, Any]) -> None:
    from deepali.core.grid import Grid

    n, ac = c["n"], bool(c["ac"])
    first, step = F(c["first"]), F(c["step"])
    g = Grid(size=(n, 3), align_corners=not ac)  # grid default differs: explicit flag must win
    co = g.coords(dim=0, align_corners=ac).to(torch.float64)
    sig = dict(op="Grid.coords", what="lattice", norm_ac=ac)
    if co.numel() != n:
        ctx.violation(dict(**sig, kind="count", n=n), f"coords(dim, align_corners={ac}) for n={n} has {co.numel()} samples", c)
        return
    exp = torch.tensor([float(first + k * step) for k in range(n)], dtype=torch.float64)
    err = max_err(co, exp)
    if err > 4e-6:
        ctx.violation(dict(**sig, kind="values", n=n), f"coords for n={n}, align_corners={ac} off by {err:.3g}", c)
    if co.min() < -1 - 1e-6 or co.max() > 1 + 1e-6:
        ctx.violation(dict(**sig, kind="range", n=n), f"coords for n={n} leave [-1, 1]", c)
    if n > 1 and not bool((co[1:] > co[:-1]).all()):
        ctx.violation(dict(**sig, kind="monotone", n=n), f"coords for n={n} are not strictly increasing", c)
    # default flag of the grid
    g2 = Grid(size=(n,) * 2, align_corners=ac)
    if g2.coords(dim=1).numel() != n or max_err(g2.coords(dim=1).to(torch.float64), exp) > 4e-6:
        ctx.violation(dict(**sig, kind="default_flag", n=n), f"coords(dim) with the grid's own align_corners={ac} is wrong for n={n}", c)
    ctx.count(key=("lattice", n, ac), nontrivial=n > 1)


def selftest_binding(ctx: Ctx, cases: List[dict]) -> None:
    """Corrupt one expected value and require the comparison to reject it (binding self-test)."""
    probe = Ctx(ctx.prop, ctx.tier, ctx.seed)
    probe.findings = []
    c = json.loads(json.dumps(next(x for x in cases if x.get("kind") == "map" and x["a"] != x["b"] and not x["vec"])))
    c["M"][0][0] = [c["M"][0][0][0] * 2 + 3 * c["M"][0][0][1], c["M"][0][0][1] * 2]  # M00 := M00 + 3/2
    check_map_case(probe, c)
    if not probe.violations:
        raise MachineryError("binding self-test failed: a corrupted expected matrix was accepted")
    ctx.notes["binding_selftest"] = "corrupted expected matrix entry rejected"


def run(ctx: Ctx) -> None:
    tier = ctx.tier
    ctx.rule = ("every leaf of the Grid.tla configuration tree (rotation x size x spacing x centre x align_corners x "
                "16 axes pairs x points/vectors x {same grid, other grids}) is one case; non-trivial = source and "
                "target coordinate systems differ; plus one case per (n, align_corners) of the per-axis lattice model")
    # model: laws
    res = ctx.tlc("MC_Grid", cfg(tier, emit=False, invariants=True), label="laws", timeout=3000)
    # model: emission
    res = ctx.tlc("MC_Grid", cfg(tier, emit=True, invariants=False), label="emit", timeout=3000)
    cases = json_lines(res, key=None)
    maps = [c for c in cases if c.get("kind") == "map"]
    grids = [c for c in cases if c.get("kind") == "grid"]
    if len(maps) + len(grids) == 0 or len(maps) + len(grids) < 0.99 * res.distinct - 60:
        raise MachineryError(f"emission incomplete: {len(maps)}+{len(grids)} cases for {res.distinct} states")
    for i, c in enumerate(maps):
        check_map_case(ctx, c, variant=i + ctx.seed)
    for c in grids:
        check_grid_case(ctx, c)
    ctx.sample({k: maps[len(maps) // 3][k] for k in ("g", "a", "b", "vec", "g2", "M")})
    ctx.sample({k: maps[-1][k] for k in ("g", "a", "b", "vec", "g2", "M")})
    selftest_binding(ctx, cases)
    # per-axis lattice, exhaustive in n
    maxn = 600 if tier == "quick" else 4096
    lcfg = f"SPECIFICATION Spec\nCONSTANTS\n  MaxN = {maxn}\n  EmitCases = {{emit}}\n{{inv}}CONSTRAINT Emit\n"
    ctx.tlc("GridCoords", lcfg.format(emit="FALSE", inv="INVARIANT LatticeLaw\n"), label="lattice-laws", timeout=3000)
    res = ctx.tlc("GridCoords", lcfg.format(emit="TRUE", inv=""), label="lattice-emit", timeout=3000)
    lat = json_lines(res, key=None)
    if len(lat) != 2 * maxn:
        raise MachineryError(f"lattice emission incomplete: {len(lat)} != {2 * maxn}")
    for c in lat:
        check_lattice_case(ctx, c)
    ctx.sample(lat[7])
    ctx.exhaustive = False
    ctx.notes["lattice_exhaustive_n"] = [1, maxn]
    ctx.traces = len(maps) + len(grids) + len(lat)
    ctx.assumptions += [
        "rotations restricted to the rational sub-family (signed permutations, Pythagorean and rational-quaternion rotations, one flip each)",
        "configuration lattice is finite; Discriminates (checked by TLC on the quick lattice) shows the 16 maps of every quick-lattice grid are pairwise distinct",
        "tolerance policy: float32 paths rtol 2e-5, atol 2e-6 of the case scale; documented default rounding added where used",
    ]
