"""X10 (beyond the listed properties) - B-spline interpolation weight tables of every degree (spec: BSplineDegrees, Cox-de Boor recursion)."""
from __future__ import annotations

import json
from typing import Any, Dict

import torch

from ..core import Ctx
from ..rat import F, fl
from ..tol import max_err
from ..tlc import MachineryError, json_lines

CFG = "SPECIFICATION Spec\nCONSTANTS\n  Degrees = {{2, 3, 4, 5}}\n  Strides = {strides}\n  EmitCases = {emit}\n{inv}CONSTRAINT Emit\n"


def check_case(ctx: Ctx, c: Dict[str, Any]) -> None:
    import deepali.core.bspline as B

    n, s = c["n"], c["s"]
    W = torch.tensor(fl(F(c["W"])), dtype=torch.float64)
    for dtype, tol in ((torch.float64, 1e-12), (torch.float32, 2e-6)):
        try:
            w = B.bspline_interpolation_weights(degree=n, stride=s, dtype=dtype)
        except Exception as ex:
            ctx.violation(dict(op="bspline_interpolation_weights", degree=n, exc=type(ex).__name__), f"bspline_interpolation_weights(degree={n}, stride={s}) raised {type(ex).__name__}: {ex}", c)
            continue
        if tuple(w.shape) != (s, n + 1) or max_err(w, W) > tol:
            ctx.violation(dict(op="bspline_interpolation_weights", degree=n, what="values"),
                          f"bspline_interpolation_weights(degree={n}, stride={s}) differs from the Cox-de Boor table by {max_err(w, W) if tuple(w.shape) == (s, n + 1) else 'shape'}; "
                          f"first row {w[0].tolist()}, specification {W[0].tolist()}", c)
    try:
        ws = B.bspline_interpolation_weights(degree=n, stride=[s, 1, s], dtype=torch.float64)
        if len(ws) != 3 or max_err(ws[0], W) > 1e-12 or max_err(ws[2], W) > 1e-12 or tuple(ws[1].shape) != (1, n + 1):
            ctx.violation(dict(op="bspline_interpolation_weights", degree=n, what="sequence"), f"bspline_interpolation_weights(degree={n}, stride=[{s}, 1, {s}]) differs from the per-stride tables", c)
    except Exception as ex:
        ctx.violation(dict(op="bspline_interpolation_weights", degree=n, form="sequence", exc=type(ex).__name__), f"sequence form raised {type(ex).__name__}: {ex}", c)
    ctx.count(key=json.dumps([n, s]), nontrivial=True)


def run(ctx: Ctx) -> None:
    strides = "{1, 2, 3, 4}" if ctx.tier == "quick" else "{1, 2, 3, 4, 5, 6, 8}"
    ctx.rule = "one case per (degree in 2..5, stride): the whole weight table against the Cox-de Boor recursion evaluated exactly by TLC"
    ctx.tlc("BSplineDegrees", CFG.format(strides=strides, emit="FALSE", inv="INVARIANT Laws\n"), label="laws", timeout=3000)
    res = ctx.tlc("BSplineDegrees", CFG.format(strides=strides, emit="TRUE", inv=""), label="emit", timeout=3000)
    cases = [c for c in json_lines(res, key=None) if "W" in c]
    if len(cases) < 8:
        raise MachineryError("no cases")
    for c in cases:
        check_case(ctx, c)
    ctx.traces = len(cases)
    ctx.sample(cases[0])
    probe = Ctx(ctx.prop, ctx.tier, ctx.seed)
    probe.findings = []
    c = json.loads(json.dumps(cases[-1]))
    c["W"][0][0] = [c["W"][0][0][0] + c["W"][0][0][1], c["W"][0][0][1]]
    check_case(probe, c)
    if not probe.violations:
        raise MachineryError("binding self-test failed")
    ctx.notes["binding_selftest"] = "perturbed table rejected"


def replay(ctx: Ctx, data: Dict[str, Any]) -> None:
    check_case(ctx, data["case"])
