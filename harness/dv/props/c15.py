"""C15 - no hidden mutation: functions leave inputs alone, copies leave originals alone (spec: Heap, Trace_Heap)."""
from __future__ import annotations

import copy
import inspect
import itertools
import json
from typing import Any, Callable, Dict, List, Optional, Tuple

import torch
from torch import Tensor

from ..core import Ctx
from ..tlc import MachineryError, json_lines
from ..trace import validate

CFG = "SPECIFICATION Spec\nCONSTANTS\n  NCells = 4\n  MaxLen = {maxlen}\n  EmitCases = {emit}\n{inv}CONSTRAINT Emit\n"
TRACE_CFG = "SPECIFICATION TSpec\nCONSTANTS\n  NCells = 4\n  MaxLen = 0\n  EmitCases = FALSE\nCONSTRAINT Report\nPOSTCONDITION Consumed\n"


# ------------------------------------------------------------------------------------------ part A: write sets of functions
def candidates(name: str, D: int, form: str) -> List[Any]:
    """Candidate values for a required parameter, by name."""
    from deepali.core.grid import Grid

    sp = (6, 7) if D == 2 else (5, 6, 7)
    g = torch.Generator().manual_seed(len(name) + D)

    def T(*shape, dtype=torch.float32):
        t = torch.rand(*shape, generator=g) * 2 + 0.5
        if form == "int":
            t = (t * 4).round()
        if form == "noncontig" and t.ndim >= 3:
            t = t.transpose(-1, -2).contiguous().transpose(-1, -2)
        if form == "grad" and dtype.is_floating_point:
            t.requires_grad_(True)
        return t.to(dtype) if dtype != torch.float32 else t

    img = lambda c=1: T(2, c, *sp)  # noqa: E731
    flow = lambda: (T(2, D, *sp) - 1.5) * 0.1  # noqa: E731
    pts = lambda: T(2, 5, D) - 1.5  # noqa: E731
    mat = lambda: T(2, D, D + 1)  # noqa: E731
    grid_obj = Grid(size=tuple(reversed(sp)))
    labels_ = torch.randint(0, 3, (2, 1, *sp), generator=g)
    by = {
        "data": [img(2), img(1), flow()], "input": [img(2), img(1)], "image": [img(1)], "tensor": [img(2), T(4, D), mat(), labels_], "x": [img(1), T(5, D), T(5)],
        "a": [mat(), T(2, D, D), T(2, D, 1), T(D), T(5, D), img(1)], "b": [mat(), T(2, D, D), T(2, D, 1), T(D), T(5, D), img(1)], "y": [img(1), T(5, D), T(5)], "arr": [T(4, 3), [1.0, 2.0]],
        "flow": [flow()], "u": [flow()], "v": [flow()], "grid": [grid_obj.coords().unsqueeze(0).expand(2, *sp, D).clone(), grid_obj],
        "points": [pts()], "coords": [pts(), grid_obj.coords().unsqueeze(0)], "vectors": [pts()], "transform": [mat(), flow()], "transforms": [mat()],
        "matrix": [mat(), T(2, 3, 3), T(2, 3, 4)], "quaternion": [torch.nn.functional.normalize(T(2, 4), dim=-1)], "angle_axis": [T(2, 3) - 1.5],
        "angles": [T(2, 3) - 1.5, T(2, 1)], "rotation_matrix": [torch.eye(3).repeat(2, 1, 1)], "kernel": [T(3), T(5)], "size": [tuple(reversed(sp)), 8],
        "shape": [sp, 8], "kernel_size": [3], "stride": [2, 1], "dim": [0, 1, 2], "indices": [torch.tensor([[1, 2], [0, 3]]), torch.tensor([3, 7])],
        "index": [torch.tensor([3, 7])], "num_samples": [4], "exponent": [2], "arg": [img(1), 1.5], "num_classes": [3], "source": [img(1)], "target": [img(1)],
        "pos": [0], "min": [0.0], "scales": [T(2, D)], "offset": [T(2, D)], "degree": [3], "sdim": [0], "levels": [1], "margin": [1],
        "in_spacing": [1.0], "out_spacing": [0.5], "mask": [(img(1) > 1.2).float()], "weight": [img(1)], "mean": [T(2, 4)], "logvar": [T(2, 4)],
        "logits": [img(2) - 1.5], "forward": [flow(), mat()], "inverse": [flow(), mat()], "loss": [img(1)], "name": ["loss"], "loss_fn": [lambda a, b, reduction="mean": (a - b).abs()],
        "sigma": [1.0], "spacing": [1.0], "labels": [torch.randint(0, 3, (2, *sp), generator=g), labels_], "other": [img(1)], "kernels": [[T(3)] * D],
    }
    return by.get(name, [])


def snapshot(args: Dict[str, Any]) -> Dict[str, Tuple[Tensor, int]]:
    snap = {}
    for k, v in args.items():
        if isinstance(v, Tensor):
            snap[k] = (v.detach().clone(), v._version)
        elif isinstance(v, (list, tuple)) and v and all(isinstance(e, Tensor) for e in v):
            for i, e in enumerate(v):
                snap[f"{k}[{i}]"] = (e.detach().clone(), e._version)
    return snap


def changed(args: Dict[str, Any], snap) -> List[str]:
    out = []
    for k, (val, ver) in snap.items():
        if "[" in k:
            base, i = k[:-1].split("[")
            cur = args[base][int(i)]
        else:
            cur = args[k]
        same = cur.shape == val.shape and bool(torch.equal(cur.detach(), val) or (torch.isnan(val) & torch.isnan(cur.detach())).all())
        if not same or cur._version != ver:
            out.append(k)
    return out


OPTION_VALUES = {
    "padding": [0.5, "border", "reflection", 1], "mode": ["nearest", "linear", "bilinear", "zscore", "center", "unit", "constant", "replicate"], "align_corners": [True, False], "normalize": [True, False],
    "binarize": [True, False], "inplace": [], "out": [], "reduction": ["none", "sum"], "eps": [1e-3], "sigma": [1.0], "spacing": [0.5], "stride": [2],
    "weight": [], "mask": [], "steps": [2], "scale": [0.5], "value": [0.5], "min": [0.25], "max": [1.5], "dim": [1], "dtype": [torch.float64],
    "kernel_size": [3], "squared": [True, False], "which": ["forward"], "sampling": ["nearest"], "bins": [8], "num_bins": [8], "num_samples": [16],
    "alpha": [0.3], "beta": [0.7], "gamma": [2.0], "epsilon": [1e-3], "channels_last": [True], "flip_coords": [True], "batched": [True],
    "decimals": [2], "vectors": [True], "keepdim": [True], "count_include_pad": [False], "ceil_mode": [True], "sdim": [0], "data_min": [0.0], "data_max": [2.0],
}


def option_sweep(name, fn, sig, base_args, D, allowed) -> List[dict]:
    """Each optional parameter alone, and every pair of boolean options, on fresh copies of the successful required arguments."""
    opts = [p for p in sig.parameters.values() if p.default is not inspect._empty and p.kind in (p.POSITIONAL_OR_KEYWORD, p.KEYWORD_ONLY)]
    plans: List[Dict[str, Any]] = []
    for p in opts:
        vals = OPTION_VALUES.get(p.name)
        if vals is None and isinstance(p.default, bool):
            vals = [not p.default]
        for v in vals or []:
            if not (isinstance(v, type(p.default)) and v == p.default):
                plans.append({p.name: v})
    names = {p.name for p in opts}
    if {"min", "max"} <= names:  # intensity ranges that make the rescaling an identity (an op that is a no-op may return / clamp the argument itself)
        plans += [{"min": 0.0, "max": 1.0}, {"min": -0.5, "max": 0.5, **({"mode": "center"} if "mode" in names else {})}, {"min": 1.0, "max": 2.0}]
        if "mode" in names:
            plans += [{"mode": "zscore", "min": 1.0, "max": 2.0}, {"mode": "unit", "min": 0.0, "max": 1.0}]
    # options given as TENSORS the caller keeps (per-axis sigma / spacing / scale ...), alone and with a subset of the dimensions
    tens = {"sigma": torch.tensor([0.8, 1.2, 1.0][:D]), "spacing": torch.tensor([0.5, 2.0, 1.5][:D]), "scale": torch.tensor(0.5), "size": torch.tensor([8.0, 9.0, 7.0][:D]),
            "offset": torch.tensor([0.5, -1.0, 0.25][:D]), "weight": None, "min": torch.tensor(0.25), "max": torch.tensor(1.5), "stride": torch.tensor([2] * D),
            "kernel_size": torch.tensor([3] * D), "margin": torch.tensor([1] * D), "num": torch.tensor([1] * D), "shape": torch.tensor([8, 9, 7][:D])}
    for nm in sorted(names & set(tens)):
        if tens[nm] is not None:
            plans.append({nm: tens[nm]})
            plans.append({nm: tens[nm].double()})
            if "dims" in names:
                for dd in ((0,), (D - 1,)):
                    plans.append({nm: tens[nm], "dims": dd})
    if "dims" in names:
        plans += [{"dims": (0,)}, {"dims": (D - 1,)}]
    # masks / weight maps given as float32, float64, uint8 and bool tensors shaped like the first image argument, alone and in pairs
    first_img = next((v for v in base_args.values() if isinstance(v, Tensor) and v.ndim >= 4), None)
    mask_names = sorted(names & {"mask", "source_mask", "target_mask", "weight"})
    if first_img is not None and mask_names:
        gm = torch.Generator().manual_seed(7)
        m0 = (torch.rand((first_img.shape[0], 1) + tuple(first_img.shape[2:]), generator=gm) > 0.3)
        for cast in (lambda t: t.float(), lambda t: t.double(), lambda t: t.to(torch.uint8), lambda t: t):
            for nm in mask_names:
                plans.append({nm: cast(m0)})
            for nm1, nm2 in itertools.combinations(mask_names, 2):
                plans.append({nm1: cast(m0), nm2: cast(~m0 | m0.roll(1, -1))})
    if "ignore_index" in names:
        plans += [{"ignore_index": 1}, {"ignore_index": 0}]
    bools = [p for p in opts if isinstance(p.default, bool) and p.name not in ("inplace",)]
    for p, q in itertools.combinations(bools, 2):
        plans.append({p.name: not p.default, q.name: not q.default})
    evs = []
    for kw in plans:
        args = {k: (v.detach().clone().requires_grad_(v.requires_grad) if isinstance(v, Tensor) else v) for k, v in base_args.items()}
        kw = {k: (v.detach().clone() if isinstance(v, Tensor) else v) for k, v in kw.items()}
        allargs = {**args, **kw}
        form_s = "options " + " ".join(repr(kw).split())[:70]
        snap = snapshot(allargs)
        try:
            fn(**args, **kw)
        except RuntimeError as ex:
            if "in-place" in str(ex) or "inplace" in str(ex):
                evs.append(dict(call=name, D=D, form="options " + repr(kw), written=["<autograd: in-place on argument>"], allowed=allowed, err=str(ex)[:120]))
            continue
        except Exception:
            continue
        evs.append(dict(call=name, D=D, form=form_s, written=changed(allargs, snap), allowed=allowed))
    return evs


def catalogue() -> List[Tuple[str, Callable]]:
    import deepali.core.functional as U
    import deepali.losses.functional as L

    cat = [(f"core.{n}", getattr(U, n)) for n in U.__all__ if callable(getattr(U, n))]
    cat += [(f"losses.{n}", f) for n, f in vars(L).items() if inspect.isfunction(f) and f.__module__ == L.__name__ and not n.startswith("_")]
    return cat


def record_calls(ctx: Ctx, forms: List[str]) -> Tuple[List[List[dict]], List[str]]:
    traces = []
    uncovered = []
    for name, fn in catalogue():
        try:
            sig = inspect.signature(fn)
        except (TypeError, ValueError):
            uncovered.append(name)
            continue
        req = [p for p in sig.parameters.values() if p.default is inspect._empty and p.kind in (p.POSITIONAL_OR_KEYWORD, p.POSITIONAL_ONLY)]
        allowed = []  # functions of the functional namespaces write nothing (in-place variants are opt-in keyword flags)
        evs = []
        covered = False
        for D, form in itertools.product((2, 3), forms):
            cands = [candidates(p.name, D, form) for p in req]
            if any(len(c) == 0 for c in cands):
                break
            done = False
            ndone = 0
            for combo in itertools.islice(itertools.product(*cands), 40):
                args = {p.name: v for p, v in zip(req, combo)}
                snap = snapshot(args)
                try:
                    with torch.enable_grad():
                        fn(**args)
                except RuntimeError as ex:
                    msg = str(ex)
                    if "in-place" in msg or "inplace" in msg:  # autograd caught a hidden in-place write on an argument
                        evs.append(dict(call=name, D=D, form=form, written=["<autograd: in-place on argument>"], allowed=allowed, err=msg[:120]))
                        done = True
                        break
                    continue
                except Exception:
                    continue
                evs.append(dict(call=name, D=D, form=form if not done else form + f" #{ndone}", written=changed(args, snap), allowed=allowed))
                if not done and form == "plain":
                    evs.extend(option_sweep(name, fn, sig, args, D, allowed))
                done = True
                ndone += 1
                # functions of two or more tensor operands accept several operand FORMS (vector / square / homogeneous ...): every accepted combination
                # of the candidates is one more call (up to a bound); single-operand functions are done after the first
                if len(req) < 2 or ndone >= 12:
                    break
            covered = covered or done
        if not covered:
            uncovered.append(name)
        if evs:
            tr = [dict(call=name, written=[], allowed=[], k=0)] + evs
            for k, e in enumerate(tr):
                e["k"] = k
            traces.append(tr)
    return traces, uncovered


# ------------------------------------------------------------------------------------------ part B: copy / mutate histories
class Obj:
    """Adapter: an object kind with a shared attribute A (cell 1/3) and an attribute B changed by the accessor (cell 2/3|4)."""

    def __init__(self, kind: str):
        self.kind = kind

    def make(self):
        import deepali.spatial as S
        from deepali.core.cube import Cube
        from deepali.core.grid import Grid
        from deepali.data.flow import FlowField
        from deepali.data.image import Image

        k = self.kind
        if k == "Grid":
            return Grid(size=(5, 4), spacing=(1.0, 1.0), center=(0.0, 0.0))
        if k == "Cube":
            return Cube(extent=(4.0, 3.0), center=(0.0, 0.0))
        if k == "Image":
            return Image(torch.zeros(1, 4, 5), Grid(size=(5, 4), center=(0.0, 0.0)))
        if k == "FlowField":
            return FlowField(torch.zeros(2, 4, 5), Grid(size=(5, 4), center=(0.0, 0.0)), "world")
        if k == "ImageBatch":
            from deepali.data.image import ImageBatch

            return ImageBatch(torch.zeros(2, 1, 4, 5), [Grid(size=(5, 4), center=(0.0, 0.0)), Grid(size=(5, 4), center=(0.0, 7.0))])
        if k == "FlowFields":
            from deepali.data.flow import FlowFields

            return FlowFields(torch.zeros(2, 2, 4, 5), [Grid(size=(5, 4), center=(0.0, 0.0)), Grid(size=(5, 4), center=(0.0, 7.0))], "world")
        if k.startswith("Translation"):
            return S.Translation(Grid(size=(5, 4)), params=(k.endswith("param")))
        if k.startswith("DDF"):
            return S.DisplacementFieldTransform(Grid(size=(5, 4)), params=(k.endswith("param")))
        raise ValueError(k)

    # value encodings: version v -> attribute value
    def set_A(self, o, v):  # in-place change of the "shared" attribute through an underscore method / in-place tensor edit
        k = self.kind
        if k == "Grid":
            o.spacing_((1.0 + v, 1.0))
        elif k == "Cube":
            o.extent_((4.0 + v, 3.0))
        elif k in ("Image", "FlowField", "ImageBatch", "FlowFields"):
            with torch.no_grad():
                o.fill_(float(v))
        else:
            with torch.no_grad():
                o.params.fill_(float(v) * 0.125)

    def get_A(self, o) -> int:
        k = self.kind
        if k == "Grid":
            return int(round(float(o.spacing()[0]) - 1.0))
        if k == "Cube":
            return int(round(float(o.extent()[0]) - 4.0))
        if k in ("Image", "FlowField", "ImageBatch", "FlowFields"):
            return int(round(float(o.tensor().reshape(-1)[0])))
        return int(round(float(o.params.detach().reshape(-1).median()) / 0.125))  # median: a grid change resamples a dense field (padding at the border)

    # a grid change RESAMPLES a dense displacement field: keep the shifts of its grid small so that the field stays inside
    def bstep(self) -> float:
        return 0.125 if self.kind.startswith("DDF") else 1.0

    def new_grids(self, v):
        from deepali.core.grid import Grid

        g = Grid(size=(5, 4), center=(float(v) * self.bstep(), 0.0))
        return [g, Grid(size=(5, 4), center=(float(v) * self.bstep(), 7.0))] if self.kind in ("ImageBatch", "FlowFields") else g

    def first_grid(self, o):
        return o.grid(0) if self.kind in ("ImageBatch", "FlowFields") else o.grid()

    def set_B(self, o, v, inplace_grid: bool = False):
        k = self.kind
        if k in ("Grid", "Cube"):
            o.center_((float(v), 0.0))
        elif inplace_grid and not isinstance(o, torch.nn.Module):
            # modify the Grid object the image holds, through its own underscore method (the grid is part of the object)
            self.first_grid(o).center_((float(v) * self.bstep(), 0.0))
        else:
            o.grid_(self.new_grids(v))

    def with_B(self, o, v):  # accessor: NEW object with B changed
        from deepali.core.grid import Grid

        k = self.kind
        if k in ("Grid", "Cube"):
            return o.center((float(v), 0.0))
        return o.grid(self.new_grids(v))

    def get_B(self, o) -> int:
        k = self.kind
        c = o.center() if k in ("Grid", "Cube") else self.first_grid(o).center()
        return int(round(float(c[0]) / self.bstep()))


def replay_history(ctx: Ctx, kind: str, hist: List[dict], inplace_grid: bool = False, deep_route: str = "deepcopy") -> None:
    ad = Obj(kind)
    objs = {"orig": ad.make()}
    ckind = "none"
    ver = {1: 0, 2: 0, 3: 0, 4: 0}
    sig0 = dict(kind=kind, part="copies", inplace_grid=inplace_grid, deep_route=deep_route)
    for k, st in enumerate(hist):
        a = st["a"]
        try:
            if a == "function":
                continue
            if a == "accessor":
                objs["copy"] = ad.with_B(objs["orig"], 0)
                ckind = "accessor"
            elif a == "deepcopy":
                o_ = objs["orig"]
                if deep_route == "torch.clone" and isinstance(o_, torch.Tensor):
                    objs["copy"] = torch.clone(o_)
                elif deep_route == "clone" and hasattr(o_, "clone") and not isinstance(o_, torch.nn.Module):
                    objs["copy"] = o_.clone()
                else:
                    objs["copy"] = copy.deepcopy(o_)
                ckind = "deep"
                ver[3], ver[4] = ver[1], ver[2]
            elif a == "mutate":
                o, c = st["obj"], st["args"][0]
                ver[c] += 1
                is_A = (c == 1) or (ckind == "deep" and c == 3)
                if is_A:
                    ad.set_A(objs[o], ver[c])
                else:
                    ad.set_B(objs[o], ver[c], inplace_grid)
            elif a == "observe":
                o = st["obj"]
                cells = sorted(int(x) for x in st["sees"].keys()) if isinstance(st["sees"], dict) else None
                exp = st["sees"]
                got_A, got_B = ad.get_A(objs[o]), ad.get_B(objs[o])
                # which cells are A / B for this object
                if o == "orig":
                    cA, cB = 1, 2
                elif ckind == "accessor":
                    cA, cB = 1, 3
                else:
                    cA, cB = 3, 4
                eA = exp[str(cA)] if isinstance(exp, dict) else exp[cA - 1]
                eB = exp[str(cB)] if isinstance(exp, dict) else exp[cB - 1]
                if (got_A, got_B) != (eA, eB):
                    ctx.violation(dict(**sig0, copy=ckind, observed=o, what="A" if got_A != eA else "B"),
                                  f"{kind}: after {[(h['a'], h.get('obj', ''), h['args']) for h in hist[:k]]} the {o} object shows (A, B) = ({got_A}, {got_B}), "
                                  f"the specification gives ({eA}, {eB})", dict(kind=kind, hist=hist))
                    return
        except Exception as ex:
            ctx.violation(dict(**sig0, copy=ckind, step=a, exc=type(ex).__name__),
                          f"{kind}: {a} raised {type(ex).__name__}: {str(ex)[:120]} after {[h['a'] for h in hist[:k]]}", dict(kind=kind, hist=hist))
            return


def run(ctx: Ctx) -> None:
    tier = ctx.tier
    ctx.rule = ("part A: every public function of deepali.core.functional and deepali.losses.functional, called with generated arguments (2-D and 3-D; "
                "contiguous, non-contiguous, integer, requires_grad forms), one recorded write set per call validated by Trace_Heap; part B: every history "
                "of {accessor copy, deep copy, underscore mutation of either object, observation} up to the length bound from Heap.tla replayed on "
                "Grid, Cube, Image, FlowField and transforms")
    maxlen = 4 if tier == "quick" else 5
    ctx.tlc("Heap", CFG.format(maxlen=maxlen, emit="FALSE", inv="PROPERTY Frame\nPROPERTY Independent\n"), label="laws", timeout=3000)
    res = ctx.tlc("Heap", CFG.format(maxlen=maxlen, emit="TRUE", inv=""), label="emit", timeout=3000)
    hists = [h["hist"] for h in json_lines(res, key=None)]
    hists = [h for h in hists if not any(s["a"] == "function" for s in h)]
    if not hists:
        raise MachineryError("no histories")
    kinds = ["Grid", "Cube", "Image", "FlowField", "ImageBatch", "FlowFields", "Translation:tensor", "Translation:param", "DDF:tensor", "DDF:param"]
    for kind in kinds:
        for h in hists:
            replay_history(ctx, kind, h)
            if kind in ("Image", "FlowField", "ImageBatch", "FlowFields"):
                replay_history(ctx, kind, h, inplace_grid=True)
            if any(st["a"] == "deepcopy" for st in h) and kind in ("Grid", "Cube", "Image", "FlowField", "ImageBatch", "FlowFields"):
                for route in ("clone", "torch.clone"):   # clone() / torch.clone() are deep copies too: data AND grids
                    replay_history(ctx, kind, h, inplace_grid=kind not in ("Grid", "Cube"), deep_route=route)
            ctx.count(key=(kind, json.dumps(h)), nontrivial=any(s["a"] == "mutate" for s in h))
    ctx.notes["copy_histories"] = len(hists)
    ctx.sample(dict(kind="Grid", hist=hists[len(hists) // 2]))
    forms = ["plain", "noncontig", "grad"] if tier == "quick" else ["plain", "noncontig", "int", "grad"]
    traces, uncovered = record_calls(ctx, forms)
    from ..mutlib import sweep
    mev, mstats = sweep(kinds=None if tier == "thorough" or True else None)
    bycall: Dict[str, List[dict]] = {}
    for e in mev:
        bycall.setdefault(e["call"], []).append(e)
    ntr_functions = len(traces)
    for call, evs in sorted(bycall.items()):
        tr = [dict(call=call, written=[], allowed=[], k=0)] + evs
        for k, e in enumerate(tr):
            e["k"] = k
        traces.append(tr)
    ctx.notes["method_sweep"] = mstats
    rej, nval = validate(ctx, "Trace_Heap", TRACE_CFG, traces, all_rejections=True)
    for tid, lst in rej.items():
        for line, call in lst:
            e = traces[tid][line]
            if "recv" in e:
                ctx.violation(dict(call=call, part="methods", recv=e["recv"].split(":")[0], written=sorted(set(e["written"]) - set(e["allowed"]))),
                              f"{call}({e['plan']}) on a {e['recv']} receiver (D={e['D']}) changes {sorted(set(e['written']) - set(e['allowed']))} outside its write set",
                              dict(method=call, recv=e["recv"], D=e["D"]))
            else:
                ctx.violation(dict(call=call, part="functions", written=sorted(e["written"])),
                              f"{call} (D={e.get('D')}, {e.get('form')}) modifies its argument(s) {e['written']} {e.get('err', '')}", dict(function=call))
    ncalls = sum(len(t) - 1 for t in traces)
    ctx.count(n=ncalls)
    ctx.traces = nval + len(hists) * len(kinds)
    ctx.notes["functions_in_catalogue"] = len(catalogue())
    ctx.notes["functions_called"] = ntr_functions
    ctx.notes["calls_recorded"] = ncalls
    ctx.notes["functions_without_argument_recipe"] = uncovered
    ctx.sample(dict(recorded_call=traces[3][1] if len(traces) > 3 else traces[0]))
    if ntr_functions < 0.6 * len(catalogue()):
        raise MachineryError(f"argument recipes cover only {ntr_functions} of {len(catalogue())} public functions")
    # binding self-test
    probe = Ctx(ctx.prop, ctx.tier, ctx.seed)
    bad = [[dict(call="x", written=[], allowed=[], k=0), dict(call="core.fake", written=["data"], allowed=[], k=1)]]
    r2, _ = validate(probe, "Trace_Heap", TRACE_CFG, bad, label="trace-selftest", all_rejections=True)
    if not r2:
        raise MachineryError("binding self-test failed")
    ctx.notes["binding_selftest"] = "a recorded write outside the write set rejected by Trace_Heap"
    ctx.assumptions += ["argument recipes are generated from parameter names; functions for which no recipe produced a successful call are listed, not judged",
                        "object histories use two attributes per object kind (a shared one and the one the accessor changes)"]


def replay(ctx: Ctx, data: Dict[str, Any]) -> None:
    c = data["case"]
    if "hist" in c:
        replay_history(ctx, c["kind"], c["hist"])
        replay_history(ctx, c["kind"], c["hist"], inplace_grid=True)
        return
    if "method" in c:
        from ..mutlib import sweep
        evs, _ = sweep(Ds=(c["D"],), kinds={c["recv"].split(":")[0]})
        for e in evs:
            if e["call"] == c["method"] and set(e["written"]) - set(e["allowed"]):
                ctx.violation(dict(call=e["call"], part="methods"), f"{e['call']}({e['plan']}) changes {e['written']}", c)
        return
    traces, _ = record_calls(ctx, ["plain", "noncontig", "grad", "int"])
    for tr in traces:
        for e in tr[1:]:
            if e["call"] == c["function"] and set(e["written"]) - set(e["allowed"]):
                ctx.violation(dict(call=e["call"], part="functions"), f"{e['call']} ({e.get('form')}) modifies {e['written']}", c)
