"""C16 - image similarity and overlap losses satisfy their defining axioms (spec: Loss, Trace_Loss)."""
from __future__ import annotations

import json
import random
from typing import Any, Callable, Dict, List, Optional

import torch

from ..core import Ctx
from ..rat import F, fl
from ..tol import max_err
from ..tlc import MachineryError, json_lines
from ..trace import micro, validate

CFG = ("SPECIFICATION Spec\nCONSTANTS\n  Pairs <- QPairs\n  Masks <- QMasks\n  SegPairs <- QSegPairs\n  EmitCases = {emit}\n{inv}CONSTRAINT Emit\n")
TRACE_CFG = ("SPECIFICATION TSpec\nCONSTANTS\n  Pairs <- QPairs\n  Masks <- QMasks\n  SegPairs <- QSegPairs\n  EmitCases = FALSE\n"
             "CONSTRAINT Report\nPOSTCONDITION Consumed\n")


def img(v: List[int]) -> torch.Tensor:
    return torch.tensor(v, dtype=torch.float32).reshape(1, 1, 2, 3)


def check_layer1(ctx: Ctx, c: Dict[str, Any]) -> None:
    import deepali.losses.functional as L
    import deepali.losses.image as LI

    def bad(op, msg, **kw):
        ctx.violation(dict(op=op, layer=1, **kw), f"{op}: {msg}", c)

    def guarded(op, fn, **kw):
        try:
            return fn()
        except Exception as ex:
            bad(op, f"raised {type(ex).__name__}: {str(ex)[:140]}", exc=type(ex).__name__, **kw)
            return None

    def near(a, b):
        return abs(float(a) - float(b)) <= 1e-5 * max(1.0, abs(float(b)))

    if c["kind"] == "point":
        x, y = img(c["x"]), img(c["y"])
        m = img(c["m"]) if c["m"] else None
        value = float(fl(F(c["value"])))
        none = torch.tensor(fl(F(c["none"])), dtype=torch.float64).reshape(1, 1, 2, 3)
        norm = c["norm"] if c["norm"] > 0 else None
        fns = {"ssd": [("ssd_loss", L.ssd_loss)], "mae": [("mae_loss", L.mae_loss), ("l1_loss", L.l1_loss)]}[c["loss"]]
        if c["loss"] == "ssd" and c["red"] == "mean":
            fns.append(("mse_loss", L.mse_loss))
        for name, fn in fns:
            kw = dict(mask_given=m is not None, red=c["red"], norm=bool(norm))
            v = guarded(name, lambda: fn(x, y, mask=m, norm=norm, reduction=c["red"]), **kw)
            if v is not None and not near(v, value):
                bad(name, f"(mask={'yes' if m is not None else 'no'}, reduction={c['red']}, norm={norm}) = {float(v)}, definition gives {value}", **kw)
            nn = guarded(name, lambda: fn(x, y, mask=m, reduction="none"), **kw)
            if nn is not None and (tuple(nn.shape) != tuple(none.shape) or max_err(nn, none) > 1e-5):
                bad(name, "reduction='none' differs from the per-sample definition", what="none", **kw)
        if c["loss"] == "ssd" and m is not None:
            # mask shapes: shared over batch / channels
            x2, y2 = torch.cat([x, x + 1]), torch.cat([y, y])
            x2c, y2c = torch.cat([x2, x2], dim=1), torch.cat([y2, y2], dim=1)
            for mname, mm in (("1,1", m), ("N,1", torch.cat([m, m])), ("N,C", torch.cat([m, m]).repeat(1, 2, 1, 1)), ("1,C", m.repeat(1, 2, 1, 1))):
                v = guarded("ssd_loss", lambda: L.ssd_loss(x2c, y2c, mask=mm, reduction="mean"), mask_shape=mname)
                ref = L.ssd_loss(x2c, y2c, mask=torch.cat([m, m]).repeat(1, 2, 1, 1), reduction="mean")
                if v is not None and not near(v, ref):
                    bad("ssd_loss", f"mask of shape ({mname},...) gives {float(v)}, the fully expanded mask gives {float(ref)}", mask_shape=mname, what="mask_broadcast")
        # module wrappers
        if c["red"] == "mean" and norm is None:
            cls = {"ssd": LI.L2ImageLoss, "mae": LI.L1ImageLoss}[c["loss"]]
            v = guarded(cls.__name__, lambda: cls(norm=False)(x, y, mask=m))
            if v is not None and not near(v, value):
                bad(cls.__name__, f"= {float(v)}, definition gives {value}")
    elif c["kind"] == "ncc":
        x, y = img(c["x"]), img(c["y"])
        value = float(fl(F(c["value"])))
        v = guarded("ncc_loss", lambda: L.ncc_loss(x, y))
        if v is not None and not near(v, value):
            bad("ncc_loss", f"= {float(v)}, definition 1 - a^2/(b c) gives {value}")
        v = guarded("NCC", lambda: LI.NCC()(x, y))
        if v is not None and not near(v, value):
            bad("NCC", f"= {float(v)}, definition gives {value}")
        v = guarded("ncc_loss", lambda: L.ncc_loss(torch.cat([x, y]), torch.cat([y, x]), reduction="none"), what="batch")
        if v is not None and (v.numel() != 2 or not near(v.reshape(-1)[0], value) or not near(v.reshape(-1)[1], value)):
            bad("ncc_loss", "per-item values of a batch differ from the definition", what="batch")
    else:
        p, t = img(c["p"]), img(c["t"])
        w = img(c["w"]) if c["w"] else None
        dice, tv37, tv55 = (float(fl(F(c[k]))) for k in ("dice", "tv37", "tv55"))
        kw = dict(weighted=w is not None)
        v = guarded("dice_score", lambda: L.dice_score(p, t, weight=w), **kw)
        if v is not None and not near(v, dice):
            bad("dice_score", f"= {float(v)}, definition gives {dice}", **kw)
        v = guarded("dice_loss", lambda: L.dice_loss(p, t, weight=w), **kw)
        if v is not None and not near(v, 1 - dice):
            bad("dice_loss", f"= {float(v)}, definition gives {1 - dice}", **kw)
        v = guarded("tversky_index", lambda: L.tversky_index(p, t, weight=w, alpha=0.3, beta=0.7), **kw)
        if v is not None and not near(v, tv37):
            bad("tversky_index", f"(0.3, 0.7) = {float(v)}, definition gives {tv37}", **kw)
        v = guarded("tversky_index", lambda: L.tversky_index(p, t, weight=w), **kw)
        if v is not None and not near(v, tv55):
            bad("tversky_index", f"default (1/2, 1/2) = {float(v)}, must equal Dice {tv55}", what="equals_dice", **kw)
        v = guarded("tversky_loss", lambda: L.tversky_loss(p, t, weight=w, alpha=0.3, beta=0.7), **kw)
        if v is not None and not near(v, 1 - tv37):
            bad("tversky_loss", f"= {float(v)}, definition gives {1 - tv37}", **kw)
        # documented target forms: label map (N, ..., X) and two-channel prediction with single-channel target
        v = guarded("tversky_index", lambda: L.tversky_index(p, t[:, 0].long(), weight=w, alpha=0.3, beta=0.7), form="label_map", **kw)
        if v is not None and not near(v, tv37):
            bad("tversky_index", f"label-map target gives {float(v)}, expected {tv37}", form="label_map", **kw)
        p2 = torch.cat([1 - p, p], dim=1)
        v = guarded("tversky_index", lambda: L.tversky_index(p2, t, alpha=0.3, beta=0.7, reduction="none"), form="two_channel")
        if v is not None and w is None and not near(v.reshape(-1)[-1], tv37):
            bad("tversky_index", f"two-channel prediction with single-channel target gives {v.reshape(-1).tolist()}, foreground index is {tv37}", form="two_channel")
        v = guarded("Dice", lambda: LI.Dice()(p, t, mask=w), **kw)
        if v is not None and not near(v, 1 - dice):
            bad("Dice", f"loss module gives {float(v)}, definition gives {1 - dice}", **kw)
    ctx.count(key=json.dumps(c, sort_keys=True), nontrivial=True)


# ---------------------------------------------------------------------------------------------- layer 2
def loss_table():
    import deepali.losses.functional as L

    ks = 3
    return {
        # name: (fn(x, y, mask, reduction), has_reduction, minimum, range, symmetric, affine_invariant, pointwise)
        "ssd_loss": (lambda x, y, m=None, r="sum": L.ssd_loss(x, y, mask=m, reduction=r), True, 0.0, (0.0, None), True, False, True),
        "mse_loss": (lambda x, y, m=None, r="mean": L.mse_loss(x, y, mask=m, reduction=r), True, 0.0, (0.0, None), True, False, True),
        "mae_loss": (lambda x, y, m=None, r="mean": L.mae_loss(x, y, mask=m, reduction=r), True, 0.0, (0.0, None), True, False, True),
        "l1_loss": (lambda x, y, m=None, r="mean": L.l1_loss(x, y, mask=m, reduction=r), True, 0.0, (0.0, None), True, False, True),
        "huber_loss": (lambda x, y, m=None, r="mean": L.huber_loss(x, y, mask=m, reduction=r), True, 0.0, (0.0, None), True, False, True),
        "smooth_l1_loss": (lambda x, y, m=None, r="mean": L.smooth_l1_loss(x, y, mask=m, reduction=r), True, 0.0, (0.0, None), True, False, True),
        "ncc_loss": (lambda x, y, m=None, r="mean": L.ncc_loss(x, y, mask=m, reduction=r), True, 0.0, (0.0, 1.0), True, True, False),
        "lcc_loss": (lambda x, y, m=None, r="mean": L.lcc_loss(x, y, mask=m, kernel_size=ks, reduction=r), True, 0.0, (0.0, 1.0), True, True, False),
        "wlcc_loss": (lambda x, y, m=None, r="mean": L.wlcc_loss(x, y, mask=m, kernel_size=ks, reduction=r), True, 0.0, (0.0, 1.0), True, True, False),
        "mi_loss": (lambda x, y, m=None, r=None: L.mi_loss(x, y, mask=m, num_bins=16), False, None, (None, 0.0), True, False, False),
        "nmi_loss": (lambda x, y, m=None, r=None: L.nmi_loss(x, y, mask=m, num_bins=16), False, None, (0.0, 1.0), True, False, False),
    }


def record_axioms(seed: int, ntuples: int) -> List[List[dict]]:
    rng = random.Random(seed)
    g = torch.Generator().manual_seed(seed)
    table = loss_table()
    traces = []
    for k in range(ntuples):
        D = 2 if k % 3 else 3
        N, C = rng.choice([(1, 1), (2, 1), (2, 2)])
        shape = (N, C) + ((6, 7) if D == 2 else (5, 5, 6))
        x = torch.randint(0, 10, shape, generator=g).float()
        y = torch.randint(0, 10, shape, generator=g).float()
        m = (torch.rand((N, 1) + shape[2:], generator=g) > 0.3).float()
        a, b = rng.choice([2.0, -1.5, 0.5, 3.0]), rng.choice([0.0, 4.0, -2.0])
        for name, (fn, has_red, vmin, rng_, sym, aff, pointwise) in table.items():
            evs: List[dict] = []

            def ev(ax, **kw):
                evs.append(dict(ev="ax", ax=ax, loss=name, D=D, N=N, C=C, **kw))

            def val(*args, **kw):
                return float(fn(*args, **kw))

            try:
                vxy = val(x, y)
                vyx = val(y, x)
                vxx = val(x, x)
                sc = 1e6
                cap = lambda v: micro(max(min(v, 1999.0), -1999.0))
                if vmin is not None:
                    ev("identical_min", v=cap(vxx), min=cap(vmin))
                else:  # minimum over the second argument is attained at identical inputs
                    ev("range", v=cap(vxx), lo=-2000000000, hi=cap(vxy))
                ev("range", v=cap(vxy), lo=cap(rng_[0]) if rng_[0] is not None else -2000000000, hi=cap(rng_[1]) if rng_[1] is not None else 2000000000)
                if sym:
                    ev("symmetric", v1=cap(vxy), v2=cap(vyx))
                if aff:
                    ev("invariant", v1=cap(val(a * x + b, y)), v2=cap(vxy), what=f"intensity map {a} x + {b}")
                    ev("invariant", v1=cap(val(x, a * y + b)), v2=cap(vxy), what=f"intensity map on target")
                if has_red:
                    none = fn(x, y, None, "none")
                    vm, vs = val(x, y, None, "mean"), val(x, y, None, "sum")
                    cnt = float(none.numel())
                    ev("equals", v1=cap(vm), v2=cap(float(none.sum()) / cnt), what="mean = mean of none")
                    ev("equals", v1=cap(vs / cnt), v2=cap(float(none.sum()) / cnt), what="sum = sum of none")
            except Exception as ex:
                evs.append(dict(ev="ax", ax="accepted", loss=name, D=D, N=N, C=C, exc=True, what="plain call", err=f"{type(ex).__name__}: {ex}"[:120]))
            # masks: every documented shape is accepted; pointwise losses ignore samples where the mask is zero
            for mname, mm in (("N,1", m), ("1,1", m[:1]), ("N,C", m.expand(shape).contiguous())):
                if mname == "N,C" and name in ("mi_loss", "nmi_loss"):
                    continue  # documented mask shape of the mutual information losses is (1|N, 1, ..., X)
                try:
                    vmask = val(x, y, mm) if not has_red else val(x, y, mm, "mean")
                    evs.append(dict(ev="ax", ax="accepted", loss=name, D=D, N=N, C=C, exc=False, what=f"mask {mname}"))
                    if pointwise:
                        mfull = mm.expand((N, mm.shape[1]) + shape[2:]) if mm.shape[0] == 1 else mm
                        xz = torch.where(mfull.expand(shape) == 0, x + 5, x)
                        ev("invariant", v1=micro(min(val(xz, y, mm, "mean"), 1999.0)), v2=micro(min(vmask, 1999.0)), what=f"samples with zero mask changed (mask {mname})")
                except Exception as ex:
                    evs.append(dict(ev="ax", ax="accepted", loss=name, D=D, N=N, C=C, exc=True, what=f"mask {mname}", err=f"{type(ex).__name__}: {ex}"[:120]))
            tr = [dict(ev="ax", ax="accepted", loss=name, exc=False, what="start")] + evs
            for kk, e in enumerate(tr):
                e["k"] = kk
            traces.append(tr)
        traces.extend(record_extra(rng, g, k, D, N, C, x, y, m))
    return traces


def record_extra(rng, g, k, D, N, C, x, y, m) -> List[List[dict]]:
    """Axiom instances for argument forms beyond (input, target, mask): separate source/target masks, loss modules with a normalisation factor."""
    import deepali.losses.functional as L
    import deepali.losses.image as LI
    from deepali.core.math import max_difference

    out = []
    cap = lambda v: micro(max(min(float(v), 1999.0), -1999.0))  # noqa: E731
    shape = x.shape

    def trace(name, evs):
        tr = [dict(ev="ax", ax="accepted", loss=name, exc=False, what="start")] + evs
        for kk, e in enumerate(tr):
            e["k"] = kk
        out.append(tr)

    # weighted LCC with distinct masks for the two images: exchanging (source, source_mask) with (target, target_mask) changes nothing,
    # and intensities outside an image's own mask do not matter
    ms = (torch.rand((N, 1) + shape[2:], generator=g) > 0.25).float()
    mt = (torch.rand((N, 1) + shape[2:], generator=g) > 0.25).float()
    evs = []
    try:
        f = lambda a, b, ma, mb: L.wlcc_loss(a, b, source_mask=ma, target_mask=mb, kernel_size=3)  # noqa: E731
        v = f(x, y, ms, mt)
        evs.append(dict(ev="ax", ax="symmetric", loss="wlcc_loss[masks]", D=D, N=N, C=C, v1=cap(v), v2=cap(f(y, x, mt, ms))))
        yz = torch.where(mt.expand(shape) == 0, y + 7, y)
        evs.append(dict(ev="ax", ax="invariant", loss="wlcc_loss[masks]", D=D, N=N, C=C, v1=cap(f(x, yz, ms, mt)), v2=cap(v), what="target changed outside target_mask"))
        xz = torch.where(ms.expand(shape) == 0, x - 4, x)
        evs.append(dict(ev="ax", ax="invariant", loss="wlcc_loss[masks]", D=D, N=N, C=C, v1=cap(f(xz, y, ms, mt)), v2=cap(v), what="source changed outside source_mask"))
    except Exception as ex:
        evs.append(dict(ev="ax", ax="accepted", loss="wlcc_loss[masks]", D=D, N=N, C=C, exc=True, what="source_mask/target_mask", err=f"{type(ex).__name__}: {ex}"[:120]))
    trace("wlcc_loss[masks]", evs)
    # overlap losses on soft segmentations: reductions are reductions of the (N, C) 'none' output, also with the focal exponent
    p_seg = torch.rand(shape, generator=g)
    t_seg = (torch.rand(shape, generator=g) > 0.5).float()
    for name, fn in (("dice_loss", lambda r, **kw: L.dice_loss(p_seg, t_seg, reduction=r)), ("dice_score", lambda r, **kw: L.dice_score(p_seg, t_seg, reduction=r)),
                     ("tversky_loss", lambda r, **kw: L.tversky_loss(p_seg, t_seg, alpha=0.3, beta=0.7, reduction=r)),
                     ("tversky_loss[gamma]", lambda r, **kw: L.tversky_loss(p_seg, t_seg, alpha=0.3, beta=0.7, gamma=2.0, reduction=r)),
                     ("tversky_index", lambda r, **kw: L.tversky_index(p_seg, t_seg, alpha=0.3, beta=0.7, reduction=r))):
        evs = []
        try:
            none = fn("none")
            evs.append(dict(ev="ax", ax="equals", loss=name, D=D, N=N, C=C, v1=cap(fn("mean")), v2=cap(none.mean()), what="mean = mean of none"))
            evs.append(dict(ev="ax", ax="equals", loss=name, D=D, N=N, C=C, v1=cap(fn("sum")), v2=cap(none.sum()), what="sum = sum of none"))
            if name == "tversky_loss[gamma]":
                ti = L.tversky_index(p_seg, t_seg, alpha=0.3, beta=0.7, reduction="none")
                evs.append(dict(ev="ax", ax="equals", loss=name, D=D, N=N, C=C, v1=cap(none.sum()), v2=cap(((1 - ti) ** 2.0).sum()), what="none = (1 - TI)^gamma"))
        except Exception as ex:
            evs.append(dict(ev="ax", ax="accepted", loss=name, D=D, N=N, C=C, exc=True, what="reductions", err=f"{type(ex).__name__}: {ex}"[:120]))
        trace(name + "[reductions]", evs)
    # mutual information with random sampling AND a mask: intensities outside the mask cannot matter (same generator state for both calls)
    if C == 1:
        for name, fn in (("mi_loss", L.mi_loss), ("nmi_loss", L.nmi_loss)):
            evs = []
            try:
                mm = (torch.rand((N, 1) + shape[2:], generator=g) > 0.4).float()
                xz = torch.where(mm.expand(shape) == 0, x + 6, x)
                yz = torch.where(mm.expand(shape) == 0, y - 3, y)
                vals = []
                for a_, b_ in ((x, y), (xz, yz)):
                    torch.manual_seed(1234 + k)
                    vals.append(float(fn(a_, b_, mask=mm, vmin=-5.0, vmax=20.0, num_bins=16, num_samples=64)))
                evs.append(dict(ev="ax", ax="invariant", loss=name + "[sampled,mask]", D=D, N=N, C=C, v1=cap(vals[1]), v2=cap(vals[0]), what="intensities outside the mask changed"))
            except Exception as ex:
                evs.append(dict(ev="ax", ax="accepted", loss=name + "[sampled,mask]", D=D, N=N, C=C, exc=True, what="num_samples with mask", err=f"{type(ex).__name__}: {ex}"[:120]))
            trace(name + "[sampled,mask]", evs)
    # loss modules with implicit normalisation: norm = max_difference(source, target)^2 from whichever images are given
    s_img, t_img = x * 2 + 1, y + 3
    for cls, fn in ((LI.L2ImageLoss, L.mse_loss), (LI.SSD, L.ssd_loss), (LI.L1ImageLoss, L.mae_loss), (LI.HuberImageLoss, L.huber_loss), (LI.SmoothL1ImageLoss, L.smooth_l1_loss)):
        name = cls.__name__ + "[norm]"
        evs = []
        try:
            base = float(fn(x, y))
            for what, kw, pair in (("source and target", dict(source=s_img, target=t_img), (s_img, t_img)), ("source only", dict(source=s_img), (s_img, s_img)),
                                   ("target only", dict(target=t_img), (t_img, t_img))):
                nrm = float(max_difference(*pair).square())
                evs.append(dict(ev="ax", ax="equals", loss=name, D=D, N=N, C=C, v1=cap(cls(**kw)(x, y)), v2=cap(base / nrm), what=f"norm from {what}"))
            evs.append(dict(ev="ax", ax="equals", loss=name, D=D, N=N, C=C, v1=cap(cls(norm=False)(x, y)), v2=cap(base), what="norm=False"))
            evs.append(dict(ev="ax", ax="equals", loss=name, D=D, N=N, C=C, v1=cap(cls(norm=4.0)(x, y)), v2=cap(base / 4.0), what="norm=4"))
            # an explicit factor wins over images given as well - also the factor ONE, in every numeric form
            for fname, fval in (("0.5", 0.5), ("1.0", 1.0), ("1", 1), ("tensor(1.)", torch.tensor(1.0)), ("tensor([2.])", torch.tensor([2.0]))):
                evs.append(dict(ev="ax", ax="equals", loss=name, D=D, N=N, C=C, v1=cap(cls(source=s_img, target=t_img, norm=fval)(x, y)), v2=cap(base / float(fval)),
                                what=f"explicit norm={fname} with source and target images given"))
        except Exception as ex:
            evs.append(dict(ev="ax", ax="accepted", loss=name, D=D, N=N, C=C, exc=True, what="module with norm", err=f"{type(ex).__name__}: {ex}"[:120]))
        trace(name, evs)
    # overlap measures accept the target as label map (N, ..., X), binary map (N, 1, ..., X) or one-hot scores (N, C, ..., X), and binary
    # predictions as one foreground channel or as two channels: every form of the same segmentation gives the same value, identical ones give 1
    try:
        Cn = max(C, 2)
        lab = torch.randint(0, Cn, (N,) + tuple(shape[2:]), generator=g)
        onehot = torch.nn.functional.one_hot(lab, Cn).movedim(-1, 1).float()
        pred = torch.rand((N, Cn) + tuple(shape[2:]), generator=g).softmax(1)
        wmap = torch.rand((N,) + tuple(shape[2:]), generator=g) + 0.5
        evs = []
        # (dice_score / dice_loss document identical shapes of input and target: the Tversky family is the one with several target forms)
        for nm, fn in (("tversky_index", lambda p_, t_, **kw: L.tversky_index(p_, t_, alpha=0.3, beta=0.7, **kw)),
                       ("tversky_index[dice]", lambda p_, t_, **kw: L.tversky_index(p_, t_, **kw)),
                       ("dice_score", lambda p_, t_, **kw: L.dice_score(p_, t_ if t_.ndim == p_.ndim else torch.nn.functional.one_hot(t_, p_.shape[1]).movedim(-1, 1).float(),
                                                                        **{k_: (v_ if v_.ndim == p_.ndim else v_.unsqueeze(1)) if k_ == "weight" else v_ for k_, v_ in kw.items()})),
                       ("dice_loss", lambda p_, t_, **kw: L.dice_loss(p_, t_ if t_.ndim == p_.ndim else torch.nn.functional.one_hot(t_, p_.shape[1]).movedim(-1, 1).float(),
                                                                      **{k_: (v_ if v_.ndim == p_.ndim else v_.unsqueeze(1)) if k_ == "weight" else v_ for k_, v_ in kw.items()})),
                       ("tversky_loss", lambda p_, t_, **kw: L.tversky_loss(p_, t_, alpha=0.3, beta=0.7, **kw))):
            evs.append(dict(ev="ax", ax="equals", loss=nm + "[target forms]", D=D, N=N, C=Cn, v1=cap(fn(pred, lab)), v2=cap(fn(pred, onehot)), what="label map target = one-hot target"))
            evs.append(dict(ev="ax", ax="equals", loss=nm + "[target forms]", D=D, N=N, C=Cn, v1=cap(fn(pred, lab, weight=wmap)), v2=cap(fn(pred, onehot, weight=wmap.unsqueeze(1))),
                            what="weight map (N, ...) = (N, 1, ...)"))
            ident = float(fn(onehot, lab))
            evs.append(dict(ev="ax", ax="equals", loss=nm + "[target forms]", D=D, N=N, C=Cn, v1=cap(ident), v2=cap(0.0 if nm.endswith("loss") else 1.0), what="identical segmentations (label map target)"))
            # a class that occurs in NEITHER segmentation: identical (empty) entries score 1 (loss 0), never a value outside [0, 1]
            oh_x = torch.nn.functional.one_hot(lab, Cn + 1).movedim(-1, 1).float()
            none_x = fn(oh_x, oh_x, reduction="none")
            evs.append(dict(ev="ax", ax="equals", loss=nm + "[absent class]", D=D, N=N, C=Cn + 1, v1=cap(none_x.max()), v2=cap(0.0 if nm.endswith("loss") else 1.0), what="max over (N, C) entries incl. an absent class"))
            evs.append(dict(ev="ax", ax="equals", loss=nm + "[absent class]", D=D, N=N, C=Cn + 1, v1=cap(none_x.min()), v2=cap(0.0 if nm.endswith("loss") else 1.0), what="min over (N, C) entries incl. an absent class"))
            if Cn == 2 and nm.startswith("tversky"):
                fg = pred[:, 1:2]
                binm = lab.unsqueeze(1).float()
                evs.append(dict(ev="ax", ax="equals", loss=nm + "[target forms]", D=D, N=N, C=Cn, v1=cap(fn(fg, binm)), v2=cap(fn(pred, binm)), what="foreground channel = two-channel prediction (binary target)"))
                evs.append(dict(ev="ax", ax="equals", loss=nm + "[target forms]", D=D, N=N, C=Cn, v1=cap(fn(fg, lab)), v2=cap(fn(fg, binm)), what="label map = binary map for a foreground prediction"))
                evs.append(dict(ev="ax", ax="equals", loss=nm + "[target forms]", D=D, N=N, C=Cn, v1=cap(fn(fg, onehot)), v2=cap(fn(fg, binm)), what="one-hot target = binary map for a foreground prediction"))
    except Exception as ex:
        evs.append(dict(ev="ax", ax="accepted", loss="overlap[target forms]", D=D, N=N, C=max(C, 2), exc=True, what="target forms", err=f"{type(ex).__name__}: {ex}"[:140]))
    trace("overlap[target forms]", evs)
    # mutual information with its DEFAULT intensity range (the joint range of both images): symmetric also when the second image is the brighter one
    if C == 1:
        evs = []
        try:
            yb = y * 3.0 + 1.0
            for nm, fn in (("mi_loss[default range]", L.mi_loss), ("nmi_loss[default range]", L.nmi_loss)):
                evs.append(dict(ev="ax", ax="symmetric", loss=nm, D=D, N=N, C=C, v1=cap(fn(x, yb, num_bins=16)), v2=cap(fn(yb, x, num_bins=16))))
                evs.append(dict(ev="ax", ax="equals", loss=nm, D=D, N=N, C=C, v1=cap(fn(x, yb, num_bins=16)),
                                v2=cap(fn(x, yb, num_bins=16, vmin=float(torch.min(x.min(), yb.min())), vmax=float(torch.max(x.max(), yb.max())))), what="default range = joint range of both images"))
            evs.append(dict(ev="ax", ax="symmetric", loss="MI[module, default range]", D=D, N=N, C=C, v1=cap(LI.MI(num_bins=16)(x, yb)), v2=cap(LI.MI(num_bins=16)(yb, x))))
        except Exception as ex:
            evs.append(dict(ev="ax", ax="accepted", loss="mi_loss[default range]", D=D, N=N, C=C, exc=True, what="default range", err=f"{type(ex).__name__}: {ex}"[:120]))
        trace("mi_loss[default range]", evs)
    # the windowed and information-theoretic loss MODULES are their functional forms with the constructor's options (every alias of an option)
    mods = [("LCC[module]", lambda: LI.LCC(kernel_size=3)(x, y), lambda: L.lcc_loss(x, y, kernel_size=3)),
            ("LCC[module,mask]", lambda: LI.LCC(kernel_size=3)(x, y, mask=ms), lambda: L.lcc_loss(x, y, mask=ms, kernel_size=3)),
            ("LCC[module,default]", lambda: LI.LCC()(x, y), lambda: L.lcc_loss(x, y)) if min(shape[2:]) >= 7 else ("LCC[module,k5]", lambda: LI.LCC(5)(x, y), lambda: L.lcc_loss(x, y, kernel_size=5)),
            ("LNCC[alias]", lambda: LI.LNCC(kernel_size=(3,) * D)(x, y), lambda: L.lcc_loss(x, y, kernel_size=3)),
            ("WLCC[module]", lambda: LI.WLCC(kernel_size=3)(x, y, source_mask=ms, target_mask=mt), lambda: L.wlcc_loss(x, y, source_mask=ms, target_mask=mt, kernel_size=3)),
            ("WLCC[module,mask]", lambda: LI.WLCC(kernel_size=5)(x, y, mask=ms), lambda: L.wlcc_loss(x, y, mask=ms, kernel_size=5)),
            ("NCC[module]", lambda: LI.NCC()(x, y), lambda: L.ncc_loss(x, y))]
    if C == 1:
        hk = dict(vmin=-5.0, vmax=20.0)
        mods += [("MI[module]", lambda: LI.MI(num_bins=16, **hk)(x, y), lambda: L.mi_loss(x, y, num_bins=16, **hk)),
                 ("MI[module,bins]", lambda: LI.MI(bins=12, **hk)(x, y), lambda: L.mi_loss(x, y, num_bins=12, **hk)),
                 ("MI[module,mask]", lambda: LI.MI(num_bins=16, **hk)(x, y, mask=ms), lambda: L.mi_loss(x, y, mask=ms, num_bins=16, **hk)),
                 ("MI[module,normalized]", lambda: LI.MI(num_bins=16, normalized=True, **hk)(x, y), lambda: L.nmi_loss(x, y, num_bins=16, **hk)),
                 ("NMI[module]", lambda: LI.NMI(num_bins=16, **hk)(x, y), lambda: L.nmi_loss(x, y, num_bins=16, **hk)),
                 ("NMI[module,bins]", lambda: LI.NMI(bins=12, **hk)(x, y), lambda: L.nmi_loss(x, y, num_bins=12, **hk)),
                 ("NMI[module,mask]", lambda: LI.NMI(num_bins=16, **hk)(x, y, mask=ms), lambda: L.nmi_loss(x, y, mask=ms, num_bins=16, **hk))]

        def sampled(mk_mod, fn, **skw):
            torch.manual_seed(99 + k)
            a_ = float(mk_mod()(x, y))
            torch.manual_seed(99 + k)
            return a_, float(fn(x, y, num_bins=16, **hk, **skw))

        for nm, mk_mod, fn, skw in (("MI[module,sample=ratio]", lambda: LI.MI(num_bins=16, sample=0.5, **hk), L.mi_loss, dict(sample_ratio=0.5)),
                                    ("MI[module,sample=count]", lambda: LI.MI(num_bins=16, sample=32, **hk), L.mi_loss, dict(num_samples=32)),
                                    ("NMI[module,num_samples]", lambda: LI.NMI(num_bins=16, num_samples=32, **hk), L.nmi_loss, dict(num_samples=32)),
                                    ("NMI[module,sample_ratio]", lambda: LI.NMI(num_bins=16, sample_ratio=0.25, **hk), L.nmi_loss, dict(sample_ratio=0.25))):
            mods.append((nm, (lambda mk_mod=mk_mod, fn=fn, skw=skw: sampled(mk_mod, fn, **skw)), None))
    for name, fm, ff in mods:
        evs = []
        try:
            if ff is None:
                v1, v2 = fm()
            else:
                v1, v2 = fm(), ff()
            evs.append(dict(ev="ax", ax="equals", loss=name, D=D, N=N, C=C, v1=cap(v1), v2=cap(v2), what="module = functional form with the constructor's options"))
        except Exception as ex:
            evs.append(dict(ev="ax", ax="accepted", loss=name, D=D, N=N, C=C, exc=True, what="loss module", err=f"{type(ex).__name__}: {ex}"[:120]))
        trace(name, evs)
    # patch-wise evaluation (2-D patches inside a volume): the mask is sampled with the patches; whatever its dtype, samples where it is
    # zero do not matter, and with patches placed on the voxel lattice the loss is the plain masked loss
    if D == 3 and C == 1:  # (the module asks for a mask of the target's shape AND a single channel)
        from deepali.core.grid import Grid

        patches = Grid(shape=shape[2:], align_corners=True).coords().unsqueeze(0).expand(N, *shape[2:], 3).contiguous()
        mm = (torch.rand((N, C) + shape[2:], generator=g) > 0.4)
        xz = torch.where(mm == 0, x + 6, x)
        yz = torch.where(mm == 0, y - 3, y)
        for lname, mk in (("SSD", lambda: LI.SSD()), ("L1ImageLoss", lambda: LI.L1ImageLoss())):  # (NCC with a mask: known finding C16-ncc-mask)
            for mt_name, mcast in (("bool", lambda t: t), ("uint8", lambda t: t.to(torch.uint8)), ("float", lambda t: t.float()), ("int64", lambda t: t.long()), ("double", lambda t: t.double())):
                name = f"PatchwiseImageLoss[{lname},{mt_name} mask]"
                evs = []
                try:
                    pl = LI.PatchwiseImageLoss(patches, mk())
                    v = pl(x, y, mask=mcast(mm))
                    evs.append(dict(ev="ax", ax="invariant", loss=name, D=D, N=N, C=C, v1=cap(pl(xz, yz, mask=mcast(mm))), v2=cap(v), what="intensities changed where the mask is zero"))
                    evs.append(dict(ev="ax", ax="equals", loss=name, D=D, N=N, C=C, v1=cap(v), v2=cap(pl(x, y, mask=mm)), what="same value as with the boolean mask"))
                except Exception as ex:
                    evs.append(dict(ev="ax", ax="accepted", loss=name, D=D, N=N, C=C, exc=True, what="patch-wise loss with mask", err=f"{type(ex).__name__}: {ex}"[:120]))
                trace(name, evs)
    return out


def run(ctx: Ctx) -> None:
    tier = ctx.tier
    ctx.rule = ("layer 1: one case per (image pair, mask, loss, reduction, norm) / NCC pair / (segmentation pair, weights) with exact values from Loss.tla; "
                "layer 2: for every loss and random image tuple a list of axiom instances (identical, range, symmetry, intensity invariance, mask, "
                "reductions) recorded from the code and validated by Trace_Loss")
    ctx.tlc("MC_Loss", CFG.format(emit="FALSE", inv="INVARIANT Laws\n"), label="laws", timeout=3000)
    res = ctx.tlc("MC_Loss", CFG.format(emit="TRUE", inv=""), label="emit", timeout=3000)
    cases = json_lines(res, key=None)
    if not cases:
        raise MachineryError("no cases")
    for c in cases:
        check_layer1(ctx, c)
    ctx.sample(cases[0])
    traces = record_axioms(ctx.seed, 6 if tier == "quick" else 60)
    rej, nval = validate(ctx, "Trace_Loss", TRACE_CFG, traces, all_rejections=True)
    for tid, line, clause in [(tid, l_, c_) for tid, lst in rej.items() for (l_, c_) in lst]:
        t = traces[tid]
        # recompute which instance failed: the line is global; find within the trace by clause and re-evaluation order
        e = t[line] if line < len(t) else t[-1]
        ctx.violation(dict(op=e.get("loss"), layer=2, ax=clause, what=e.get("what", ""), exc=bool(e.get("exc")), C=e.get("C"),
                           masked=str(e.get("what", "")).startswith("mask")),
                      f"{e.get('loss')}: axiom '{clause}' violated ({e.get('what', '')}) {e.get('err', '')} recorded {({k: v for k, v in e.items() if k in ('v', 'v1', 'v2', 'min', 'lo', 'hi', 'mean', 'sum', 'count')})}",
                      dict(trace=t))
    ctx.traces = nval + len(cases)
    ctx.notes["axiom_instances"] = sum(len(t) - 1 for t in traces)
    ctx.sample(dict(recorded_axioms=traces[0][:5]))
    # binding self-tests
    probe = Ctx(ctx.prop, ctx.tier, ctx.seed)
    probe.findings = []
    c = json.loads(json.dumps(next(x for x in cases if x["kind"] == "ncc")))
    c["value"] = [c["value"][0] + c["value"][1], c["value"][1] * 2]
    check_layer1(probe, c)
    bad_tr = [[dict(ev="ax", ax="accepted", loss="x", exc=False, what="start", k=0), dict(ev="ax", ax="symmetric", loss="x", v1=100000, v2=200000, k=1)]]
    rej2, _ = validate(probe, "Trace_Loss", TRACE_CFG, bad_tr, label="trace-selftest")
    if not probe.violations or not rej2:
        raise MachineryError("binding self-test failed")
    ctx.notes["binding_selftest"] = "perturbed NCC value and an asymmetric recorded pair rejected"
    ctx.assumptions += ["layer-1 images are 2x3 integer images (exact rationals); layer-2 uses random integer images incl. 3-D, N, C in {1, 2}",
                        "MI/NMI: only relational axioms (values involve exp/log)"]


def replay(ctx: Ctx, data: Dict[str, Any]) -> None:
    c = data["case"]
    if "trace" in c:
        rej, _ = validate(ctx, "Trace_Loss", TRACE_CFG, [c["trace"]])
        for tid, (line, clause) in rej.items():
            ctx.violation(dict(ax=clause), f"axiom {clause} violated on replay (recorded values)", c)
    else:
        check_layer1(ctx, c)
