"""C18 - write/read round trips in every supported format (spec: FileStore)."""
from __future__ import annotations

import hashlib
import json
import os
import random
import shutil
import tempfile
import zlib
from fractions import Fraction
from typing import Any, Dict, List, Optional, Tuple

import numpy as np
import torch

from ..core import Ctx
from ..gridlib import grid_sig, mk_grid
from ..rat import F, fl
from ..tlc import MachineryError, json_lines

EXT = {"mha": ".mha", "mhd": ".mhd", "nii": ".nii", "niigz": ".nii.gz", "nrrd": ".nrrd"}
DTYPES = {"uint8": torch.uint8, "int16": torch.int16, "int32": torch.int32, "float32": torch.float32, "float64": torch.float64}
FLOW_DTYPES = ("float32", "float64")
RTOL = 2e-6


def cfg(mode: str, grids: str, maxlen: int, emit: bool, inv: bool) -> str:
    s = f"""SPECIFICATION Spec
CONSTANTS
  Grids <- {grids}
  Chans <- Chans123
  Formats <- AllFormats
  MaxLen = {maxlen}
  Mode = "{mode}"
  EmitCases = {'TRUE' if emit else 'FALSE'}
"""
    if inv and mode == "formats":
        s += "INVARIANT LawMeta\nINVARIANT LawNifti\nINVARIANT LawNrrd\nINVARIANT LawLayout\nINVARIANT LawFlow\n"
    if inv and mode == "chains":
        s += "INVARIANT Preserved\nINVARIANT FileWorld\n"
    return s + "CONSTRAINT Emit\n"


# ------------------------------------------------------------------------------------------------ independent file parsers
def parse_meta(path: str) -> Tuple[Dict[str, str], np.ndarray, str]:
    raw = open(path, "rb").read()
    hdr: Dict[str, str] = {}
    pos = 0
    while True:
        end = raw.index(b"\n", pos)
        line = raw[pos:end].decode("ascii")
        pos = end + 1
        k, v = [t.strip() for t in line.split("=", 1)]
        hdr[k] = v
        if k == "ElementDataFile":
            break
    if hdr["ElementDataFile"].upper() == "LOCAL":
        blob = raw[pos:]
    else:
        blob = open(os.path.join(os.path.dirname(path), hdr["ElementDataFile"]), "rb").read()
    if hdr.get("CompressedData", "False").lower() == "true":
        blob = zlib.decompress(blob[: int(hdr["CompressedDataSize"])] if "CompressedDataSize" in hdr else blob)
    et = {"MET_UCHAR": "u1", "MET_SHORT": "<i2", "MET_INT": "<i4", "MET_FLOAT": "<f4", "MET_DOUBLE": "<f8", "MET_LONG": "<i4", "MET_LONG_LONG": "<i8"}[hdr["ElementType"]]
    if hdr.get("BinaryDataByteOrderMSB", hdr.get("ElementByteOrderMSB", "False")).lower() == "true":
        et = et.replace("<", ">")
    return hdr, np.frombuffer(blob, dtype=et), hdr["ElementType"]


def parse_nrrd(path: str) -> Tuple[Dict[str, str], np.ndarray]:
    import gzip

    raw = open(path, "rb").read()
    end = raw.index(b"\n\n")
    hdr = {}
    for line in raw[:end].decode("ascii").split("\n")[1:]:
        if line.startswith("#") or ":" not in line:
            continue
        k, v = line.split(":", 1)
        hdr[k.strip()] = v.lstrip("=").strip()
    blob = raw[end + 2:]
    if hdr.get("encoding") in ("gzip", "gz"):
        blob = gzip.decompress(blob)
    dt = {"unsigned char": "u1", "uchar": "u1", "uint8": "u1", "short": "i2", "int16": "i2", "int": "i4", "int32": "i4", "float": "f4", "double": "f8"}[hdr["type"]]
    order = "<" if hdr.get("endian", "little") == "little" else ">"
    return hdr, np.frombuffer(blob, dtype=(order + dt) if dt != "u1" else dt)


def close(a, b, scale=1.0) -> bool:
    a = np.asarray(a, dtype=float).reshape(-1)
    b = np.asarray(b, dtype=float).reshape(-1)
    return a.shape == b.shape and bool(np.all(np.abs(a - b) <= RTOL * max(scale, 1.0) + 1e-9))


def header_mismatch(fmt: str, path: str, c: Dict[str, Any], np_dtype) -> Tuple[Optional[str], Optional[np.ndarray]]:
    """Compare the header in the file with the specification's header. Returns (mismatch or None, linear payload)."""
    g = c["g"]
    n = list(g["n"])
    D, C = len(n), c["C"]
    if fmt in ("mha", "mhd"):
        hd = c["meta"]
        h, payload, _ = parse_meta(path)
        exp_o, exp_h, exp_tm = fl(F(hd["Offset"])), fl(F(hd["ElementSpacing"])), fl(F(hd["TransformMatrix"]))
        scale = max(1.0, max(abs(v) for v in exp_o))
        if int(h["NDims"]) != D:
            return f"NDims = {h['NDims']}, specification {D}", payload
        if [int(v) for v in h["DimSize"].split()] != n:
            return f"DimSize = {h['DimSize']}, specification {n}", payload
        if int(h.get("ElementNumberOfChannels", 1)) != C:
            return f"ElementNumberOfChannels = {h.get('ElementNumberOfChannels', 1)}, specification {C}", payload
        off = h.get("Offset", h.get("Position", h.get("Origin")))
        if not close([float(v) for v in off.split()], exp_o, scale):
            return f"Offset = {off}, specification {exp_o}", payload
        if not close([float(v) for v in h["ElementSpacing"].split()], exp_h):
            return f"ElementSpacing = {h['ElementSpacing']}, specification {exp_h}", payload
        tm = h.get("TransformMatrix", h.get("Orientation", h.get("Rotation")))
        if not close([float(v) for v in tm.split()], exp_tm):
            return f"TransformMatrix = {tm}, specification {exp_tm}", payload
        return None, payload
    if fmt in ("nii", "niigz"):
        import nibabel as nib

        hd = c["nifti"]
        img = nib.load(path)
        h = img.header
        dim = [int(v) for v in h["dim"]]
        nd = hd["dim"][0]
        exp_dim = list(hd["dim"])
        if dim[0] != nd or dim[1:nd + 1] != exp_dim[1:nd + 1]:
            return f"dim = {dim}, specification {exp_dim}", None
        if int(h["intent_code"]) != hd["intent"]:
            return f"intent_code = {int(h['intent_code'])}, specification {hd['intent']}", None
        exp_aff = np.array(fl(F(hd["affine"])))
        scale = float(np.abs(exp_aff).max())
        codes = (int(h["sform_code"]), int(h["qform_code"]))
        if codes == (0, 0):
            return "neither sform nor qform is set", None
        for name, aff, code in (("sform", h.get_sform(), codes[0]), ("qform", h.get_qform(), codes[1])):
            if code > 0 and not close(np.asarray(aff)[:3], exp_aff[:3], scale):
                return f"{name} = {np.asarray(aff)[:3].round(5).tolist()}, specification {exp_aff[:3].round(5).tolist()}", None
        if not close([float(v) for v in h["pixdim"][1:D + 1]], fl(F(hd["pixdim"]))):
            return f"pixdim = {h['pixdim'][1:D + 1]}, specification {fl(F(hd['pixdim']))}", None
        payload = np.asarray(img.dataobj.get_unscaled()).ravel(order="F")
        return None, payload
    hd = c["nrrd"]
    h, payload = parse_nrrd(path)
    if int(h["dimension"]) != hd["dimension"]:
        return f"dimension = {h['dimension']}, specification {hd['dimension']}", payload
    sizes = [int(v) for v in h["sizes"].split()]
    if sizes != ([C] if C > 1 else []) + n:
        return f"sizes = {sizes}, specification {([C] if C > 1 else []) + n}", payload
    dirs = [t for t in h["space directions"].split() if t != "none"]
    got = [[float(v) for v in t.strip("()").split(",")] for t in dirs]
    exp = fl(F(hd["directions"]))
    if not close(got, exp):
        return f"space directions = {got}, specification {exp}", payload
    o = [float(v) for v in h["space origin"].strip("()").split(",")]
    exp_o = fl(F(hd["origin"]))
    if not close(o, exp_o, max(abs(v) for v in exp_o)):
        return f"space origin = {o}, specification {exp_o}", payload
    return None, payload


# ------------------------------------------------------------------------------------------------ objects and projections
def make_data(n: List[int], C: int, dtype: str, salt: int) -> torch.Tensor:
    shape = tuple(reversed(n))
    N = int(np.prod(shape)) * C
    vals = (torch.arange(N, dtype=torch.int64) * 7 + salt * 13) % 251
    t = vals.reshape(C, *shape)
    if dtype.startswith("float"):
        t = t.to(DTYPES[dtype]) / 8 - 11
    else:
        t = (t % 120).to(DTYPES[dtype])
    return t


def sitk_from(data: torch.Tensor, grid):
    import SimpleITK as sitk

    C = data.shape[0]
    arr = data.numpy() if C > 1 else data[0].numpy()
    if C > 1:
        arr = np.moveaxis(arr, 0, -1)
    im = sitk.GetImageFromArray(np.ascontiguousarray(arr), isVector=C > 1)
    im.SetOrigin(grid.origin().double().tolist())
    im.SetSpacing(grid.spacing().double().tolist())
    im.SetDirection(grid.direction().double().flatten().tolist())
    return im


def project(obj) -> Tuple[np.ndarray, Dict[str, Any]]:
    """(values as (C, ..., X) array, geometry) of a deepali Image/FlowField or a SimpleITK image."""
    import SimpleITK as sitk

    if isinstance(obj, sitk.Image):
        arr = sitk.GetArrayFromImage(obj)
        C = obj.GetNumberOfComponentsPerPixel()
        arr = np.moveaxis(arr, -1, 0) if C > 1 else arr[None]
        D = obj.GetDimension()
        return arr, dict(n=list(obj.GetSize()), o=list(obj.GetOrigin()), h=list(obj.GetSpacing()), R=np.array(obj.GetDirection()).reshape(D, D).tolist(), C=C)
    g = obj.grid()
    return obj.tensor().detach().numpy(), dict(n=[int(v) for v in g.size()], o=g.origin().tolist(), h=g.spacing().tolist(), R=g.direction().tolist(), C=int(obj.shape[0]),
                                               ac=bool(g.align_corners()))


def geometry_mismatch(geo: Dict[str, Any], g: Dict[str, Any], C: int) -> Optional[str]:
    n = list(g["n"])
    o, h, Rm = fl(F(g["o"])), fl(F(g["h"])), fl(F(g["R"]))
    if geo["C"] != C:
        return f"channels {geo['C']} instead of {C}"
    if geo["n"] != n:
        return f"size {geo['n']} instead of {n}"
    if not close(geo["o"], o, max(abs(v) for v in o)):
        return f"origin {geo['o']} instead of {o}"
    if not close(geo["h"], h):
        return f"spacing {geo['h']} instead of {h}"
    if not close(geo["R"], Rm):
        return f"direction {geo['R']} instead of {Rm}"
    if "ac" in geo and geo["ac"] != bool(g["ac"]):
        return f"align_corners={geo['ac']} although the object was read / converted with align_corners={bool(g['ac'])}"
    return None


# ------------------------------------------------------------------------------------------------ part 1: formats
def check_format_case(ctx: Ctx, c: Dict[str, Any], idx: int, scratch: str, dtypes: List[str], writers=("deepali", "sitk"), fmts=tuple(EXT)) -> None:
    import SimpleITK as sitk

    from deepali.data.image import Image
    from deepali.utils.imageio import read_image, write_image

    g = c["g"]
    n = list(g["n"])
    D, C = len(n), c["C"]
    grid = mk_grid(g)
    for dtype in dtypes:
        data = make_data(n, C, dtype, idx)
        flat_expected = {}
        for compress in (True, False):
            for fmt in fmts:
                for writer in writers:
                    if fmt in ("nii", "niigz") and C > 1 and n[-1] == 1:
                        continue  # NIfTI vector images drop trailing axes of size one (NiftiRealDim): not a round trip of the grid by the format's own rule
                    sig = dict(part="format", fmt=fmt, D=D, multi=C > 1, writer=writer)
                    path = os.path.join(scratch, f"f{idx}_{dtype}_{int(compress)}_{writer}{EXT[fmt]}")
                    case = dict(case=c, dtype=dtype, compress=compress, fmt=fmt, writer=writer, idx=idx)
                    try:
                        if writer == "deepali":
                            if (idx + int(compress)) % 2:
                                Image(data, grid).write(path, compress=compress)
                            else:
                                write_image(data, grid, path, compress=compress)
                        else:
                            sitk.WriteImage(sitk_from(data, grid), path, compress)
                    except Exception as ex:
                        if writer == "deepali":
                            ctx.violation(dict(**sig, what="write-raises", exc=type(ex).__name__),
                                          f"writing a {D}-D {C}-channel {dtype} image to {EXT[fmt]} raises {type(ex).__name__}: {str(ex)[:100]}", case)
                        else:
                            raise MachineryError(f"SimpleITK cannot write {path}: {ex}")
                        continue
                    # (a) header and payload in the file against the specification
                    try:
                        mis, payload = header_mismatch(fmt, path, c, data.numpy().dtype)
                    except Exception as ex:
                        mis, payload = f"file cannot be parsed ({type(ex).__name__}: {str(ex)[:80]})", None
                    if mis:
                        if writer == "sitk":
                            raise MachineryError(f"specification of {fmt} disagrees with the file SimpleITK wrote: {mis}")
                        ctx.violation(dict(**sig, what="header"), f"{EXT[fmt]} file written for a {D}-D {C}-channel image: {mis}", case)
                    if payload is not None:
                        bad = None
                        if payload.size != data.numel():
                            bad = f"payload has {payload.size} elements instead of {data.numel()}"
                        else:
                            for row in c["offsets"]:
                                for pr in row:
                                    off = pr["planar"] if fmt in ("nii", "niigz") else pr["interleaved"]
                                    want = data[(pr["c"],) + tuple(reversed(pr["idx"]))].item()
                                    if payload.dtype != data.numpy().dtype or payload[off].item() != want:
                                        bad = f"element (channel {pr['c']}, index {pr['idx']}) expected at linear offset {off}: found {payload[off].item()} ({payload.dtype}), stored value {want} ({dtype})"
                        if bad:
                            if writer == "sitk":
                                raise MachineryError(f"layout specification of {fmt} disagrees with SimpleITK: {bad}")
                            ctx.violation(dict(**sig, what="payload"), f"{EXT[fmt]} written for a {D}-D {C}-channel {dtype} image: {bad}", case)
                    # (b) both readers
                    for reader in ("deepali", "sitk"):
                        if writer == "sitk" and reader == "sitk":
                            continue
                        rsig = dict(**sig, reader=reader)
                        try:
                            if reader == "deepali":
                                from pathlib import Path as _P

                                form = (idx + (1 if compress else 0) + D) % 5
                                if form == 0:
                                    obj = Image.read(path, align_corners=bool(g["ac"]))
                                elif form == 1:
                                    obj = Image.read(_P(path), align_corners=bool(g["ac"]))  # pathlib.Path instead of str
                                elif form in (2, 3) and fmt == "mha":
                                    # the native MetaImage reader also accepts the file's bytes and an open binary file
                                    from deepali.utils.imageio.meta import read_meta_image

                                    if form == 2:
                                        with open(path, "rb") as fh_:
                                            d2, g2 = read_meta_image(fh_.read())
                                    else:
                                        with open(path, "rb") as fh_:
                                            d2, g2 = read_meta_image(fh_)
                                    obj = Image(d2, g2.align_corners(bool(g["ac"])))
                                else:
                                    d2, g2 = read_image(path if form != 4 else _P(path))
                                    obj = Image(d2, g2.align_corners(bool(g["ac"])))  # the flag is not stored in files
                            else:
                                obj = sitk.ReadImage(path)
                            vals, geo = project(obj)
                        except Exception as ex:
                            ctx.violation(dict(**rsig, what="read-raises", exc=type(ex).__name__),
                                          f"{reader} cannot read the {EXT[fmt]} file {writer} wrote for a {D}-D {C}-channel {dtype} image: {type(ex).__name__}: {str(ex)[:100]}", case)
                            continue
                        mis = geometry_mismatch(geo, g, C)
                        if mis:
                            ctx.violation(dict(**rsig, what="grid"), f"{EXT[fmt]} ({writer} -> {reader}), {D}-D {C}-channel: {mis}", case)
                        elif vals.shape != tuple(data.shape) or str(vals.dtype) != dtype or not np.array_equal(vals, data.numpy()):
                            ctx.violation(dict(**rsig, what="values", dtype=dtype if str(vals.dtype) != dtype else "same"),
                                          f"{EXT[fmt]} ({writer} -> {reader}), {D}-D {C}-channel {dtype}: values read back differ "
                                          f"(shape {vals.shape} dtype {vals.dtype}, max diff "
                                          f"{float(np.abs(vals.astype(float) - data.numpy().astype(float)).max()) if vals.shape == tuple(data.shape) else 'n/a'})", case)
                        ctx.count(key=(fmt, D, C, dtype, compress, writer, reader, idx), nontrivial=True)
                    for p in (path, path.replace(".mhd", ".raw"), path.replace(".mhd", ".zraw")):
                        if os.path.exists(p):
                            os.remove(p)


# ------------------------------------------------------------------------------------------------ part 2: chains
def gkey(g: Dict[str, Any]) -> str:
    return json.dumps([g["n"], g["h"], g["c"], g["R"]])


def replay_chain(ctx: Ctx, c: Dict[str, Any], filevec: Dict[str, Any], scratch: str, cid: int, dtype: str) -> None:
    import SimpleITK as sitk

    from deepali.core.grid import Axes
    from deepali.data.flow import FlowField
    from deepali.data.image import Image

    g = c["g"]
    n = list(g["n"])
    D, C = len(n), c["C"]
    ac = bool(g["ac"])
    grid = mk_grid(g)
    flow = c["okind"] == "flow"
    data = make_data(n, C, dtype, cid)
    if flow:
        data = data / 16
    FV = {a: np.array(fl(F(m)), dtype=float) for a, m in filevec.items()} if flow else {}
    world = np.einsum("ij,j...->i...", FV[c["axes"]], data.numpy().astype(float)) if flow else None
    obj: Any = FlowField(data, grid, Axes(c["axes"])) if flow else Image(data, grid)
    cur_axes = c["axes"] if flow else "none"
    # the representation the vectors of a FILE / SimpleITK image are stored in: world unless sitk(axes=)/write(axes=) named another one;
    # readers are then told the same representation (read(axes=), from_sitk(axes=))
    file_axes = sitk_axes = "world"
    pick = lambda k_: (None, "grid", None, "cube", "cube_corners", None)[(cid + k_) % 6] if flow else None  # noqa: E731
    akw = lambda a_: {} if a_ is None else {"axes": Axes(a_)}  # noqa: E731
    last_path = None
    done: List[str] = []
    sig0 = dict(part="chain", D=D, multi=C > 1, kind=c["okind"])
    for k, st in enumerate(c["hist"]):
        a = st["a"]
        label = a + (":" + st["f"] if st["f"] else "") + ("@" + st["who"] if a in ("write", "read") else "")
        done.append(label)
        case = dict(chain=c, dtype=dtype, cid=cid)
        try:
            if a == "write":
                last_path = os.path.join(scratch, f"c{cid}_{k}{EXT[st['f']]}")
                if st["who"] == "deepali":
                    if (cid + k) % 3 == 0 or not flow:  # the URI form of the same entry point
                        if (cid + k) % 3 == 0:
                            obj.to_uri(("file://" + last_path) if (cid + k) % 2 else last_path, compress=bool(st["compress"]))
                        else:
                            obj.write(last_path, compress=bool(st["compress"]))
                        file_axes = "world"
                    else:
                        obj.write(last_path, compress=bool(st["compress"]), **akw(pick(k)))
                        file_axes = pick(k) or "world"
                else:
                    sitk.WriteImage(obj, last_path, bool(st["compress"]))
                    file_axes = sitk_axes
            elif a == "read":
                if st["who"] == "deepali":
                    if (cid + k) % 3 == 0:
                        obj = (FlowField if flow else Image).from_uri(last_path, align_corners=ac)
                        if flow:
                            obj = FlowField.from_image(obj, axes=Axes.WORLD) if not isinstance(obj, FlowField) else obj
                        if flow and file_axes != "world":  # (from_uri has no axes argument: the stored vectors are relabelled)
                            obj = FlowField(obj.tensor(), obj.grid(), Axes(file_axes))
                    else:
                        obj = (FlowField if flow else Image).read(last_path, align_corners=ac, **(akw(file_axes) if flow and file_axes != "world" else {}))
                else:
                    obj = sitk.ReadImage(last_path)
                    sitk_axes = file_axes
                cur_axes = file_axes if flow else "none"
            elif a == "to_sitk":
                obj = obj.sitk(**akw(pick(k))) if flow else obj.sitk()
                sitk_axes = (pick(k) or "world") if flow else "world"
                cur_axes = sitk_axes if flow else "none"
            elif a == "from_sitk":
                obj = (FlowField if flow else Image).from_sitk(obj, align_corners=ac, **(akw(sitk_axes) if flow and sitk_axes != "world" else {}))
                cur_axes = sitk_axes if flow else "none"
            elif a == "axes":
                obj = obj.axes(Axes(st["who"]))
                cur_axes = st["who"]
        except Exception as ex:
            ctx.violation(dict(**sig0, what="raises", step=a, fmt=st["f"], who=st["who"], exc=type(ex).__name__),
                          f"chain {done} on a {D}-D {C}-channel {c['okind']} ({dtype}): step {label} raises {type(ex).__name__}: {str(ex)[:100]}", case)
            return
        vals, geo = project(obj)
        mis = geometry_mismatch(geo, g, C)
        if mis is None and flow and not isinstance(obj, sitk.Image) and obj.axes().value != cur_axes:
            mis = f"axes {obj.axes().value} instead of {cur_axes}"
        if mis is None:
            if flow:
                exp = np.einsum("ij,j...->i...", np.linalg.inv(FV[cur_axes]), world)
                if vals.shape != exp.shape or not np.allclose(vals.astype(float), exp, rtol=1e-5, atol=1e-5 * max(1.0, float(np.abs(exp).max()))):
                    mis = f"vectors differ from the original expressed w.r.t. {cur_axes} (max diff {float(np.abs(vals - exp).max()) if vals.shape == exp.shape else 'shape'})"
                elif str(vals.dtype) != dtype:
                    mis = f"dtype {vals.dtype} instead of {dtype}"
            elif vals.shape != tuple(data.shape) or str(vals.dtype) != dtype or not np.array_equal(vals, data.numpy()):
                mis = f"values differ (shape {vals.shape}, dtype {vals.dtype})"
        if mis:
            fmt_last = next((s["f"] for s in reversed(c["hist"][: k + 1]) if s["a"] == "write"), "")
            ctx.violation(dict(**sig0, what="content", step=a, fmt=fmt_last, who=st["who"]),
                          f"chain {done} on a {D}-D {C}-channel {c['okind']} ({dtype}, axes {c['axes']}): after {label}: {mis}", case)
            return
    for f in os.listdir(scratch):
        if f.startswith(f"c{cid}_"):
            os.remove(os.path.join(scratch, f))


def run(ctx: Ctx) -> None:
    tier = ctx.tier
    rng = random.Random(ctx.seed)
    ctx.rule = ("formats: every (grid, channels) leaf of the format lattice x dtypes x compress x writer {deepali, SimpleITK} x 5 formats: header fields and "
                "payload element positions in the file against the specification, then both readers; chains: every write/read/convert/axes chain "
                "of length 2 and a seeded sample of the chains of length 3 (4 thorough) replayed with the content compared after every step")
    res = ctx.tlc("MC_FileStore", cfg("formats", "FormatGrids", 0, False, True), label="format-laws", timeout=3000)
    res = ctx.tlc("MC_FileStore", cfg("formats", "FormatGrids", 0, True, False), label="format-emit", timeout=3000)
    fcases = [c for c in json_lines(res, key=None) if c.get("kind") == "format"]
    if len(fcases) < 50:
        raise MachineryError(f"only {len(fcases)} format cases")
    filevec = {gkey(c["g"]): c["filevec"] for c in fcases}
    scratch = tempfile.mkdtemp(prefix="dvc18_")
    try:
        names = list(DTYPES)
        for i, c in enumerate(fcases):
            dts = names if tier == "thorough" else [names[(i + ctx.seed) % 5], names[(i + ctx.seed + 2) % 5]]
            check_format_case(ctx, c, i, scratch, dts)
        ctx.sample(dict(format_case=fcases[len(fcases) // 2]))
        ctx.tlc("MC_FileStore", cfg("chains", "ChainGrids", 3 if tier == "quick" else 4, False, True), label="chain-laws", timeout=6000)
        res2 = ctx.tlc("MC_FileStore", cfg("chains", "ChainGrids", 2, True, False), label="chains-2", timeout=3000)
        chains2 = [c for c in json_lines(res2, key=None) if c.get("kind") == "chain"]
        res3 = ctx.tlc("MC_FileStore", cfg("chains", "SmallChainGrids" if tier == "quick" else "ChainGrids", 3 if tier == "quick" else 4, True, False),
                       label="chains-long", timeout=6000)
        chains3 = [c for c in json_lines(res3, key=None) if c.get("kind") == "chain"]
        rng.shuffle(chains3)
        chains3 = chains3[: 2500 if tier == "quick" else 40000]
        if len(chains2) < 500 or len(chains3) < 1000:
            raise MachineryError(f"too few chains: {len(chains2)}, {len(chains3)}")
        for cid, c in enumerate(chains2 + chains3):
            if c["okind"] == "flow":
                dtype = FLOW_DTYPES[(cid + ctx.seed) % 2]
            else:
                dtype = names[(cid + ctx.seed) % 5]
            replay_chain(ctx, c, filevec.get(gkey(c["g"])), scratch, cid, dtype)
            ctx.count(key=("chain", json.dumps(c["hist"]), c["okind"], c["axes"], c["C"], len(c["g"]["n"])), nontrivial=any(s["a"] == "read" for s in c["hist"]))
        ctx.traces = len(chains2) + len(chains3)
        ctx.notes["format_cases"] = len(fcases)
        ctx.notes["chains_len2_exhaustive"] = len(chains2)
        ctx.notes["chains_long_sampled"] = len(chains3)
        ctx.sample(dict(chain=chains3[0]))
        # binding self-test: a corrupted expected header must be reported
        probe = Ctx(ctx.prop, ctx.tier, ctx.seed)
        bad = json.loads(json.dumps(fcases[0]))
        bad["meta"]["Offset"][0] = [bad["meta"]["Offset"][0][0] + bad["meta"]["Offset"][0][1], bad["meta"]["Offset"][0][1]]
        bad["nifti"]["affine"][0][3] = [bad["nifti"]["affine"][0][3][0] + bad["nifti"]["affine"][0][3][1], bad["nifti"]["affine"][0][3][1]]
        check_format_case(probe, bad, 0, scratch, ["int16"], writers=("deepali",), fmts=("mha", "nii"))
        if len([v for v in probe.violations if v["signature"].get("what") == "header"]) < 2:
            raise MachineryError("binding self-test failed: corrupted expected headers were not noticed")
        ctx.notes["binding_selftest"] = "expected Offset / affine shifted by one unit: reported for .mha and .nii"
    finally:
        shutil.rmtree(scratch, ignore_errors=True)
    ctx.assumptions += ["SimpleITK 2.5 and nibabel 5.4 as installed are the reference reader/writer; files SimpleITK writes must themselves match the specification "
                        "(otherwise the check stops with a machinery error)",
                        "grid attributes compared with relative tolerance 2e-6 (grids are float32 inside the library); voxel values exactly",
                        "flow fields need more than one sample per axis; .nrrd/.mhd go through SimpleITK inside the library"]


def replay(ctx: Ctx, data: Dict[str, Any]) -> None:
    c = data["case"]
    scratch = tempfile.mkdtemp(prefix="dvc18_")
    try:
        if "chain" in c:
            res = ctx.tlc("MC_FileStore", cfg("formats", "FormatGrids", 0, True, False), label="format-emit", timeout=3000)
            filevec = {gkey(x["g"]): x["filevec"] for x in json_lines(res, key=None) if x.get("kind") == "format"}
            replay_chain(ctx, c["chain"], filevec.get(gkey(c["chain"]["g"])), scratch, c["cid"], c["dtype"])
        else:
            check_format_case(ctx, c["case"], c["idx"], scratch, [c["dtype"]], writers=(c["writer"],), fmts=(c["fmt"],))
    finally:
        shutil.rmtree(scratch, ignore_errors=True)
