"""C08 - homogeneous-transform and rotation algebra (spec: HForms, Rotations)."""
from __future__ import annotations

import json
import math
from typing import Any, Dict, List

import torch

from ..core import Ctx
from ..rat import F, fl, maxabs
from ..tol import max_err
from ..tlc import MachineryError, json_lines

TOL = 2e-6


def operand(x: Dict[str, Any], N: int) -> torch.Tensor:
    """Build the tensor of an HForms operand (float64)."""
    items = x["items"]
    D = len(items[0]["t"])

    def one(it):
        A = torch.tensor(fl(F(it["A"])), dtype=torch.float64)
        t = torch.tensor(fl(F(it["t"])), dtype=torch.float64)
        if x["form"] == "T":
            return t.reshape(D, 1)
        if x["form"] == "A":
            return A
        return torch.cat([A, t.reshape(D, 1)], dim=1)

    if x["batch"] == "none":
        m = one(items[0])
        return m[:, 0] if x["form"] == "T" else m  # a bare D-vector is a translation
    if x["batch"] == "one":
        return one(items[0]).unsqueeze(0)
    return torch.stack([one(items[i]) for i in range(N)])


def check_hforms(ctx: Ctx, c: Dict[str, Any]) -> None:
    from deepali.core.linalg import as_homogeneous_matrix, hmm, homogeneous_matmul, homogeneous_transform

    N = len(c["prod"])
    D = c["D"]
    a, b = operand(c["a"], N), operand(c["b"], N)
    sig0 = dict(fa=c["a"]["form"], fb=c["b"]["form"], ba=c["a"]["batch"], bb=c["b"]["batch"], D=D)
    exp = torch.tensor(fl(F(c["prod"])), dtype=torch.float64)  # (N, D, D+1)
    many = c["batch"] == "many"
    if not many:
        exp = exp[:1]

    def bad(op, msg, **kw):
        ctx.violation(dict(op=op, **sig0, **kw), f"{op}({sig0['fa']}[{sig0['ba']}], {sig0['fb']}[{sig0['bb']}]) D={D}: {msg}", c)

    try:
        cc = homogeneous_matmul(a, b)
    except Exception as ex:
        bad("homogeneous_matmul", f"raised {type(ex).__name__}: {ex}", exc=type(ex).__name__)
        ctx.count(key=json.dumps(sig0, sort_keys=True) + json.dumps(c["a"]["items"]) + json.dumps(c["b"]["items"]))
        return
    # result form
    last = {"T": 1, "A": D, "H": D + 1}[c["form"]]
    if cc.shape[-1] != last or cc.shape[-2] != D:
        bad("homogeneous_matmul", f"result has shape {tuple(cc.shape)}, expected form {c['form']}", what="form")
    try:
        full = as_homogeneous_matrix(cc).reshape(-1, D, D + 1)
    except Exception as ex:
        bad("as_homogeneous_matrix", f"raised {type(ex).__name__}: {ex}", exc=type(ex).__name__, form=c["form"])
        return
    if full.shape[0] != exp.shape[0]:
        bad("homogeneous_matmul", f"result has {full.shape[0]} items, expected {exp.shape[0]}", what="batch")
    else:
        err = max_err(full, exp)
        if err > TOL * max(1.0, float(exp.abs().max())):
            bad("homogeneous_matmul", f"product differs from 'apply b then a' by {err:.3g}", what="value")
    try:
        hm = hmm(a, b).reshape(-1, D, D + 1)
    except Exception as ex:
        bad("hmm", f"raised {type(ex).__name__}: {ex}", exc=type(ex).__name__)
        return
    if hm.shape[0] != exp.shape[0] or max_err(hm, exp) > TOL * max(1.0, float(exp.abs().max())):
        bad("hmm", "full-matrix product differs", what="value")
    # applying: to points and to vectors (translation ignored)
    P = torch.tensor(fl(F(c["P"])), dtype=torch.float64)  # (K, D)
    pts = torch.tensor(fl(F(c["pts"])), dtype=torch.float64)
    vecs = torch.tensor(fl(F(c["vecs"])), dtype=torch.float64)
    if not many:
        pts, vecs = pts[:1], vecs[:1]
    for name, vflag, e in (("points", False, pts), ("vectors", True, vecs)):
        try:
            out = homogeneous_transform(cc, P.unsqueeze(0) if cc.ndim == 3 else P, vectors=vflag)
            out2 = homogeneous_transform(a, homogeneous_transform(b, P.unsqueeze(0) if max(a.ndim, b.ndim) == 3 else P, vectors=vflag), vectors=vflag)
        except Exception as ex:
            bad("homogeneous_transform", f"raised {type(ex).__name__}: {ex}", exc=type(ex).__name__, vectors=vflag)
            continue
        for o, nm in ((out, "product"), (out2, "sequential")):
            o = o.reshape(-1, P.shape[0], D)
            if o.shape[0] != e.shape[0] or max_err(o, e) > TOL * max(1.0, float(e.abs().max())):
                bad("homogeneous_transform", f"{nm} applied to {name} differs from the specified map", vectors=vflag, how=nm)
    # more than two operands: the product of a chain is the chain of pairwise products (every form may follow every form)
    def full_of(x_):
        items = x_["items"] if x_["batch"] == "many" else x_["items"][:1]
        eye = torch.eye(D, dtype=torch.float64)
        return torch.stack([torch.cat([eye if x_["form"] == "T" else torch.tensor(fl(F(it["A"])), dtype=torch.float64),
                                       (torch.zeros(D, dtype=torch.float64) if x_["form"] == "A" else torch.tensor(fl(F(it["t"])), dtype=torch.float64)).reshape(D, 1)], dim=1) for it in items])

    def comp(X, Y):  # apply Y then X, (K, D, D+1) each with broadcasting over K
        K = max(X.shape[0], Y.shape[0])
        X, Y = X.expand(K, D, D + 1), Y.expand(K, D, D + 1)
        A_ = X[:, :, :D] @ Y[:, :, :D]
        t_ = (X[:, :, :D] @ Y[:, :, D:]) + X[:, :, D:]
        return torch.cat([A_, t_], dim=2)

    FA, FB = full_of(c["a"]), full_of(c["b"])
    for label, ops_, fulls in (("a,a,b", (a, a, b), (FA, FA, FB)), ("a,b,a", (a, b, a), (FA, FB, FA)), ("b,b,a", (b, b, a), (FB, FB, FA)), ("a,a,a,b", (a, a, a, b), (FA, FA, FA, FB))):
        e = fulls[-1]
        for Fm in reversed(fulls[:-1]):
            e = comp(Fm, e)
        try:
            got = as_homogeneous_matrix(homogeneous_matmul(*ops_)).reshape(-1, D, D + 1).double()
        except Exception as ex:
            bad("homogeneous_matmul", f"chain ({label}) raised {type(ex).__name__}: {ex}", exc=type(ex).__name__, chain=label)
            continue
        if got.shape[0] != e.shape[0] or max_err(got, e) > TOL * max(1.0, float(e.abs().max())):
            bad("homogeneous_matmul", f"chain ({label}) differs from the chain of pairwise products" + ("" if got.shape[0] == e.shape[0] else f" (batch {got.shape[0]} vs {e.shape[0]})"), chain=label, what="chain")
    # applying with mixed dtypes: integer points (voxel indices) with a float transform, float points with an integer transform
    try:
        Pi_ = torch.tensor([[2, -1, 3][:D], [0, 4, 1][:D], [-3, 2, 2][:D]], dtype=torch.int64)
        Pf_ = Pi_.double() + 0.25
        for vflag in (False, True):
            for label, T_, X_ in (("int points, float transform", a, Pi_), ("float points, int transform", (a * 2).round().to(torch.int64), Pf_), ("int32 points", b, Pi_.to(torch.int32))):
                Xb = X_.unsqueeze(0) if T_.ndim == 3 else X_
                got = homogeneous_transform(T_, Xb, vectors=vflag)
                ref_ = homogeneous_transform(T_.double(), Xb.double(), vectors=vflag)
                if not got.dtype.is_floating_point or got.shape != ref_.shape or max_err(got.double(), ref_) > TOL * max(1.0, float(ref_.abs().max())):
                    bad("homogeneous_transform", f"{label} (vectors={vflag}): result {got.dtype} differs from the same operands in float64", what="mixed_dtype", dtypes=label, vectors=vflag)
    except Exception as ex:
        bad("homogeneous_transform", f"mixed dtypes raised {type(ex).__name__}: {str(ex)[:100]}", exc=type(ex).__name__, what="mixed_dtype")
    # operands of integer dtype (e.g. a permutation / flip matrix, a voxel shift) compose like the same numbers in floating point
    try:
        ai_ = (a * 2).round().to(torch.int64)
        for label, x_, y_ in (("int, float", ai_, b), ("float, int", b, ai_), ("int, int", ai_, ai_)):
            got = as_homogeneous_matrix(homogeneous_matmul(x_, y_)).double().reshape(-1, D, D + 1)
            ref_ = as_homogeneous_matrix(homogeneous_matmul(x_.double(), y_.double())).double().reshape(-1, D, D + 1)
            if got.shape != ref_.shape or max_err(got, ref_) > TOL * max(1.0, float(ref_.abs().max())):
                bad("homogeneous_matmul", f"operands of dtype ({label}) give another product than the same operands in float64", what="int_dtype", dtypes=label)
    except Exception as ex:
        bad("homogeneous_matmul", f"integer-typed operand raised {type(ex).__name__}: {str(ex)[:100]}", exc=type(ex).__name__, what="int_dtype")
    # conversion to a full matrix with an extra translation offset: the linear part stays, the offset ADDS to the translation
    from deepali.core.linalg import homogeneous_matrix

    for x_, ten in ((c["a"], a), (c["b"], b)):
        items = x_["items"] if x_["batch"] == "many" else x_["items"][:1]
        eye = torch.eye(D, dtype=torch.float64)
        base = torch.stack([torch.cat([eye if x_["form"] == "T" else torch.tensor(fl(F(it["A"])), dtype=torch.float64),
                                       (torch.zeros(D, dtype=torch.float64) if x_["form"] == "A" else torch.tensor(fl(F(it["t"])), dtype=torch.float64)).reshape(D, 1)], dim=1) for it in items])
        for oname, off in (("none", None), ("scalar", torch.tensor(0.75, dtype=torch.float64)), ("vector", torch.tensor([0.5, -1.25, 2.0][:D], dtype=torch.float64))):
            e = base.clone()
            if off is not None:
                e[..., D] += off
            before = ten.clone()
            try:
                hm_ = homogeneous_matrix(ten, offset=off)
            except Exception as ex:
                bad("homogeneous_matrix", f"raised {type(ex).__name__}: {ex}", exc=type(ex).__name__, form=x_["form"], offset=oname)
                continue
            if hm_.shape[-2:] != (D, D + 1) or hm_.reshape(-1, D, D + 1).shape[0] != e.shape[0] or max_err(hm_.reshape(-1, D, D + 1), e) > TOL * max(1.0, float(e.abs().max())):
                bad("homogeneous_matrix", f"full matrix of a {x_['form']} operand with offset={oname} differs from [A | t + offset]", form=x_["form"], offset=oname)
            if max_err(ten, before) > 0:
                bad("homogeneous_matrix", "changed its argument", form=x_["form"], offset=oname, what="mutates")
    # conversion to a full matrix does not change the map
    fa_exp = torch.tensor([[list(r) + [0.0] for r in fl(F(it["A"]))] for it in c["a"]["items"]], dtype=torch.float64)
    ctx.count(key=json.dumps(sig0, sort_keys=True) + json.dumps(c["a"]["items"]) + json.dumps(c["b"]["items"]),
              nontrivial=True)


def angle(cs) -> float:
    c, s = fl(F(cs))
    return math.atan2(s, c)


def order_forms(order: List[str], k: int) -> str:
    s = "".join(order)
    forms = [s, s.lower(), " o ".join("R" + ch.lower() for ch in order)]
    return forms[k % 3]


def check_rotation(ctx: Ctx, c: Dict[str, Any], k: int) -> None:
    import deepali.core.affine as A
    import deepali.core.linalg as L

    M = torch.tensor(fl(F(c["M"])), dtype=torch.float64)

    def bad(op, what, **kw):
        ctx.violation(dict(op=op, kind=c["kind"], **kw), f"{op}: {what}", c)

    def guarded(op, fn, **kw):
        try:
            return fn()
        except NotImplementedError:
            return None  # documented as not offered
        except Exception as ex:
            bad(op, f"raised {type(ex).__name__}: {str(ex)[:140]}", exc=type(ex).__name__, **kw)
            return None

    def same(op, got, **kw):
        if got is None:
            return
        Dm = M.shape[0]
        if got.ndim < 2 or got.shape[-2] != Dm or got.shape[-1] not in (Dm, Dm + 1):
            bad(op, f"result has shape {tuple(got.shape)}", what="shape", **kw)
            return
        if got.shape[-1] == Dm + 1:  # homogeneous form: translation must be zero
            if float(got[..., Dm].abs().max()) > TOL:
                bad(op, "homogeneous rotation matrix has a non-zero translation column", **kw)
                return
            got = got[..., :Dm]
        for g in got.reshape(-1, Dm, Dm):
            err = max_err(g, M)
            if err > TOL:
                bad(op, f"rotation differs from the specified matrix by {err:.3g}", **kw)
                return

    if c["kind"] == "euler":
        order = c["order"]
        o = order_forms(order, k)
        notation = ["upper", "lower", "R-notation"][k % 3]
        ang = torch.tensor([angle(cs) for cs in c["cs"]], dtype=torch.float64)
        proper = order[0] != order[1] and order[1] != order[2]
        osig = dict(order="".join(order), proper=proper, gimbal=bool(abs(math.sin(float(ang[1]))) < 1e-12))
        same("euler_rotation_matrix", guarded("euler_rotation_matrix", lambda: A.euler_rotation_matrix(ang.unsqueeze(0), order=o), form="batched", notation=notation, **osig), form="batched", **osig)
        same("euler_rotation_matrix", guarded("euler_rotation_matrix", lambda: A.euler_rotation_matrix(ang, order=o), form="unbatched", notation=notation, **osig), form="unbatched", **osig)
        same("euler_rotation_matrix", guarded("euler_rotation_matrix", lambda: A.euler_rotation_matrix(torch.stack([ang, ang]), order=o, homogeneous=True), form="homogeneous", notation=notation, **osig), form="homogeneous", **osig)
        same("rotation_matrix", guarded("rotation_matrix", lambda: A.rotation_matrix(ang.unsqueeze(0), order="".join(order)), form="batched", **osig), form="batched", **osig)
        # angles given in other forms and dtypes mean the same rotation: float32 / float64 tensors, Python floats, and WHOLE radians as ints
        ai = [1, -2, 3][: len(c["cs"])]
        ref_i = guarded("euler_rotation_matrix", lambda: A.euler_rotation_matrix(torch.tensor([ai], dtype=torch.float64), order=o), form="int reference", **osig)
        if ref_i is not None:
            for fname, arg_ in (("int64 tensor", torch.tensor([ai], dtype=torch.int64)), ("int32 tensor", torch.tensor([ai], dtype=torch.int32)), ("float32 tensor", torch.tensor([ai], dtype=torch.float32)),
                                ("tuple of ints", tuple(ai)), ("list of floats", [float(v) for v in ai])) + ((("int", ai[0]), ("float", float(ai[0]))) if len(ai) == 1 else ()):
                got_i = guarded("euler_rotation_matrix", lambda: A.euler_rotation_matrix(arg_, order=o), angles=fname, **osig)
                if got_i is None:
                    continue
                if not got_i.dtype.is_floating_point:
                    bad("euler_rotation_matrix", f"angles given as {fname} produce a rotation matrix of dtype {got_i.dtype}", angles=fname, aspect="dtype", **osig)
                elif max_err(got_i.double().reshape(-1, *ref_i.shape[-2:])[0], ref_i.reshape(-1, *ref_i.shape[-2:])[0]) > 1e-6:
                    bad("euler_rotation_matrix", f"angles {ai} given as {fname} produce another matrix than the same angles as float64 tensor", angles=fname, aspect="value", **osig)
        # angles <- matrix (documented for some orders only), judged in matrix space
        a2 = guarded("euler_rotation_angles", lambda: A.euler_rotation_angles(M.unsqueeze(0), order="".join(order)), **osig)
        if a2 is not None:
            same("euler_rotation_angles", guarded("euler_rotation_matrix", lambda: A.euler_rotation_matrix(a2, order="".join(order)), form="batched", **osig), **osig)
        # transform class getters / setters
        from deepali.core.grid import Grid
        from deepali.spatial import EulerRotation

        g3 = Grid(size=(4, 5, 6))
        for holder in ("tensor", "param", "frozen"):
            if holder != "tensor" and any(abs(abs(float(v)) - math.pi) < 1e-9 for v in ang):
                continue  # +-pi is the open end of the squashed parameter range
            t = guarded("EulerRotation", lambda: EulerRotation(g3, params=(holder != "tensor"), order="".join(order)), **osig)
            if t is None:
                continue
            if holder == "frozen":  # an optimisable parameter that is currently frozen is still a (squashed) Parameter
                t.requires_grad_(False)
            if guarded("EulerRotation.angles_", lambda: t.angles_(ang.unsqueeze(0).float()), holder=holder, **osig) is None:
                continue
            tm = guarded("EulerRotation.tensor", lambda: t.tensor().double(), holder=holder, form="batched", **osig)
            if tm is not None and max_err(tm[0], M) > 2e-5:
                bad("EulerRotation.tensor", f"differs from the specified matrix by {max_err(tm[0], M):.3g}", holder=holder, **osig)
            back = guarded("EulerRotation.angles", lambda: t.angles().double(), holder=holder, **osig)
            if back is not None and max_err(back[0], ang) > 2e-5:
                bad("EulerRotation.angles", "angles_() then angles() does not round-trip", holder=holder, **osig)
            ti = guarded("EulerRotation.inverse", lambda: t.inverse().tensor().double(), holder=holder, form="batched", **osig)
            if ti is not None and max_err(ti[0], M.t()) > 2e-5:
                bad("EulerRotation.inverse", "inverse is not the transposed rotation", holder=holder, **osig)
        if "".join(order) in ("ZXZ", "XZX"):
            t = EulerRotation(g3, params=False, order="".join(order))
            if guarded("EulerRotation.matrix_", lambda: t.matrix_(M.unsqueeze(0).float()), **osig) is not None:
                tm = guarded("EulerRotation.tensor", lambda: t.tensor().double(), form="batched", **osig)
                if tm is not None and max_err(tm[0], M) > 2e-4:
                    bad("EulerRotation.matrix_", f"matrix_() then tensor() differs by {max_err(tm[0], M):.3g}", **osig)
    elif c["kind"] == "planar":
        ang = torch.tensor([angle(c["cs"][0])], dtype=torch.float64)
        same("euler_rotation_matrix", guarded("euler_rotation_matrix", lambda: A.euler_rotation_matrix(ang.unsqueeze(0)), D=2), D=2)
        same("euler_rotation_matrix", guarded("euler_rotation_matrix", lambda: A.euler_rotation_matrix(float(ang[0])), D=2, form="scalar"), D=2, form="scalar")
        a2 = guarded("euler_rotation_angles", lambda: A.euler_rotation_angles(M.unsqueeze(0)), D=2)
        if a2 is not None:
            same("euler_rotation_angles", guarded("euler_rotation_matrix", lambda: A.euler_rotation_matrix(a2.reshape(1, 1)), D=2), D=2, negative=bool(ang[0] < 0))
        from deepali.core.grid import Grid
        from deepali.spatial import EulerRotation

        t = EulerRotation(Grid(size=(4, 5)), params=False)
        if guarded("EulerRotation.angles_", lambda: t.angles_(ang.unsqueeze(0).float()), D=2) is not None:
            tm = guarded("EulerRotation.tensor", lambda: t.tensor().double(), D=2)
            if tm is not None and max_err(tm[0], M) > 2e-5:
                bad("EulerRotation.tensor", "2-D rotation differs", D=2)
        t2 = EulerRotation(Grid(size=(4, 5)), params=False)
        if guarded("EulerRotation.matrix_", lambda: t2.matrix_(M.unsqueeze(0).float()), D=2) is not None:
            tm = guarded("EulerRotation.tensor", lambda: t2.tensor().double(), D=2)
            if tm is not None and max_err(tm[0], M) > 2e-4:
                bad("EulerRotation.matrix_", "2-D matrix_() then tensor() differs", D=2, negative=bool(ang[0] < 0))
    else:  # axis-angle / quaternion
        kax = torch.tensor(fl(F(c["axis"])), dtype=torch.float64)
        th = angle(c["cs2"])
        aa = (kax * th).unsqueeze(0)
        q = torch.tensor(fl(F(c["quat"])), dtype=torch.float64).unsqueeze(0)
        half_turn = abs(abs(th) - math.pi) < 1e-9
        zero = abs(th) < 1e-12
        sig = dict(half_turn=half_turn, zero=zero)
        same("angle_axis_to_rotation_matrix", guarded("angle_axis_to_rotation_matrix", lambda: L.angle_axis_to_rotation_matrix(aa), **sig), **sig)
        same("quaternion_to_rotation_matrix", guarded("quaternion_to_rotation_matrix", lambda: L.quaternion_to_rotation_matrix(q), **sig), **sig)
        same("quaternion_to_rotation_matrix", guarded("quaternion_to_rotation_matrix", lambda: L.quaternion_to_rotation_matrix(-q), neg=True, **sig), neg=True, **sig)
        same("normalize_quaternion", guarded("normalize_quaternion", lambda: L.quaternion_to_rotation_matrix(L.normalize_quaternion(q * 2.5)), **sig), **sig)
        aa2 = guarded("rotation_matrix_to_angle_axis", lambda: L.rotation_matrix_to_angle_axis(M.unsqueeze(0)), **sig)
        if aa2 is not None:
            same("rotation_matrix_to_angle_axis", guarded("angle_axis_to_rotation_matrix", lambda: L.angle_axis_to_rotation_matrix(aa2), **sig), **sig)
        q2 = guarded("rotation_matrix_to_quaternion", lambda: L.rotation_matrix_to_quaternion(M.unsqueeze(0)), **sig)
        if q2 is not None:
            same("rotation_matrix_to_quaternion", guarded("quaternion_to_rotation_matrix", lambda: L.quaternion_to_rotation_matrix(q2), **sig), **sig)
        aa3 = guarded("quaternion_to_angle_axis", lambda: L.quaternion_to_angle_axis(q), **sig)
        if aa3 is not None:
            same("quaternion_to_angle_axis", guarded("angle_axis_to_rotation_matrix", lambda: L.angle_axis_to_rotation_matrix(aa3), **sig), **sig)
        q3 = guarded("angle_axis_to_quaternion", lambda: L.angle_axis_to_quaternion(aa), **sig)
        if q3 is not None:
            same("angle_axis_to_quaternion", guarded("quaternion_to_rotation_matrix", lambda: L.quaternion_to_rotation_matrix(q3), **sig), **sig)
        ql = guarded("quaternion_exp_to_log", lambda: L.quaternion_log_to_exp(L.quaternion_exp_to_log(q)), **sig)
        if ql is not None:
            same("quaternion_log_exp", guarded("quaternion_to_rotation_matrix", lambda: L.quaternion_to_rotation_matrix(ql), **sig), **sig)
        # the same axis with SMALL angles (around the switch to the series expansion near zero): Rodrigues' formula in float64
        K = torch.tensor([[0.0, -kax[2], kax[1]], [kax[2], 0.0, -kax[0]], [-kax[1], kax[0], 0.0]], dtype=torch.float64)
        for ths in (2e-3, 1.5e-3, 9e-4, 5e-4, 1e-4, -7e-4, 1e-6):
            Ms = torch.eye(3, dtype=torch.float64) + math.sin(ths) * K + (1 - math.cos(ths)) * (K @ K)
            for dt in (torch.float64, torch.float32):
                got = guarded("angle_axis_to_rotation_matrix", lambda: L.angle_axis_to_rotation_matrix((kax * ths).unsqueeze(0).to(dt)), small=True)
                if got is not None and max_err(got.double().reshape(-1, 3, 3)[0], Ms) > max(2e-7, 2 * ths * ths):
                    bad("angle_axis_to_rotation_matrix", f"rotation by the small angle {ths} differs from Rodrigues' formula by {max_err(got.double().reshape(-1, 3, 3)[0], Ms):.3g}", small=True)
                    break
            qs = guarded("angle_axis_to_quaternion", lambda: L.angle_axis_to_quaternion((kax * ths).unsqueeze(0)), small=True)
            if qs is not None:
                got = guarded("quaternion_to_rotation_matrix", lambda: L.quaternion_to_rotation_matrix(qs), small=True)
                if got is not None and max_err(got.double().reshape(-1, 3, 3)[0], Ms) > max(2e-7, 2 * ths * ths):
                    bad("angle_axis_to_quaternion", f"quaternion of the small rotation {ths} gives a matrix off by {max_err(got.double().reshape(-1, 3, 3)[0], Ms):.3g}", small=True)
            aas = guarded("rotation_matrix_to_angle_axis", lambda: L.rotation_matrix_to_angle_axis(Ms.unsqueeze(0)), small=True)
            if aas is not None and max_err(aas.double().reshape(-1)[:3], kax * ths) > max(2e-7, 2 * ths * ths):
                bad("rotation_matrix_to_angle_axis", f"rotation vector of the small rotation {ths} is off by {max_err(aas.double().reshape(-1)[:3], kax * ths):.3g}", small=True)
        from deepali.core.grid import Grid
        from deepali.spatial import QuaternionRotation

        g3 = Grid(size=(4, 5, 6))
        t = QuaternionRotation(g3, params=False)
        if guarded("QuaternionRotation.quaternion_", lambda: t.quaternion_((q * 3).float()), **sig) is not None:
            tm = guarded("QuaternionRotation.tensor", lambda: t.tensor().double(), **sig)
            if tm is not None and max_err(tm[0], M) > 2e-5:
                bad("QuaternionRotation.tensor", "quaternion_() then tensor() differs from the specified matrix", **sig)
            ti = guarded("QuaternionRotation.inverse", lambda: t.inverse().tensor().double(), **sig)
            if ti is not None and max_err(ti[0], M.t()) > 2e-5:
                bad("QuaternionRotation.inverse", "inverse is not the transposed rotation", **sig)
        t2 = QuaternionRotation(g3, params=False)
        if guarded("QuaternionRotation.matrix_", lambda: t2.matrix_(M.unsqueeze(0).float()), **sig) is not None:
            tm = guarded("QuaternionRotation.tensor", lambda: t2.tensor().double(), **sig)
            if tm is not None and max_err(tm[0], M) > 2e-4:
                bad("QuaternionRotation.matrix_", "matrix_() then tensor() differs from the specified matrix", **sig)
    ctx.count(key=json.dumps([c["kind"], c["order"], c["cs"], c["axis"]]), nontrivial=True)


def run(ctx: Ctx) -> None:
    tier = ctx.tier
    ctx.rule = ("HForms: one case per (form_a, batch_a, matrices_a, form_b, batch_b, matrices_b) leaf, D in {2,3}; Rotations: one case per "
                "(order, angle triple) / (axis, angle) / planar angle; all distinct and non-trivial (non-identity operands)")
    hc = ("SPECIFICATION Spec\nCONSTANTS\n  Dims = {2, 3}\n  MatsOf <- QMats\n  VecsOf <- QVecs\n  NBatch = 2\n  ProbesOf <- Probes\n"
          "  EmitCases = %s\n%sCONSTRAINT Emit\n")
    ctx.tlc("MC_HForms", hc % ("FALSE", "INVARIANT Laws\n"), label="hforms-laws", timeout=3000)
    res = ctx.tlc("MC_HForms", hc % ("TRUE", ""), label="hforms-emit", timeout=3000)
    hcases = json_lines(res, key=None)
    if not hcases:
        raise MachineryError("no HForms cases")
    for c in hcases:
        check_hforms(ctx, c)
    ctx.sample({k: hcases[len(hcases) // 2][k] for k in ("a", "b", "form", "batch", "prod")})
    rc = ("SPECIFICATION Spec\nCONSTANTS\n  Angles <- %s\n  HalfAngles <- QHalfAngles\n  Orders <- %s\n  EmitCases = %s\n%sCONSTRAINT Emit\n")
    ang = "QAngles" if tier == "quick" else "TAngles"
    orders = "OrdersProper" if tier == "quick" else "OrdersAll"
    ctx.tlc("MC_Rotations", rc % (ang, orders, "FALSE", "INVARIANT Laws\n"), label="rot-laws", timeout=3000)
    res = ctx.tlc("MC_Rotations", rc % (ang, orders, "TRUE", ""), label="rot-emit", timeout=3000)
    rcases = json_lines(res, key=None)
    for k, c in enumerate(rcases):
        check_rotation(ctx, c, k + ctx.seed)
    ctx.sample({k: rcases[len(rcases) // 2][k] for k in ("kind", "order", "cs", "M")})
    ctx.traces = len(hcases) + len(rcases)
    ctx.notes["hforms_cases"] = len(hcases)
    ctx.notes["rotation_cases"] = len(rcases)
    # binding self-test
    probe = Ctx(ctx.prop, ctx.tier, ctx.seed)
    probe.findings = []
    def asym(x):  # a rotation that differs from its transpose (not the identity, not a half turn)
        M_ = fl(F(x["M"]))
        return max(abs(M_[i][j] - M_[j][i]) for i in range(len(M_)) for j in range(len(M_))) > 0.1

    c = json.loads(json.dumps(next(x for x in rcases if x["kind"] == "euler" and x["cs"][0] != [[1, 1], [0, 1]] and x["cs"][1] != [[1, 1], [0, 1]] and asym(x))))
    c["M"] = [list(r) for r in zip(*c["M"])]  # transposed expectation
    check_rotation(probe, c, 0)
    if not probe.violations:
        raise MachineryError("binding self-test failed: transposed rotation accepted")
    ctx.notes["binding_selftest"] = "transposed expected rotation rejected"
    ctx.assumptions += ["angles restricted to quarter turns and Pythagorean angles (exact rational cos/sin); conversions judged in rotation-matrix space",
                        "orders for which euler_rotation_angles documents NotImplementedError are not offered"]


def replay(ctx: Ctx, data: Dict[str, Any]) -> None:
    c = data["case"]
    if "prod" in c:
        check_hforms(ctx, c)
    else:
        check_rotation(ctx, c, 0)
