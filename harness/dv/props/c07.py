"""C07 - inverse() really inverts (spec: Transform for linear models and composites, TransformState for velocity fields)."""
from __future__ import annotations

import json
from typing import Any, Dict, List

import torch

from ..core import Ctx
from ..gridlib import mk_grid
from ..tform import apply_hom, build, hom
from ..tol import max_err
from ..tlc import MachineryError, json_lines
from . import c06, c09

ATOL = 5e-5


def check_inverse(ctx: Ctx, c: Dict[str, Any], c_new: Dict[str, Any], k: int) -> None:
    from deepali.core.linalg import as_homogeneous_matrix

    name, parts = c["name"], c["parts"]
    g = mk_grid(c["g"])
    D = g.ndim
    M, Minv = hom(c["M"]), hom(c["Minv"])
    Mn, Mninv = hom(c_new["M"]), hom(c_new["Minv"])
    P = c06.probes(D)
    x = P.float().unsqueeze(0)
    scale = max(1.0, float(Minv.abs().max()), float(Mninv.abs().max()))
    for holder in ("tensor", "param"):
        for link, ub, via_inv in ((False, False, False), (False, True, False), (True, False, False), (True, True, False), (True, True, True)):
            if (k + len(holder) + link * 2 + ub) % 2 and not via_inv and ctx.tier == "quick":
                continue  # quick tier: half of the combinations per case (all are covered across cases)
            sig0 = dict(model=name, D=D, holder=holder, link=link, ub=ub, via_inv=via_inv)

            def bad(what, msg, **kw):
                ctx.violation(dict(what=what, **sig0, **kw),
                              f"{name}[{holder}] inverse(link={link}, update_buffers={ub}{', via .inv' if via_inv else ''}): {msg}", c)

            try:
                t = build(name, parts, g, holder)
            except Exception as ex:
                raise MachineryError(f"cannot build {name}: {ex}")
            try:
                ti = t.inv if via_inv else t.inverse(link=link, update_buffers=ub)
            except NotImplementedError:
                continue  # inverse not offered by this model
            except Exception as ex:
                bad("inverse()", f"raised {type(ex).__name__}: {str(ex)[:140]}", exc=type(ex).__name__)
                continue
            try:
                Ti = as_homogeneous_matrix(ti.tensor())[0]
                if max_err(Ti, Minv) > ATOL * scale:
                    bad("matrix", f"matrix of the inverse differs from the inverse map by {max_err(Ti, Minv):.3g}")
                y = ti(t(x))
                if max_err(y, x) > ATOL * scale:
                    bad("roundtrip", f"inverse(T(x)) differs from x by {max_err(y, x):.3g}", order="inv o T")
                y = t(ti(x))
                if max_err(y, x) > ATOL * scale:
                    bad("roundtrip", f"T(inverse(x)) differs from x by {max_err(y, x):.3g}", order="T o inv")
                # the inverse of the inverse is the transform itself; a sequence that starts with an inverted member inverts too
                try:
                    tii = ti.inv if via_inv else ti.inverse(link=link, update_buffers=ub)
                    Tii = as_homogeneous_matrix(tii.tensor())[0]
                    Mfw = as_homogeneous_matrix(t.tensor())[0].to(Tii.dtype)
                    if max_err(Tii, Mfw) > ATOL * scale:
                        bad("double inverse", f"inverse of the inverse differs from the transform by {max_err(Tii, Mfw):.3g}")
                    from deepali.spatial import SequentialTransform

                    seq = SequentialTransform(ti, t)
                    y = seq.inverse()(seq(x))
                    if max_err(y, x) > ATOL * scale:
                        bad("double inverse", f"the inverse of Sequential(inverse(T), T) does not undo it (off by {max_err(y, x):.3g})", what="sequence of inverted member")
                except NotImplementedError:
                    pass
                # the forward parameters are changed IN PLACE (optimiser style): the inverse must follow
                t_new = build(c_new["name"], c_new["parts"], g, holder)
                t.load_state_dict(t_new.state_dict())  # copies into the existing parameter tensors
                Tn = as_homogeneous_matrix(t.tensor())[0]
                if max_err(Tn, Mn) > ATOL * scale:
                    raise MachineryError("in-place parameter change did not take effect on the forward transform")
                y = ti(t(x))
                if max_err(y, x) > ATOL * scale:
                    bad("after in-place change", f"after an in-place parameter change inverse(T(x)) differs from x by {max_err(y, x):.3g}")
                Ti = as_homogeneous_matrix(ti.tensor())[0]
                if max_err(Ti, Mninv) > ATOL * scale:
                    bad("after in-place change", f"after an in-place parameter change the inverse matrix is off by {max_err(Ti, Mninv):.3g}")
                # replacement of the parameters (setters / data_): required to follow for LINKED inverses
                if link:
                    t2 = build(name, parts, g, holder)
                    ti2 = t2.inv if via_inv else t2.inverse(link=True, update_buffers=ub)
                    from ..tform import CHILD_NAME, set_part

                    members = dict(t2.named_transforms()) if hasattr(t2, "named_transforms") else None
                    if members is None:
                        set_part(t2, c_new["parts"][0])
                    elif name.startswith("Sequential"):
                        for m, p in zip(t2.transforms(), c_new["parts"]):
                            set_part(m, p)
                    else:
                        for p in c_new["parts"]:
                            nm = {"quaternion": "quaternion", "homogeneous": "affine"}.get(p["k"], CHILD_NAME[p["k"]]) if name.startswith("Generic") else CHILD_NAME[p["k"]]
                            set_part(t2[nm], p)
                    y = ti2(t2(x))
                    if max_err(y, x) > ATOL * scale:
                        bad("after replacement", f"after replacing the forward parameters the linked inverse no longer inverts (off by {max_err(y, x):.3g})")
            except MachineryError:
                raise
            except Exception as ex:
                bad("use", f"raised {type(ex).__name__}: {str(ex)[:140]}", exc=type(ex).__name__)
            ctx.count(key=json.dumps([name, parts, c["g"], holder, link, ub, via_inv]))


def run(ctx: Ctx) -> None:
    tier = ctx.tier
    ctx.rule = ("linear models and composites: one case per (model, parameters, grid) x holder x link x update_buffers x (.inv), each checked for "
                "inverse matrix = exact inverse map, both round trips, and again after an in-place / replacing parameter change; velocity-field "
                "models: every TransformState history containing inverse() (observations must be the negated version)")
    ctx.tlc("MC_Transform", c06.cfg(tier, False), label="laws", timeout=3000)
    res = ctx.tlc("MC_Transform", c06.cfg(tier, True), label="emit", timeout=3000)
    cases = json_lines(res, key=None)
    by: Dict[str, List[dict]] = {}
    for c in cases:
        by.setdefault(c["name"] + json.dumps(c["g"]), []).append(c)
    for key, cs in by.items():
        for i, c in enumerate(cs):
            check_inverse(ctx, c, cs[(i + 1) % len(cs)], i + ctx.seed)
    ctx.sample({k: cases[0][k] for k in ("name", "parts", "M", "Minv")})
    # velocity-field models: histories with inverse creation (shared specification with C09)
    vconf = [("SVF", "param", "GridsDenseQ"), ("SVF", "tensor", "GridsDenseQ"), ("SVF", "callable", "GridsDenseQ"), ("SVFFD", "tensor", "GridsSpline")]
    if tier == "thorough":
        vconf += [("SVFFD", "param", "GridsSpline"), ("SVFFD", "callable", "GridsSpline")]
    # the forward transform starts with non-identity parameters (version 1) so that the sign of the inverse is visible
    hs = c09.enumerate_histories(ctx, vconf, 2 if tier == "quick" else 3, 3 if tier == "quick" else 4, "inv", initver=1)
    hs += c09.simulate_histories(ctx, vconf, 3, 8 if tier == "quick" else 12, 100 if tier == "quick" else 2000, initver=1)
    n = 0
    seen = set()
    for h in hs:
        if not any(s["a"] == "inverse" for s in h["hist"]) or any(s["a"] == "deepcopy" for s in h["hist"]):
            continue  # deep copies are C09/C15 matter
        key = json.dumps(h, sort_keys=True)
        if key in seen:
            continue
        seen.add(key)
        c09.replay_history(ctx, h)
        ctx.count(key=key)
        n += 1
    ctx.traces = n + len(cases)
    ctx.notes["velocity_field_histories_with_inverse"] = n
    if n == 0:
        raise MachineryError("no inverse histories")
    ctx.sample(next(h for h in hs if any(s["a"] == "inverse" for s in h["hist"])))
    # binding self-test
    probe = Ctx(ctx.prop, ctx.tier, ctx.seed)
    probe.findings = []
    c = json.loads(json.dumps(next(x for x in cases if x["name"] == "AffineTransform")))
    c["Minv"], c["M"] = c["M"], c["M"]
    check_inverse(probe, c, c, 0)
    if not probe.violations:
        raise MachineryError("binding self-test failed")
    ctx.notes["binding_selftest"] = "wrong expected inverse matrix rejected"
    ctx.assumptions += ["velocity-field models: exact on constant fields (versions); the 'second order in amplitude' accuracy clause for smooth fields is numerical analysis, not decided here (DESIGN section 4)",
                        "replacement of parameters is required to be followed only by linked inverses (conservative reading)"]


def replay(ctx: Ctx, data: Dict[str, Any]) -> None:
    c = data["case"]
    if "hist" in c:
        c09.replay_history(ctx, c)
    else:
        check_inverse(ctx, c, c, 0)
        check_inverse(ctx, c, c, 1)
