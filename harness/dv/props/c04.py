"""C04 - image operations move voxel data and sampling grid in lock-step (spec: Image on top of GridOps)."""
from __future__ import annotations

import json
from typing import Any, Dict, List, Optional

import torch

from ..core import Ctx
from ..gridlib import grid_sig, mk_grid
from ..rat import F, fl, maxabs
from ..tol import F32, bound, max_err
from ..tlc import MachineryError, json_lines
from .c03 import compare_grid, interleave, op_sig


def ac_kw(o):
    return {} if o["ac"] == -1 else {"align_corners": bool(o["ac"])}


def apply_img_op(x, o: Dict[str, Any], variant: int = 0):
    """Execute one spec operation through the image API (ImageBatch or Image)."""
    op = o["op"]
    single = x.ndim == x.grid().ndim + 1 if hasattr(x, "grid") and not hasattr(x, "grids") else False
    if op == "resize":
        return x.resize(o["n"], mode="linear", **ac_kw(o)) if variant % 2 == 0 else x.resize(*o["n"], **ac_kw(o))
    if op == "resample":
        h_ = fl(F(o["h"]))
        g_ = x.grid() if single else x.grids()[0]
        if variant % 4 == 1:
            return x.resample(*h_)
        if len(set(h_)) == 1 and variant % 4 == 2:
            if abs(float(g_.spacing().min()) - h_[0]) < 1e-9:
                return x.resample("min")
            if abs(float(g_.spacing().max()) - h_[0]) < 1e-9:
                return x.resample("max")
            return x.resample(h_[0])
        return x.resample(h_)
    if op == "downsample":
        if variant % 3 == 2 and o["min"] <= 1:  # the documented equivalent: upsampling by a negative number of levels
            return x.upsample(-o["levels"], dims=o["dims"] or None, sigma=0, **ac_kw(o))
        return x.downsample(o["levels"], dims=o["dims"] or None, sigma=0, min_size=o["min"], **ac_kw(o))
    if op == "upsample":
        return x.upsample(o["levels"], dims=o["dims"] or None, **ac_kw(o))
    if op in ("crop", "pad"):
        f = getattr(x, op)
        if o["lo"] == o["hi"] and variant % 2:
            if variant % 4 == 3 and len(set(o["lo"])) == 1:
                return f(margin=int(o["lo"][0]))
            if variant % 8 == 5:
                return f(tuple(o["lo"]))
            return f(margin=o["lo"])
        return f(num=interleave(o["lo"], o["hi"]))
    if op == "center_crop":
        return x.center_crop(o["n"]) if variant % 2 == 0 else x.center_crop(*o["n"])
    if op == "center_pad":
        return x.center_pad(o["n"]) if variant % 2 == 0 else x.center_pad(*o["n"])
    if op == "narrow":
        return x.narrow(x.ndim - 1 - o["dim"], o["start"], o["len"])
    if op == "roi":
        return x.region_of_interest(o["start"], o["n"])
    if op == "pool":
        return x.avg_pool(o["k"], ceil_mode=bool(o["ceil"]))
    if op == "conv":
        # symmetric unit-sum kernels of half width r per grid axis (x, y, z); a sequence of 1-d kernels is given in TENSOR order (z, y, x),
        # an n-d kernel tensor acts on the last dimensions, one 1-d kernel tensor on every axis
        K1 = {0: None, 1: torch.tensor([0.25, 0.5, 0.25]), 2: torch.tensor([0.1, 0.2, 0.4, 0.2, 0.1])}
        r = list(o["r"])
        D_ = len(r)
        pad_ = 0 if o["valid"] else (None, "zeros", None)[variant % 3]
        if len(set(r)) == 1 and r[0] > 0 and variant % 3 == 1:
            return x.conv(K1[r[0]], padding=pad_)
        if variant % 3 == 2 and all(v > 0 for v in r[:2]) and all(v == 0 for v in r[2:]):
            return x.conv(torch.einsum("i,j->ij", K1[r[1]], K1[r[0]]), padding=pad_)  # (Y, X) kernel
        return x.conv([K1[v] for v in reversed(r)], padding=pad_)
    raise MachineryError(f"unknown op {op}")


def ramp_on(grid, a: torch.Tensor, b: float) -> torch.Tensor:
    idx = grid.coords(normalize=False).to(torch.float32)
    w = grid.index_to_world(idx).to(torch.float64)
    return (w @ a + b).to(torch.float32)


def inside_hull(grid, w: torch.Tensor, margin_world: float = 0.0, margin_index: float = 0.0) -> torch.Tensor:
    """World points inside the hull of the sample centres of `grid`, shrunk by a margin (world units and/or samples)."""
    i = grid.world_to_index(w.to(torch.float32), decimals=None).to(torch.float64)
    n = torch.tensor(list(grid.size()), dtype=torch.float64)
    m = margin_index + margin_world / grid.spacing().to(torch.float64) + 1e-3
    return ((i >= m) & (i <= n - 1 - m)).all(dim=-1)


def check_chain(ctx: Ctx, c: Dict[str, Any], variant: int = 0) -> None:
    from deepali.data.image import Image, ImageBatch

    base = mk_grid(c["base"])
    D = base.ndim
    a = torch.tensor(fl(F(c["a"])), dtype=torch.float64)
    b = float(fl(F(c["b"])))
    hist = c["hist"]
    last = hist[-1]
    kind = ("batch", "batch2", "image")[variant % 3]
    sig0 = dict(depth=len(hist), kind=kind, prev=(hist[-2]["op"] if len(hist) > 1 else ""), **grid_sig(c["base"]))
    shift = torch.tensor([3.0, -2.0, 1.5][:D])
    base2 = base.center(base.center() + shift)
    if kind == "image":
        x = Image(ramp_on(base, a, b).unsqueeze(0), base)
    elif kind == "batch":
        x = ImageBatch(ramp_on(base, a, b).unsqueeze(0).unsqueeze(0), base)
    else:  # two images with different grids of the same shape
        x = ImageBatch(torch.stack([ramp_on(base, a, b).unsqueeze(0), ramp_on(base2, a, b).unsqueeze(0)]), [base, base2])
    hulls = [[base], [base2]]
    x0 = x
    for k, o in enumerate(hist):
        try:
            x = apply_img_op(x, o, variant)
        except Exception as ex:
            if k == len(hist) - 1:
                ctx.violation(dict(**op_sig(o), **sig0, exc=type(ex).__name__, msg=str(ex)[:40]),
                              f"{kind}.{o['op']} raised {type(ex).__name__} ({str(ex)[:140]}) after {[h['op'] for h in hist[:k]]}", c)
            ctx.count(key=json.dumps([c["base"], hist, kind]))
            return
        grids_k = [x.grid()] if kind == "image" else list(x.grids())
        if k < len(hist) - 1:
            for it, g in enumerate(grids_k):
                hulls[it].append(g)
    grids = [x.grid()] if kind == "image" else list(x.grids())
    data = x.tensor() if kind != "image" else x.tensor().unsqueeze(0)
    sig = dict(**op_sig(last), **sig0)
    what = f"{kind}: after {[h['op'] for h in hist]}"
    nitems = 2 if kind == "batch2" else 1
    if len(grids) != nitems or data.shape[0] != nitems:
        ctx.violation(dict(**sig, attr="ngrids"), f"{what}: {len(grids)} grids for {data.shape[0]} images", c)
        return
    for it in range(nitems):
        g = grids[it]
        # (1) the grid is where the specification says (item 1: the same grid translated by the items' offset)
        exp = c["g"]
        if it == 0:
            if not compare_grid(ctx, c, g, exp, sig, what):
                return
        else:
            g0 = grids[0]
            if list(g.size()) != list(g0.size()) or max_err(g.center() - g0.center(), shift) > 1e-3 or max_err(g.spacing(), g0.spacing()) > 1e-5:
                ctx.violation(dict(**sig, attr="item1_grid"), f"{what}: second image's grid is not the first one's translated by the items' offset", c)
                return
        # (2) the grid has the shape of the data
        if tuple(g.shape) != tuple(data.shape[2:]):
            ctx.violation(dict(**sig, attr="shape"), f"{what}: data shape {tuple(data.shape[2:])} but grid shape {tuple(g.shape)}", c)
            return
        # (3) the data lies where the grid says: ramp reproduced inside the original / intermediate sample hulls
        w = g.index_to_world(g.coords(normalize=False).to(torch.float32)).to(torch.float64).reshape(-1, D)
        m = torch.ones(w.shape[0], dtype=torch.bool)
        # Values are exact only where every sample that contributed lies inside the sample hull of all earlier grids:
        # an interpolating step reads up to one sample spacing of its input away, an averaging kernel (k-1)/2 samples.
        INTERP = ("resize", "resample", "downsample", "upsample")
        for kk, hg in enumerate(hulls[it]):
            mw = sum(float(hulls[it][q].spacing().max()) for q in range(kk + 1, len(hulls[it])) if hist[q]["op"] in INTERP) if kk + 1 < len(hulls[it]) else 0.0
            later = hist[kk:]
            mi = max([(o["k"] - 1) / 2.0 + (o["k"] if o.get("ceil") else 0) for o in later if o["op"] == "pool"] +
                     [float(max(o["r"])) for o in later if o["op"] == "conv" and not o["valid"]] or [0.0]) if kk == len(hulls[it]) - 1 else 0.0
            if kk < len(hulls[it]) - 1 and any(o["op"] == "pool" for o in hist[kk + 1:]):
                mw += max(float(hh.spacing().max()) for hh in hulls[it][kk + 1:]) * 3
            m &= inside_hull(hg, w, margin_world=mw, margin_index=mi)
        if int(m.sum()) == 0:
            continue
        expv = (w @ a + b)
        got = data[it, 0].reshape(-1).to(torch.float64)
        err = float((got - expv)[m].abs().max())
        if err > 2e-4 * max(1.0, float(expv.abs().max())):
            ctx.violation(dict(**sig, attr="data", item=it),
                          f"{what}: data is not where the returned grid says (ramp off by {err:.3g} on {int(m.sum())} samples inside the original field of view)", c)
            return
    # (3a) selecting along the BATCH dimension keeps each image with its own grid
    if kind == "batch2":
        for form, sel in (("narrow(0, 1, 1)", lambda: x.narrow(0, 1, 1)), ("[1:2]", lambda: x[1:2]), ("narrow(0, 0, 2)", lambda: x.narrow(0, 0, 2)), ("[[1, 0]]", lambda: x[[1, 0]])):
            try:
                y = sel()
                want = {"narrow(0, 1, 1)": [1], "[1:2]": [1], "narrow(0, 0, 2)": [0, 1], "[[1, 0]]": [1, 0]}[form]
                yg = list(y.grids())
                same_ = lambda p_, q_: p_.shape == q_.shape and bool(((p_ == q_) | (torch.isnan(p_) & torch.isnan(q_))).all())  # noqa: E731  (NaN-safe: resampling a
                # one-sample axis under align_corners=True yields NaN - a degenerate hull, not judged by the ramp law either)
                if len(yg) != len(want) or y.shape[0] != len(want) or any(yg[i] != grids[j] or not same_(y.tensor()[i], data[j]) for i, j in enumerate(want)):
                    ctx.violation(dict(**sig, attr="batch_select", form=form), f"{what}: {form} does not return image(s) {want} with their own grid(s)", c)
                    return
            except Exception as ex:
                ctx.violation(dict(**sig, attr="batch_select", form=form, exc=type(ex).__name__), f"{what}: {form} raised {type(ex).__name__}: {str(ex)[:100]}", c)
                return
    # (3b) the sampling route to the same place: the ORIGINAL image(s) sampled on the derived grid(s) - taken with the other
    # align_corners flag, which names the same sample positions - must hold the ramp at those positions and carry those grids
    if len(hist) == 1:
        targets = [g.align_corners(not g.align_corners()) for g in grids]
        pad_arg = ("border", -1000.0, "zeros", 250, -0.5)[(variant // 3) % 5]
        sig = dict(**sig, padding=str(pad_arg))
        try:
            y = x0.sample(targets[0] if kind != "batch2" else targets, mode="linear", padding=pad_arg)
            ygrids = [y.grid()] if kind == "image" else list(y.grids())
            ydata = y.tensor() if kind != "image" else y.tensor().unsqueeze(0)
            def same_grid(p_, q_):
                # (the align_corners flag is not compared: sampling on a grid that equals the image's own grid returns the image as it is)
                return (tuple(p_.size()) == tuple(q_.size()) and max_err(p_.center(), q_.center()) < 1e-4
                        and max_err(p_.spacing(), q_.spacing()) < 1e-5 and max_err(p_.direction(), q_.direction()) < 1e-5)

            if len(ygrids) != nitems or any(not same_grid(yg, tg) for yg, tg in zip(ygrids, targets)):
                ctx.violation(dict(**sig, attr="sample_grid"), f"{what}: sample() on the derived grid(s) does not return those grid(s)", c)
                return
            for it in range(nitems):
                tg = targets[it]
                w = tg.index_to_world(tg.coords(normalize=False).to(torch.float32)).to(torch.float64).reshape(-1, D)
                m = inside_hull(hulls[it][0], w, margin_index=0.05)
                if int(m.sum()) == 0:
                    continue
                expv = w @ a + b
                err = float((ydata[it, 0].reshape(-1).to(torch.float64) - expv)[m].abs().max())
                if err > 3e-4 * max(1.0, float(expv.abs().max())):
                    ctx.violation(dict(**sig, attr="sample_data", item=it),
                                  f"{what}: the original image sampled on the derived grid (align_corners={tg.align_corners()}) is off the ramp by {err:.3g} "
                                  f"on {int(m.sum())} samples inside the field of view", c)
                    return
            if kind == "batch2":  # one SHARED target that happens to be the first image's own grid: the second image still has to move there
                y = x0.sample(base, mode="linear", padding="border")
                w = base.index_to_world(base.coords(normalize=False).to(torch.float32)).to(torch.float64).reshape(-1, D)
                m = inside_hull(base2, w, margin_index=0.05)
                if len(y.grids()) != 2 or not same_grid(y.grids()[1], base):
                    ctx.violation(dict(**sig, attr="sample_grid", item=1), f"{what}: batch sampled on one shared grid does not carry that grid for every image", c)
                    return
                if int(m.sum()) > 0:
                    expv = w @ a + b
                    err = float((y.tensor()[1, 0].reshape(-1).to(torch.float64) - expv)[m].abs().max())
                    if err > 3e-4 * max(1.0, float(expv.abs().max())):
                        ctx.violation(dict(**sig, attr="sample_data", item=1, shared=True),
                                      f"{what}: second image of a batch sampled on the first image's grid is off the ramp by {err:.3g} on {int(m.sum())} samples", c)
                        return
        except Exception as ex:
            ctx.violation(dict(**sig, attr="sample", exc=type(ex).__name__), f"{what}: sample() on the derived grid raised {type(ex).__name__}: {str(ex)[:120]}", c)
            return
        # (3c) a flow field sampled on the derived grid(s): one constant WORLD displacement d, stored with each kind of axes; the
        # returned (data, grid, axes) triple must still describe d, i.e. hold the components of d w.r.t. the NEW grid
        from deepali.core.grid import Axes
        from deepali.data.flow import FlowFields

        d = torch.tensor([0.75, -0.5, 1.25][:D], dtype=torch.float64)

        def comps(gr, axes):
            A = gr.direction().double() @ torch.diag(gr.spacing().double())
            v = torch.linalg.solve(A, d)
            if axes == Axes.WORLD:
                return d
            if axes == Axes.GRID:
                return v
            n_ = torch.tensor([float(k) for k in gr.size()], dtype=torch.float64)
            return 2 * v / (n_ - 1 if axes == Axes.CUBE_CORNERS else n_)

        srcs = [base] if kind != "batch2" else [base, base2]
        axes_f = (Axes.GRID, Axes.WORLD, Axes.CUBE, Axes.CUBE_CORNERS)[(variant // 3) % 4]
        if not (axes_f == Axes.CUBE_CORNERS and (min(base.size()) < 2 or min(min(t.size()) for t in targets) < 2)):
            try:
                fdat = torch.stack([comps(gs, axes_f).to(torch.float32).reshape(D, *([1] * D)).expand(D, *gs.shape) for gs in srcs])
                ff = FlowFields(fdat.clone(), srcs, axes_f)
                fy = ff.sample(targets[0] if len(srcs) == 1 else targets, mode="linear", padding="border")
                if not isinstance(fy, FlowFields) or fy.axes() != axes_f:
                    ctx.violation(dict(**sig, attr="flow_sample_axes", axes=axes_f.value), f"{what}: a {axes_f.value} flow field sampled on the derived grid comes back as {type(fy).__name__} with axes {getattr(fy, 'axes', lambda: None)()}", c)
                    return
                for it, tg in enumerate(fy.grids()):
                    e = comps(tg, axes_f)
                    got = fy.tensor()[it].double().reshape(D, -1)
                    err = float((got - e.reshape(D, 1)).abs().max())
                    if err > 3e-4 * max(1.0, float(e.abs().max())):
                        ctx.violation(dict(**sig, attr="flow_sample_data", axes=axes_f.value, item=it),
                                      f"{what}: a constant world displacement {d.tolist()} stored with {axes_f.value} axes and sampled on the derived grid has components "
                                      f"{got[:, 0].tolist()}, the new grid's components of that displacement are {e.tolist()}", c)
                        return
            except Exception as ex:
                ctx.violation(dict(**sig, attr="flow_sample", axes=axes_f.value, exc=type(ex).__name__), f"{what}: FlowFields.sample() on the derived grid raised {type(ex).__name__}: {str(ex)[:120]}", c)
                return
    # (3d) convolution of the ORIGINAL image(s) with symmetric kernels of unit sum: a world-linear ramp is reproduced wherever the kernel
    # lies inside the image; 'same' paddings keep the grid, an explicit margin / no padding crops the grid symmetrically (center kept)
    if len(hist) == 1:
        k3 = torch.tensor([0.25, 0.5, 0.25])
        k5 = torch.tensor([0.1, 0.2, 0.4, 0.2, 0.1])
        # a sequence of 1-d kernels is in TENSOR order (first kernel -> first spatial tensor dimension, i.e. the LAST grid axis)
        seq_reach = list(reversed([2, 1] + [0] * (D - 2)))
        plans = [("1d", k3, None, [1] * D), ("1d-replicate", k3, "replicate", [1] * D), ("seq", [k5, k3] + [None] * (D - 2), None, seq_reach),
                 ("seq-valid", [k5, k3] + [None] * (D - 2), 0, seq_reach), ("nd", torch.einsum("i,j->ij", k3, k5), None, [2, 1] + [0] * (D - 2)),
                 ("1d-valid", k3, 0, [1] * D)]
        name_, ker, pad_c, reach = plans[(variant // 3) % len(plans)]   # reach: half width per axis (x, y, z)
        srcs0 = [base] if kind != "batch2" else [base, base2]
        if all(n_ > 2 * r_ + 2 for n_, r_ in zip(base.size(), reach)):
            sigc = dict(**sig0, op="conv", kernel=name_, padding=str(pad_c))
            try:
                yc = x0.conv(ker, padding=pad_c)
                gcs = [yc.grid()] if kind == "image" else list(yc.grids())
                dcs = yc.tensor() if kind != "image" else yc.tensor().unsqueeze(0)
                valid = pad_c == 0
                for it, (g0_, gc_) in enumerate(zip(srcs0, gcs)):
                    exp_size = [n_ - 2 * r_ if valid else n_ for n_, r_ in zip(g0_.size(), reach)]
                    if (list(gc_.size()) != exp_size or max_err(gc_.center(), g0_.center()) > 1e-4 or max_err(gc_.spacing(), g0_.spacing()) > 1e-6
                            or max_err(gc_.direction(), g0_.direction()) > 1e-6 or tuple(gc_.shape) != tuple(dcs.shape[2:])):
                        ctx.violation(dict(**sigc, attr="conv_grid", item=it), f"{kind}: conv({name_}, padding={pad_c}) returns grid {gc_!r} / data shape {tuple(dcs.shape[2:])} for source grid {g0_!r}", c)
                        return
                    w = gc_.index_to_world(gc_.coords(normalize=False).to(torch.float32)).to(torch.float64).reshape(-1, D)
                    idx = g0_.world_to_index(w.float(), decimals=None).to(torch.float64)
                    lo = torch.tensor([float(r_) for r_ in reach], dtype=torch.float64) - 1e-3
                    hi = torch.tensor([float(n_ - 1 - r_) for n_, r_ in zip(g0_.size(), reach)], dtype=torch.float64) + 1e-3
                    m = ((idx >= lo) & (idx <= hi)).all(dim=-1)
                    if pad_c == "replicate":
                        pass  # (edge replication does not reproduce a ramp at the border: interior only, as for zeros)
                    if int(m.sum()) == 0:
                        continue
                    expv = w @ a + b
                    err = float((dcs[it, 0].reshape(-1).to(torch.float64) - expv)[m].abs().max())
                    if err > 3e-4 * max(1.0, float(expv.abs().max())):
                        ctx.violation(dict(**sigc, attr="conv_data", item=it), f"{kind}: conv({name_}, padding={pad_c}) is off the ramp by {err:.3g} on {int(m.sum())} interior samples", c)
                        return
            except Exception as ex:
                ctx.violation(dict(**sigc, attr="conv", exc=type(ex).__name__), f"{kind}: conv({name_}, padding={pad_c}) raised {type(ex).__name__}: {str(ex)[:120]}", c)
                return
    # (3e) resolution pyramid of the ORIGINAL image(s): every level is an image on the grid of that level of Grid.pyramid() (whose geometry C03 decides),
    # with data of that grid's shape holding the ramp inside the original field of view; sub-ranges (start, end) are the same levels
    if len(hist) == 1 and (variant // 3) % 4 == 0 and min(base.size()) >= 4:
        sigp = dict(**sig0, op="pyramid")
        srcs0 = [base] if kind != "batch2" else [base, base2]
        try:
            L_ = 2  # (levels with size / 2^level >= 2 only, as the property quantifies: the base grids have 4..8 samples per axis)
            # the convention of the levels: the grid's own flag, or the one requested explicitly (which may differ from the grid's)
            acx = (None, True, False)[(variant // 12) % 3]
            ac_eff = base.align_corners() if acx is None else acx
            sigp = dict(**sigp, ac_arg=str(acx))
            pyr = x0.pyramid(L_, sigma=0) if acx is None else x0.pyramid(L_, sigma=0, align_corners=acx)
            if sorted(pyr.keys()) != list(range(L_)):
                ctx.violation(dict(**sigp, attr="levels"), f"{kind}: pyramid({L_}) returns levels {sorted(pyr.keys())}", c)
                return
            gp = [g_.align_corners(ac_eff).pyramid(L_) for g_ in srcs0]
            for lv in range(L_):
                for gl in ([pyr[lv].grid()] if kind == "image" else list(pyr[lv].grids())):
                    if gl.align_corners() != ac_eff:
                        ctx.violation(dict(**sigp, attr="pyramid_flag", level=lv), f"{kind}: pyramid(align_corners={acx}) level {lv} carries a grid with align_corners={gl.align_corners()}, expected {ac_eff}", c)
                        return
            # ... also when the finest level is given its own spacing (level grids only: flag, and one common centre for all levels)
            h_iso = float(base.spacing().min())
            pys = x0.pyramid(L_, sigma=0, spacing=h_iso) if acx is None else x0.pyramid(L_, sigma=0, spacing=h_iso, align_corners=acx)
            for lv in sorted(pys.keys()):
                for it, gl in enumerate([pys[lv].grid()] if kind == "image" else list(pys[lv].grids())):
                    if gl.align_corners() != ac_eff or max_err(gl.center(), srcs0[it].center()) > 1e-4 or tuple(gl.shape) != tuple((pys[lv].tensor() if kind != "image" else pys[lv].tensor().unsqueeze(0)).shape[2:]):
                        ctx.violation(dict(**sigp, attr="pyramid_spacing_grid", level=lv), f"{kind}: pyramid(spacing={h_iso}, align_corners={acx}) level {lv} carries grid {gl!r} "
                                      f"(expected align_corners={ac_eff}, centre {srcs0[it].center().tolist()}, the shape of its data)", c)
                        return
            for lv in range(L_):
                yl = pyr[lv]
                gls = [yl.grid()] if kind == "image" else list(yl.grids())
                dl = yl.tensor() if kind != "image" else yl.tensor().unsqueeze(0)
                for it, (g0_, gl) in enumerate(zip(srcs0, gls)):
                    eg = gp[it][lv]
                    if (list(gl.size()) != list(eg.size()) or max_err(gl.center(), eg.center()) > 1e-4 or max_err(gl.spacing(), eg.spacing()) > 1e-5 or max_err(gl.direction(), eg.direction()) > 1e-6
                            or tuple(gl.shape) != tuple(dl.shape[2:])):
                        ctx.violation(dict(**sigp, attr="pyramid_grid", level=lv, item=it), f"{kind}: pyramid level {lv} carries grid {gl!r} with data shape {tuple(dl.shape[2:])}; Grid.pyramid gives {eg!r}", c)
                        return
                    w = gl.index_to_world(gl.coords(normalize=False).to(torch.float32)).to(torch.float64).reshape(-1, D)
                    m = inside_hull(g0_, w, margin_world=1.01 * float(gl.spacing().max()) * (1 if lv else 0), margin_index=0.01)
                    if int(m.sum()) == 0:
                        continue
                    expv = w @ a + b
                    err = float((dl[it, 0].reshape(-1).to(torch.float64) - expv)[m].abs().max())
                    if err > 3e-4 * max(1.0, float(expv.abs().max())):
                        ctx.violation(dict(**sigp, attr="pyramid_data", level=lv, item=it), f"{kind}: pyramid level {lv} is off the ramp by {err:.3g} on {int(m.sum())} samples inside the field of view", c)
                        return
            for (st_, en_), want in (((1, -1), [1]), ((-1, -1), [1]), ((0, 0), [0]), ((-2, 1), [0, 1]), ((1, 0), [])):
                sub = x0.pyramid(L_, start=st_, end=en_, sigma=0) if acx is None else x0.pyramid(L_, start=st_, end=en_, sigma=0, align_corners=acx)
                if sorted(sub.keys()) != want or any(max_err(sub[k_].tensor(), pyr[k_].tensor()) > 1e-6 for k_ in want):
                    ctx.violation(dict(**sigp, attr="pyramid_range", start=st_, end=en_), f"{kind}: pyramid({L_}, start={st_}, end={en_}) returns levels {sorted(sub.keys())} / other data than the full pyramid's levels {want}", c)
                    return
        except Exception as ex:
            ctx.violation(dict(**sigp, attr="pyramid", exc=type(ex).__name__), f"{kind}: pyramid raised {type(ex).__name__}: {str(ex)[:120]}", c)
            return
    # (4) the probes computed exactly by the specification (first item)
    g = grids[0]
    for p in c["probes"]:
        if not p["inside"]:
            continue
        j = p["j"]
        if any(jj >= n for jj, n in zip(j, g.size())):
            continue
        v = float(data[0, 0][tuple(reversed(j))])
        ev = float(fl(F(p["val"])))
        if abs(v - ev) > 2e-4 * max(1.0, abs(ev)):
            ctx.violation(dict(**sig, attr="probe"), f"{what}: sample {j} holds {v}, the specification gives {ev}", c)
            return
    ctx.count(key=json.dumps([c["base"], hist, kind]))


def cfg(emit: bool, depth: int) -> str:
    s = (f"SPECIFICATION Spec\nCONSTANTS\n  Bases <- IBases\n  OpsOf <- IOpsOf\n  MaxDepth = {depth}\n  EmitCases = {'TRUE' if emit else 'FALSE'}\n")
    if not emit:
        s += "INVARIANT PostHolds\nINVARIANT LockStep\n"
    s += "CONSTRAINT EmitImage\n"
    return s


def run(ctx: Ctx) -> None:
    tier = ctx.tier
    ctx.rule = ("every chain of image operations (length <= 2) of the Image/GridOps state machine is one case, executed on a ramp image as "
                "Image, ImageBatch (N=1) or ImageBatch with two differently placed grids; the result's grid is compared with the specification, "
                "its shape with the data, and the data with the ramp at the returned grid's world positions inside the original field of view")
    ctx.tlc("MC_Image", cfg(False, 2), label="laws", timeout=3000)
    res = ctx.tlc("MC_Image", cfg(True, 2), label="emit", timeout=3000)
    cases = json_lines(res, key=None)
    if not cases:
        raise MachineryError("no cases")
    step = 1 if tier == "thorough" else 3
    sel = cases[ctx.seed % step :: step] if step > 1 else cases
    for i, c in enumerate(sel):
        check_chain(ctx, c, i + ctx.seed)
        if tier == "thorough":
            check_chain(ctx, c, i + 1)
            check_chain(ctx, c, i + 2)
    ctx.traces = len(sel)
    ctx.sample(dict(base=cases[0]["base"], hist=cases[0]["hist"], g=cases[0]["g"], probes=cases[0]["probes"][:2]))
    probe = Ctx(ctx.prop, ctx.tier, ctx.seed)
    probe.findings = []
    c = json.loads(json.dumps(next(x for x in cases if x["hist"][-1]["op"] == "crop" and len(x["hist"]) == 1)))
    c["g"]["c"][0] = [c["g"]["c"][0][0] + c["g"]["c"][0][1], c["g"]["c"][0][1]]
    check_chain(probe, c, 0)
    if not probe.violations:
        raise MachineryError("binding self-test failed")
    ctx.notes["binding_selftest"] = "shifted expected grid centre rejected"
    ctx.assumptions += ["linear ramps a.x+b (exact under linear interpolation, averaging and index-only operations); Gaussian pre-smoothing of pyramids switched off (sigma=0)",
                        "quick tier executes every third chain (offset by the seed); thorough executes all chains in all three object kinds"]


def replay(ctx: Ctx, data: Dict[str, Any]) -> None:
    for v in range(3):
        check_chain(ctx, data["case"], v)
