"""X02 (beyond the listed properties) - point sets: distances, closest points, polylines, grid normalisation (spec: PointSet)."""
from __future__ import annotations

import json
from typing import Any, Dict

import torch

from ..core import Ctx
from ..rat import F, fl
from ..tlc import MachineryError, json_lines

CFG = """SPECIFICATION PSpec
CONSTANTS
  PointSets <- QPointSets
  Polylines <- QPolylines
  MaxN = {maxn}
  EmitCases = {emit}
{inv}CONSTRAINT PEmit
"""


def check_case(ctx: Ctx, c: Dict[str, Any], i: int = 0) -> None:
    import deepali.core.functional as U
    from deepali.core import pointset as P

    def cmp(op: str, got, want, tol: float, **kw):
        want = torch.as_tensor(want, dtype=torch.float64)
        got = torch.as_tensor(got).to(torch.float64).reshape(want.shape)
        err = float((got - want).abs().max()) if want.numel() else 0.0
        if not err <= tol * max(1.0, float(want.abs().max()) if want.numel() else 1.0):
            ctx.violation(dict(op=op, **kw), f"{op}: {got.flatten().tolist()[:8]} differs from the specification {want.flatten().tolist()[:8]} (case kind {c['kind']})", c)

    def guarded(op, fn, **kw):
        try:
            return fn()
        except Exception as ex:
            ctx.violation(dict(op=op, exc=type(ex).__name__, **kw), f"{op} raised {type(ex).__name__}: {str(ex)[:100]}", c)
            return None

    k = c["kind"]
    if k == "pair":
        X, Y = fl(F(c["X"])), fl(F(c["Y"]))
        M, mind = fl(F(c["M"])), fl(F(c["mind"]))
        for dtype, tol in ((torch.float64, 1e-12), (torch.float32, 1e-5)):
            x = torch.tensor(X, dtype=dtype).unsqueeze(0)
            y = torch.tensor(Y, dtype=dtype).unsqueeze(0)
            got = guarded("distance_matrix", lambda: P.distance_matrix(x, y), dtype=str(dtype))
            if got is not None:
                cmp("distance_matrix", got[0], M, tol, dtype=str(dtype))
            for split in (1, 2, 3, 10000):
                got = guarded("closest_point_distances", lambda: U.closest_point_distances(x, y, split_size=split), split=split)
                if got is not None:
                    cmp("closest_point_distances", got[0], mind, 1e-5, split=split, dtype=str(dtype))
                got = guarded("closest_point_indices", lambda: U.closest_point_indices(x, y, split_size=split), split=split)
                if got is not None and got[0].tolist() != c["idx"]:
                    # an index is only wrong if its point is not at minimum distance (float ties may resolve to another minimiser)
                    bad = [a for a, j in enumerate(got[0].tolist()) if abs(M[a][j] - mind[a]) > 1e-5]
                    if bad:
                        ctx.violation(dict(op="closest_point_indices", split=split), f"closest_point_indices (split_size={split}) = {got[0].tolist()}, "
                                      f"but points {bad} of x are closer to {[c['idx'][a] for a in bad]}", c)
        lo, hi = P.bounding_box(torch.tensor(X, dtype=torch.float64))
        cmp("bounding_box", lo, fl(F(c["lo"])), 1e-12, side="min")
        cmp("bounding_box", hi, fl(F(c["hi"])), 1e-12, side="max")
    elif k == "polyline":
        x = torch.tensor(fl(F(c["X"])), dtype=torch.float64)
        for shape in ("ND", "1ND"):
            xs = x if shape == "ND" else x.unsqueeze(0)
            got = guarded("polyline_directions", lambda: P.polyline_directions(xs), shape=shape)
            if got is not None:
                cmp("polyline_directions", got, torch.tensor(fl(F(c["dirs"]))).reshape(got.shape), 1e-12, shape=shape)
            got = guarded("polyline_tangents", lambda: P.polyline_tangents(xs), shape=shape)
            if got is not None:
                cmp("polyline_tangents", got, torch.tensor(fl(F(c["tans"]))).reshape(got.shape), 1e-12, shape=shape)
        got = guarded("polyline_directions", lambda: P.polyline_directions(x, repeat_last=False))
        if got is not None:
            cmp("polyline_directions", got, fl(F(c["dirs"]))[:-1], 1e-12, repeat=False)
    elif k == "norm":
        n, ac = c["n"], bool(c["ac"])
        idx = torch.arange(n, dtype=torch.float64).reshape(1, n, 1)
        got = guarded("normalize_grid", lambda: U.normalize_grid(idx, size=(n,), align_corners=ac))
        if got is not None:
            cmp("normalize_grid", got.reshape(-1), fl(F(c["u"])), 1e-12, ac=ac)
            back = guarded("denormalize_grid", lambda: U.denormalize_grid(got, size=(n,), align_corners=ac))
            if back is not None:
                cmp("denormalize_grid", back.reshape(-1), [0.0] * n if n == 1 else list(range(n)), 1e-12, ac=ac)
        pr = guarded("normalize_grid", lambda: U.normalize_grid(torch.tensor([[[1.25, 1.25]]], dtype=torch.float64), size=(n, n), align_corners=ac), form="2d")
        if pr is not None:
            cmp("normalize_grid", pr.reshape(-1), [fl(F(c["probe"]))] * 2, 1e-12, ac=ac, form="2d")


def run(ctx: Ctx) -> None:
    ctx.rule = "every pair of lattice point sets, every polyline, every (n, align_corners): library functions against the exact values; chunked evaluation with split sizes 1, 2, 3, 10000"
    cfg = dict(maxn=9 if ctx.tier == "quick" else 64)
    ctx.tlc("MC_PointSet", CFG.format(**cfg, emit="FALSE", inv="INVARIANT PLaws\n"), label="laws", timeout=3000)
    res = ctx.tlc("MC_PointSet", CFG.format(**cfg, emit="TRUE", inv=""), label="emit", timeout=3000)
    cases = [c for c in json_lines(res, key=None) if "kind" in c]
    if len(cases) < 30:
        raise MachineryError(f"only {len(cases)} cases")
    for i, c in enumerate(cases):
        check_case(ctx, c, i)
        ctx.count(key=json.dumps(c), nontrivial=True)
    ctx.traces = len(cases)
    ctx.sample(cases[0])
    probe = Ctx(ctx.prop, ctx.tier, ctx.seed)
    bad = json.loads(json.dumps(next(c for c in cases if c["kind"] == "pair")))
    bad["mind"][0] = [bad["mind"][0][0] + bad["mind"][0][1], bad["mind"][0][1]]
    check_case(probe, bad)
    if not probe.violations:
        raise MachineryError("binding self-test failed")
    ctx.notes["binding_selftest"] = "expected closest distance + 1 rejected"
    ctx.assumptions += ["closest_point_distances returns SQUARED distances (as distance_matrix documents), although its own docstring says Euclidean distance",
                        "normalize_grid(align_corners=False) counts unnormalised coordinates from the left edge of the first sample (centres at k + 1/2)"]


def replay(ctx: Ctx, data: Dict[str, Any]) -> None:
    check_case(ctx, data["case"])
