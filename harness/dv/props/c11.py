"""C11 - scaling and squaring equals the closed form for affine velocity fields (spec: Flow, section C11)."""
from __future__ import annotations

import json
from typing import Any, Dict

import torch

from ..core import Ctx
from ..flowlib import FLOW_CFG, affine_field, oriented_grid
from ..rat import F, fl
from ..tol import max_err
from ..tlc import MachineryError, json_lines


def check_exp(ctx: Ctx, c: Dict[str, Any], k_: int = 0) -> None:
    import deepali.core.functional as U
    from deepali.core.grid import Axes
    from deepali.data.flow import FlowFields
    from deepali.modules.flow import ExpFlow
    from deepali.spatial import StationaryVelocityFieldTransform

    n, ac, s, k = c["n"], bool(c["ac"]), float(fl(F(c["s"]))), int(c["k"])
    D = len(n)
    sig0 = dict(D=D, ac=ac, steps=k, scale=s)

    def bad(op, msg, **kw):
        ctx.violation(dict(op=op, **sig0, **kw), f"{op}(steps={k}, scale={s}, align_corners={ac}, n={n}): {msg}", c)

    def guarded(op, fn, **kw):
        try:
            return fn()
        except Exception as ex:
            bad(op, f"raised {type(ex).__name__}: {str(ex)[:140]}", exc=type(ex).__name__, **kw)
            return None

    for dtype, tol in ((torch.float64, 1e-10), (torch.float32, 2e-5)):
        v = affine_field(n, ac, c["A"], c["t"], dtype)
        exp = affine_field(n, ac, c["EA"], c["Et"], torch.float64)
        dt = str(dtype).split(".")[-1]

        def cmp(op, out, **kw):
            if out is None:
                return
            if out.dtype != dtype:
                bad(op, f"result dtype {out.dtype} for {dtype} input", what="dtype", dtype=dt, **kw)
            err = max_err(out.to(torch.float64).reshape(exp.shape) if out.numel() == exp.numel() else out, exp)
            if err > tol:
                bad(op, f"differs from the closed form (I + sH/2^k)^(2^k) by {err:.3g}", dtype=dt, **kw)

        cmp("expv", guarded("expv", lambda: U.expv(v, scale=s, steps=k, align_corners=ac), dtype=dt))
        if s == 1.0:
            cmp("expv", guarded("expv", lambda: U.expv(v, steps=k, align_corners=ac), dtype=dt, default_scale=True), default_scale=True)
        # every argument given POSITIONALLY in the documented order (flow, scale, steps, sampling, padding, align_corners, inverse)
        from deepali.core.enum import PaddingMode, Sampling

        cmp("expv[positional]", guarded("expv", lambda: U.expv(v, s, k, Sampling.LINEAR, PaddingMode.BORDER, ac), dtype=dt, form="positional"), form="positional")
        cmp("expv[positional]", guarded("expv", lambda: U.expv(v, s, k, "linear", "border", ac, False), dtype=dt, form="positional+inverse"), form="positional+inverse")
        # batch of two
        o = guarded("expv", lambda: U.expv(torch.cat([v, v]), scale=s, steps=k, align_corners=ac), dtype=dt, batch=2)
        if o is not None:
            cmp("expv", o[1:2], batch=2)
        # inverse flag == negated field == negated scale (no expected value needed: three routes must coincide)
        a = guarded("expv[inverse]", lambda: U.expv(v, scale=s, steps=k, align_corners=ac, inverse=True), dtype=dt)
        b = guarded("expv[-v]", lambda: U.expv(-v, scale=s, steps=k, align_corners=ac), dtype=dt)
        d = guarded("expv[-scale]", lambda: U.expv(v, scale=-s, steps=k, align_corners=ac), dtype=dt)
        ap = guarded("expv[inverse]", lambda: U.expv(v, s, k, Sampling.LINEAR, PaddingMode.BORDER, ac, True), dtype=dt, form="positional")
        if ap is not None and a is not None and max_err(ap, a) > tol:
            bad("expv[inverse]", f"the inverse flag given positionally (7th argument) differs from inverse=True by {max_err(ap, a):.3g}", dtype=dt, what="inverse", form="positional")
        if a is not None and b is not None and d is not None:
            if max_err(a, b) > tol or max_err(a, d) > tol:
                bad("expv[inverse]", f"inverse=True, the negated field and the negated scale disagree by {max(max_err(a, b), max_err(a, d)):.3g}", dtype=dt, what="inverse")
        # module
        m = ExpFlow(scale=s, steps=k, align_corners=ac)
        cmp("ExpFlow", guarded("ExpFlow", lambda: m(v), dtype=dt))
        mi = guarded("ExpFlow.inverse", lambda: m.inverse()(v), dtype=dt)
        mf = guarded("ExpFlow.forward[inverse]", lambda: m(v, inverse=True), dtype=dt)
        if mi is not None and d is not None and max_err(mi, d) > tol:
            bad("ExpFlow.inverse", "inverse module differs from the exponential of the negated field", dtype=dt, what="inverse")
        if mf is not None and d is not None and max_err(mf, d) > tol:
            bad("ExpFlow.forward[inverse]", "forward(inverse=True) differs from the exponential of the negated field", dtype=dt, what="inverse")
        # the scale given as a 0-dim TENSOR, and the module used repeatedly: taking the inverse module / the inverse flag never changes what the
        # module itself computes afterwards
        for sname, sarg in (("tensor scale", torch.tensor(s, dtype=torch.float64)), ("float scale", s)):
            mt = guarded("ExpFlow", lambda: ExpFlow(scale=sarg, steps=k, align_corners=ac), dtype=dt, scale_form=sname)
            if mt is None:
                continue
            seq = [("first call", lambda: mt(v), exp), ("inverse module", lambda: mt.inverse()(v), None), ("call after inverse()", lambda: mt(v), exp),
                   ("inverse flag", lambda: mt(v, inverse=True), None), ("inverse flag again", lambda: mt(v, inverse=True), None), ("call after inverse flag", lambda: mt(v), exp),
                   ("inverse of inverse", lambda: mt.inverse().inverse()(v), exp)]
            for stepname, fn_, want in seq:
                o_ = guarded("ExpFlow", fn_, dtype=dt, scale_form=sname, step=stepname)
                if o_ is None:
                    break
                w_ = want if want is not None else d
                if w_ is not None and max_err(o_.to(torch.float64), w_.to(torch.float64)) > tol:
                    bad("ExpFlow", f"[{sname}] {stepname}: differs from the {'closed form' if want is not None else 'exponential of the negated field'} by {max_err(o_.to(torch.float64), w_.to(torch.float64)):.3g}",
                        dtype=dt, scale_form=sname, step=stepname, what="reuse")
                    break
        # the exponential never changes the field it is given (steps = 0 included)
        v_keep = v.clone()
        for kw in (dict(scale=s), dict(scale=-s), dict(scale=0.5 * s), dict(scale=s, inverse=True)):
            guarded("expv", lambda: U.expv(v, steps=k, align_corners=ac, **kw), dtype=dt, role="input")
            if max_err(v, v_keep) > 0:
                bad("expv", f"changed its input field (call with {kw})", dtype=dt, what="mutates")
                v = v_keep.clone()
        guarded("ExpFlow", lambda: ExpFlow(scale=-s, steps=k, align_corners=ac)(v), dtype=dt, role="input")
        if max_err(v, v_keep) > 0:
            bad("ExpFlow", "changed its input field", dtype=dt, what="mutates")
    # transforms and flow-field objects (float32 parameters)
    v32 = affine_field(n, ac, c["A"], c["t"], torch.float32)
    exp = affine_field(n, ac, c["EA"], c["Et"], torch.float64)
    g = oriented_grid(n, ac)
    t = guarded("StationaryVelocityFieldTransform", lambda: StationaryVelocityFieldTransform(g, params=v32, scale=s, steps=k))
    if t is not None:
        u = guarded("StationaryVelocityFieldTransform.update", lambda: t.update().u)
        if u is not None and max_err(u, exp) > 2e-5:
            bad("StationaryVelocityFieldTransform", f"buffer u differs from the closed form by {max_err(u, exp):.3g}")
        if u is not None and max_err(t.v, v32) > 1e-6:
            bad("StationaryVelocityFieldTransform", "buffer v is not the velocity field")
    # the same transform reached through a grid change: built on the grid with the OTHER align_corners convention (velocities expressed
    # in that convention), then moved to g with grid_(); the exponential must follow the new convention
    g_other = g.align_corners(not ac)
    v_other = guarded("FlowFields.axes", lambda: FlowFields(v32, g, Axes.from_align_corners(ac)).axes(Axes.from_align_corners(not ac)).tensor())
    if v_other is not None:
        t2 = guarded("StationaryVelocityFieldTransform", lambda: StationaryVelocityFieldTransform(g_other, params=v_other.clone(), scale=s, steps=k), route="grid_")
        if t2 is not None:
            u2 = guarded("StationaryVelocityFieldTransform.grid_", lambda: t2.update().grid_(g).update().u, route="grid_")
            if u2 is not None and max_err(u2, exp) > 5e-5:
                bad("StationaryVelocityFieldTransform.grid_", f"after grid_() to the grid with align_corners={ac} the displacement differs from the closed form by {max_err(u2, exp):.3g}",
                    route="grid_")
    f0 = FlowFields(v32, g, Axes.from_align_corners(ac))
    e = guarded("FlowFields.exp", lambda: f0.exp(scale=s, steps=k))
    if e is not None and max_err(e.tensor(), exp) > 2e-5:
        bad("FlowFields.exp", f"differs from the closed form by {max_err(e.tensor(), exp):.3g}")
    # the same velocity field stored w.r.t. every other axes: the exponential keeps the axes kind and means the same displacement
    for ax in (Axes.GRID, Axes.WORLD, Axes.from_align_corners(not ac)):
        fx = guarded("FlowFields.axes", lambda: f0.axes(ax), axes=ax.value)
        if fx is None:
            continue
        ex = guarded("FlowFields.exp", lambda: fx.exp(scale=s, steps=k), axes=ax.value)
        if ex is None:
            continue
        if ex.axes() is not ax:
            bad("FlowFields.exp", f"exponential of a field with {ax.value} axes is labelled {ex.axes().value}", axes=ax.value, what="label")
            continue
        back = guarded("FlowFields.axes", lambda: ex.axes(Axes.from_align_corners(ac)).tensor(), axes=ax.value)
        if back is not None and max_err(back, exp) > 1e-4:
            bad("FlowFields.exp", f"exponential of the field stored with {ax.value} axes differs from the closed form by {max_err(back, exp):.3g}", axes=ax.value)
    # the transform constructed with a tensor-valued scale, used after its inverse was taken
    ts = guarded("StationaryVelocityFieldTransform", lambda: StationaryVelocityFieldTransform(g, params=v32, scale=torch.tensor(s), steps=k), scale_form="tensor")
    if ts is not None:
        guarded("StationaryVelocityFieldTransform.inverse", lambda: ts.inverse(update_buffers=True), scale_form="tensor")
        u_ts = guarded("StationaryVelocityFieldTransform.update", lambda: ts.update().u, scale_form="tensor")
        if u_ts is not None and max_err(u_ts, exp) > 2e-5:
            bad("StationaryVelocityFieldTransform", f"[tensor scale] after taking the inverse the forward displacement differs from the closed form by {max_err(u_ts, exp):.3g}", scale_form="tensor")
    # inverse of the transform: its displacement buffer is the exponential of the negated field, whichever way it is obtained
    if t is not None:
        neg = guarded("expv[-scale]", lambda: U.expv(v32, scale=-s, steps=k, align_corners=ac))
        for how, mk in (("inverse(update_buffers=True)", lambda: t.inverse(update_buffers=True).u), ("inv", lambda: t.inv.u),
                        ("inverse().update()", lambda: t.inverse().update().u), ("inverse(link=True).update()", lambda: t.inverse(link=True).update().u)):
            ui = guarded("StationaryVelocityFieldTransform.inverse", mk, how=how)
            if ui is not None and neg is not None and max_err(ui, neg) > 2e-5:
                bad("StationaryVelocityFieldTransform.inverse", f"{how}: buffer u differs from the exponential of the negated field by {max_err(ui, neg):.3g}", how=how)
        uf = guarded("StationaryVelocityFieldTransform.update", lambda: t.u)
        if uf is not None and max_err(uf, exp) > 2e-5:
            bad("StationaryVelocityFieldTransform.inverse", "taking the inverse changed the forward transform's displacement buffer", what="receiver")
    ctx.count(key=json.dumps([n, ac, c["A"], c["t"], c["s"], k]), nontrivial=k > 0 or s != 1.0)


def run(ctx: Ctx) -> None:
    ctx.rule = ("one case per (grid shape, align_corners, hull-invariant affine generator, scale, steps) admitted by Flow.tla (invariance of the "
                "sample hull checked exactly by TLC for every intermediate step); compared at every grid point in float64 and float32; "
                "non-trivial = steps > 0 or scale != 1")
    ctx.tlc("MC_Flow", FLOW_CFG.format(T="Q" if ctx.tier == "quick" else "T", emit="FALSE", inv="INVARIANT Laws\n"), label="laws", timeout=3000)
    res = ctx.tlc("MC_Flow", FLOW_CFG.format(T="Q" if ctx.tier == "quick" else "T", emit="TRUE", inv=""), label="emit", timeout=3000)
    cases = [c for c in json_lines(res, key=None) if c["kind"] == "exp"]
    if not cases:
        raise MachineryError("no cases")
    for i, c in enumerate(cases):
        check_exp(ctx, c, i)
    ctx.traces = len(cases)
    ctx.sample(cases[len(cases) // 2])
    ctx.notes["steps_covered"] = sorted({c["k"] for c in cases})
    probe = Ctx(ctx.prop, ctx.tier, ctx.seed)
    probe.findings = []
    c = json.loads(json.dumps(next(x for x in cases if x["k"] == 2)))
    c["EA"][0][0] = [c["EA"][0][0][0] * 2 + c["EA"][0][0][1], c["EA"][0][0][1] * 2]
    check_exp(probe, c)
    if not probe.violations:
        raise MachineryError("binding self-test failed")
    ctx.notes["binding_selftest"] = "perturbed closed form rejected"
    ctx.assumptions += ["steps 0..2 with generic dyadic generators (exact in 32-bit rationals); the recursion is uniform in the step count",
                        "convergence to the matrix exponential for growing k and the second-order bound for smooth non-affine fields are numerical analysis, not decided (DESIGN section 4)",
                        "inverse flag decided relationally (three routes coincide); expanding fields leave the hull so no closed form is asserted for them"]


def replay(ctx: Ctx, data: Dict[str, Any]) -> None:
    check_exp(ctx, data["case"])
