"""X08 (beyond the listed properties) - index and sequence helpers (spec: Indexing)."""
from __future__ import annotations

import json
from typing import Any, Dict

import numpy as np
import torch

from ..core import Ctx
from ..tlc import MachineryError, json_lines

CFG = """SPECIFICATION Spec
CONSTANTS
  Sizes <- QSizes
  Perms <- QPerms
  SeqSets <- QSeqSets
  LabelSeqs <- QLabelSeqs
  EmitCases = {emit}
{inv}CONSTRAINT Emit
"""


def check_case(ctx: Ctx, c: Dict[str, Any], k: int = 0) -> None:
    from deepali.core import itertools as I
    from deepali.core import tensor as T

    def bad(op, msg, **kw):
        ctx.violation(dict(op=op, **kw), f"{op}: {msg}", c)

    def guarded(op, fn, **kw):
        try:
            return fn()
        except Exception as ex:
            bad(op, f"raised {type(ex).__name__}: {str(ex)[:100]} (case {json.dumps(c)[:120]})", exc=type(ex).__name__, **kw)
            return None

    kind = c["kind"]
    if kind == "unravel":
        size = tuple(c["size"])
        N = int(np.prod(size))
        idx = torch.arange(N)
        for shape_form, ind in (("N", idx), ("1N", idx.unsqueeze(0))):
            got = guarded("unravel_coords", lambda: T.unravel_coords(ind, size), form=shape_form)
            if got is not None and got.reshape(N, len(size)).tolist() != c["coords"]:
                bad("unravel_coords", f"size {size}: {got.reshape(N, len(size)).tolist()[:6]}..., the specification {c['coords'][:6]}...", form=shape_form)
        shape = tuple(reversed(size))
        got = guarded("unravel_index", lambda: T.unravel_index(idx, shape))
        if got is not None:
            if got.tolist() != c["index"]:
                bad("unravel_index", f"shape {shape}: {got.tolist()[:6]}..., the specification {c['index'][:6]}...")
            ref = np.stack(np.unravel_index(np.arange(N), shape), axis=-1).tolist()
            if ref != c["index"]:
                raise MachineryError("Indexing.tla disagrees with numpy.unravel_index")
        try:  # an index beyond the last grid point must be refused
            T.unravel_coords(torch.tensor([N]), size)
            bad("unravel_coords", f"index {N} of a grid with {N} points accepted", what="out_of_range")
        except ValueError:
            pass
    elif kind == "move":
        n, d, p = c["n"], c["d"], c["p"]
        t = torch.zeros(tuple(range(2, 2 + n)))
        got = guarded("move_dim", lambda: T.move_dim(t, d, p))
        if got is not None:
            want = tuple(2 + o for o in c["order"])
            if tuple(got.shape) != want:
                bad("move_dim", f"move_dim(shape {tuple(t.shape)}, {d}, {p}) has shape {tuple(got.shape)}, the specification {want}", negative=d < 0 or p < 0)
            if tuple(torch.movedim(t, d, p).shape) != want:
                raise MachineryError("Indexing.tla disagrees with torch.movedim")
    elif kind == "perm":
        got = guarded("is_even_permutation", lambda: I.is_even_permutation(c["p"]))
        if got is not None and bool(got) != bool(c["even"]):
            bad("is_even_permutation", f"{c['p']} -> {got}, it has {c['inversions']} inversions")
        P = np.zeros((len(c["p"]),) * 2)
        for i, j in enumerate(c["p"]):
            P[i, j] = 1
        if (round(np.linalg.det(P)) == 1) != bool(c["even"]):
            raise MachineryError("Indexing.tla parity disagrees with the determinant")
    elif kind == "zip":
        got = guarded("zip_longest_repeat_last", lambda: [list(v) for v in I.zip_longest_repeat_last(*c["ss"])])
        if got is not None and got != c["out"]:
            bad("zip_longest_repeat_last", f"{c['ss']} -> {got}, the specification {c['out']}")
        for s, want in zip(c["ss"], c["rl"]):
            got = guarded("repeat_last", lambda: list(I.repeat_last(s, c["n"] + 1)))
            if got is not None and got != want:
                bad("repeat_last", f"repeat_last({s}, {c['n'] + 1}) = {got}, the specification {want}")
        got = guarded("repeat_last", lambda: list(I.repeat_last(5, 3)), form="scalar")
        if got is not None and got != [5, 5, 5]:
            bad("repeat_last", f"repeat_last(5, 3) = {got}", form="scalar")
    elif kind == "onehot":
        lab = torch.tensor(c["labels"]).reshape(1, 1, -1)
        ig = None if c["ig"] < 0 else c["ig"]
        got = guarded("as_one_hot_tensor", lambda: T.as_one_hot_tensor(lab, c["C"], ignore_index=ig), ignore=ig is not None)
        if got is not None and got[0].to(torch.int64).tolist() != c["out"]:
            bad("as_one_hot_tensor", f"labels {c['labels']} (ignore {ig}) -> {got[0].tolist()}, the specification {c['out']}", ignore=ig is not None)
        snapshot = lab.clone()
        if not torch.equal(lab, snapshot):
            bad("as_one_hot_tensor", "modified its input")
        # batched_index_select: out[n, j] = input[n, index[n, j]]
        inp = torch.arange(2 * 4 * 3).reshape(2, 4, 3)
        index = torch.tensor([[3, 0, 0], [1, 2, 1]])
        got = guarded("batched_index_select", lambda: T.batched_index_select(inp, 1, index))
        if got is not None:
            want = torch.stack([inp[n, index[n]] for n in range(2)])
            if not torch.equal(got, want):
                bad("batched_index_select", "result is not input[n, index[n, j]]")


def run(ctx: Ctx) -> None:
    ctx.rule = "every leaf of Indexing.tla: all flat indices of 7 grid sizes, all (ndim, dim, pos) of move_dim incl. negative, permutations, sequence sets, label sequences"
    ctx.tlc("MC_Indexing", CFG.format(emit="FALSE", inv="INVARIANT Laws\n"), label="laws", timeout=3000)
    res = ctx.tlc("MC_Indexing", CFG.format(emit="TRUE", inv=""), label="emit", timeout=3000)
    cases = [c for c in json_lines(res, key=None) if "kind" in c]
    if len(cases) < 200:
        raise MachineryError(f"only {len(cases)} cases")
    for i, c in enumerate(cases):
        check_case(ctx, c, i)
        ctx.count(key=json.dumps(c), nontrivial=True)
    ctx.traces = len(cases)
    ctx.sample(cases[0])
    probe = Ctx(ctx.prop, ctx.tier, ctx.seed)
    bad = json.loads(json.dumps(next(c for c in cases if c["kind"] == "move" and c["d"] != c["p"])))
    bad["order"] = list(reversed(bad["order"]))
    try:
        check_case(probe, bad)
    except MachineryError:
        probe.violations.append(dict(signature={}, what="reference noticed"))
    if not probe.violations:
        raise MachineryError("binding self-test failed")
    ctx.notes["binding_selftest"] = "a reversed expected dimension order is rejected"


def replay(ctx: Ctx, data: Dict[str, Any]) -> None:
    check_case(ctx, data["case"])
