"""X01 (beyond the listed properties) - output sizes of convolution / pooling / transposed convolution and padding rules (spec: ConvShapes)."""
from __future__ import annotations

import json
from typing import Any, Dict

import torch
import torch.nn.functional as TF

from ..core import Ctx
from ..tlc import MachineryError, json_lines

CFG = """SPECIFICATION Spec
CONSTANTS
  MaxIn = {maxin}
  Kernels = {kernels}
  Strides = {{1, 2, 3}}
  Dilations = {{1, 2}}
  Paddings = {{0, 1, 2}}
  EmitCases = {emit}
{inv}CONSTRAINT Emit
"""


def check_case(ctx: Ctx, c: Dict[str, Any], k_: int = 0) -> None:
    from deepali.core import nnutils as N

    def cmp(op: str, got, want, **kw):
        if got != want:
            ctx.violation(dict(op=op, **kw), f"{op}{tuple(c[x] for x in ('m', 'k', 's') if x in c)} (case {c}) = {got}, the specification gives {want}", c)

    def guarded(op, fn):
        try:
            return fn()
        except Exception as ex:
            ctx.violation(dict(op=op, exc=type(ex).__name__), f"{op} raised {type(ex).__name__}: {str(ex)[:100]} for {c}", c)
            return None

    m, k, s = c["m"], c["k"], c["s"]
    if c["kind"] == "up":
        p = guarded("upsample_padding", lambda: N.upsample_padding(k, s))
        if p is not None:
            cmp("upsample_padding", tuple(p), (c["pad"],))
        op = guarded("upsample_output_padding", lambda: N.upsample_output_padding(k, s, c["pad"]))
        if op is not None:
            cmp("upsample_output_padding", tuple(op), (c["outpad"],))
        if c["outpad"] < s:
            y = TF.conv_transpose1d(torch.zeros(1, 1, m), torch.zeros(1, 1, k), stride=s, padding=c["pad"], output_padding=c["outpad"])
            if y.shape[-1] != c["out"]:
                raise MachineryError(f"ConvShapes disagrees with torch.conv_transpose1d: {c} -> {y.shape[-1]}")
        else:  # factor 1 with an even kernel: the rule asks for output_padding = 1 = stride, which torch refuses (observation, see DESIGN 10.5)
            ctx.notes["upsample_rule_outpad_ge_stride"] = ctx.notes.get("upsample_rule_outpad_ge_stride", 0) + 1
        return
    d, p = c["d"], c["p"]
    # scalar and tuple forms (the second axis uses other parameters so that axes cannot be confused)
    got = guarded("conv_output_size", lambda: N.conv_output_size(m, k, stride=s, padding=p, dilation=d))
    if got is not None:
        cmp("conv_output_size", max(got, 0), c["conv"])
    got2 = guarded("conv_output_size[tuple]", lambda: N.conv_output_size((m, 9), (k, 3), stride=(s, 1), padding=(p, 1), dilation=(d, 1)))
    if got2 is not None:
        cmp("conv_output_size", (max(got2[0], 0), got2[1]), (c["conv"], 9), form="tuple")
    for ceil, key in ((False, "pool"), (True, "pool_ceil")):
        if 2 * p <= k and m + 2 * p >= (k - 1) * d + 1:
            got = guarded("pool_output_size", lambda: N.pool_output_size(m, k, stride=s, padding=p, dilation=d, ceil_mode=ceil))
            if got is not None:
                cmp("pool_output_size", got, c[key], ceil=ceil)
            y = TF.max_pool1d(torch.zeros(1, 1, m), k, stride=s, padding=p, dilation=d, ceil_mode=ceil)
            if y.shape[-1] != c[key]:
                raise MachineryError(f"ConvShapes disagrees with torch.max_pool1d: {c} ceil={ceil} -> {y.shape[-1]}")
    for op_, key in ((0, "convt"), (s - 1, "convt_op")):
        if c[key] >= 1:
            got = guarded("conv_transposed_output_size", lambda: N.conv_transposed_output_size(m, k, stride=s, padding=p, output_padding=op_, dilation=d))
            if got is not None:
                cmp("conv_transposed_output_size", got, c[key], output_padding=op_ > 0)
            if op_ < max(s, d):
                y = TF.conv_transpose1d(torch.zeros(1, 1, m), torch.zeros(1, 1, k), stride=s, padding=p, output_padding=op_, dilation=d)
                if y.shape[-1] != c[key]:
                    raise MachineryError(f"ConvShapes disagrees with torch.conv_transpose1d: {c} -> {y.shape[-1]}")
    if c["conv"] >= 1:
        y = TF.conv1d(torch.zeros(1, 1, m), torch.zeros(1, 1, k), stride=s, padding=p, dilation=d)
        if y.shape[-1] != c["conv"]:
            raise MachineryError(f"ConvShapes disagrees with torch.conv1d: {c} -> {y.shape[-1]}")
    if c["same"] >= 0:
        got = guarded("same_padding", lambda: N.same_padding(k, d))
        if got is not None:
            cmp("same_padding", got, c["same"])
    else:
        try:
            N.same_padding(k, d)
            ctx.violation(dict(op="same_padding", what="accepts-even"), f"same_padding({k}, {d}) returns a padding although no symmetric padding keeps the size", c)
        except NotImplementedError:
            pass
    got = guarded("pad_output_size", lambda: N.pad_output_size(m, (p, k)))
    if got is not None:
        cmp("pad_output_size", got, c["pad"])


def run(ctx: Ctx) -> None:
    quick = ctx.tier == "quick"
    ctx.rule = "every (input size, kernel, stride, dilation, padding) of the lattice: library size functions against the counting definitions; torch operators as second reference"
    cfg = dict(maxin=12 if quick else 40, kernels="{1, 2, 3, 4, 5}" if quick else "{1, 2, 3, 4, 5, 6, 7}")
    ctx.tlc("ConvShapes", CFG.format(**cfg, emit="FALSE", inv="INVARIANT Laws\n"), label="laws", timeout=3000)
    res = ctx.tlc("ConvShapes", CFG.format(**cfg, emit="TRUE", inv=""), label="emit", timeout=3000)
    cases = [c for c in json_lines(res, key=None) if "kind" in c]
    if len(cases) < 1000:
        raise MachineryError(f"only {len(cases)} cases")
    for i, c in enumerate(cases):
        check_case(ctx, c, i)
        ctx.count(key=json.dumps(c), nontrivial=c["kind"] == "up" or c["s"] > 1 or c["d"] > 1 or c["p"] > 0)
    ctx.traces = len(cases)
    ctx.sample(cases[len(cases) // 2])
    probe = Ctx(ctx.prop, ctx.tier, ctx.seed)
    bad = dict(next(c for c in cases if c["kind"] == "conv" and c["conv"] > 1))
    bad["conv"] += 1
    try:
        check_case(probe, bad)
    except MachineryError:
        pass  # the torch reference notices the corrupted expectation as well
    if not probe.violations:
        raise MachineryError("binding self-test failed")
    ctx.notes["binding_selftest"] = "expected conv size + 1 rejected"
    ctx.assumptions += ["1-D operators as reference (sizes are per axis); torch pooling requires pad <= kernel/2"]


def replay(ctx: Ctx, data: Dict[str, Any]) -> None:
    check_case(ctx, data["case"])
