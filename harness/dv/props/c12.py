"""C12 - spatial derivatives of flow fields are exact on polynomial fields (spec: Deriv)."""
from __future__ import annotations

import itertools
import json
from typing import Any, Dict, List

import torch

from ..core import Ctx
from ..rat import F, fl
from ..tol import max_err
from ..tlc import MachineryError, json_lines

MODES = ["forward", "backward", "central", "forward_central_backward", "prewitt", "sobel", "bspline"]
MARGIN1 = {"forward": (0, 1), "backward": (1, 0), "central": (1, 1), "forward_central_backward": (0, 0), "prewitt": (0, 0), "sobel": (0, 0), "bspline": (1, 1)}
CH = "uvw"
AX = "xyz"
DERIV_CFG = ("SPECIFICATION Spec\nCONSTANTS\n  Shapes <- {T}Shapes\n  SpacingsOf <- {T}Spacings\n  FieldsOf <- {T}Fields\n  Probes <- {T}Probes\n"
             "  EmitCases = {emit}\n{inv}CONSTRAINT Emit\n")


def poly_field(n: List[int], h: List[float], fld: List[dict]) -> torch.Tensor:
    """Samples of the polynomial vector field as (1, D, ..., X) float64."""
    D = len(n)
    axes = [torch.arange(n[k], dtype=torch.float64) * h[k] for k in range(D)]
    mesh = torch.meshgrid(*reversed(axes), indexing="ij")  # (.., y, x)
    p = list(reversed(mesh))  # p[0] = x positions
    comps = []
    for c in fld:
        k0, L, Q = float(fl(F(c["k"]))), fl(F(c["L"])), fl(F(c["Q"]))
        v = torch.full_like(p[0], k0)
        for j in range(D):
            v = v + L[j] * p[j]
            for l in range(j, D):
                v = v + Q[j][l] * p[j] * p[l]
        comps.append(v)
    return torch.stack(comps).unsqueeze(0)


def analytic_first(n, h, fld, c: int, j: int) -> torch.Tensor:
    D = len(n)
    axes = [torch.arange(n[k], dtype=torch.float64) * h[k] for k in range(D)]
    mesh = torch.meshgrid(*reversed(axes), indexing="ij")
    p = list(reversed(mesh))
    L, Q = fl(F(fld[c]["L"])), fl(F(fld[c]["Q"]))
    v = torch.full_like(p[0], L[j])
    for l in range(D):
        q = Q[min(j, l)][max(j, l)]
        v = v + (2 * q if l == j else q) * p[l]
    return v


def align(t: torch.Tensor, n: List[int], mode: str) -> torch.Tensor:
    """Bring a derivative tensor onto the full sample lattice.  In bspline mode the samples are spline coefficients with one
    control point before and two after the evaluated domain, so output sample j belongs to coefficient index j + 1."""
    D = len(n)
    if mode != "bspline":
        return t
    exp_shape = tuple(m - 3 for m in reversed(n))
    if tuple(t.shape[2:]) != exp_shape:
        return t
    out = torch.full(t.shape[:2] + tuple(reversed(n)), float("nan"), dtype=t.dtype)
    out[(slice(None), slice(None)) + tuple(slice(1, m - 2) for m in reversed(n))] = t
    return out


def check_case(ctx: Ctx, c: Dict[str, Any], k: int = 0) -> None:
    import deepali.core.functional as U

    n, h, fld = c["n"], fl(F(c["h"])), c["fld"]
    D = len(n)
    affine = bool(c["affine"])
    f1 = poly_field(n, h, fld)
    flow = torch.cat([f1, 2 * f1])  # batch of two
    # per batch item spacing: the second item declares twice the spacing (its first derivatives halve, see `item1` below)
    forms = [("vector", h), ("per_item", [h, [2 * v for v in h]])]
    if len(set(h)) == 1:
        forms.append(("scalar", h[0]))
    form_name, sp = forms[k % len(forms)]
    sig0 = dict(D=D, affine=affine, spacing_form=form_name)
    Hs = fl(F(c["H"]))

    def bad(op, msg, **kw):
        ctx.violation(dict(op=op, **sig0, **kw), f"{op} [D={D}, spacing {form_name}={sp}]: {msg}", c)

    for mode in MODES:
        try:
            d1 = U.flow_derivatives(flow, order=1, mode=mode, spacing=sp)
            d2 = U.flow_derivatives(flow, order=2, mode=mode, spacing=sp)
        except Exception as ex:
            bad("flow_derivatives", f"mode={mode} raised {type(ex).__name__}: {str(ex)[:120]}", exc=type(ex).__name__, mode=mode)
            continue
        # first derivatives: full exact set for affine fields, interior probes for quadratic fields
        for ci, j in itertools.product(range(D), range(D)):
            key = f"d{CH[ci]}/d{AX[j]}"
            if key not in d1:
                bad("flow_derivatives", f"key {key} missing", mode=mode, what="keys")
                continue
            got = align(d1[key].to(torch.float64), n, mode)
            if tuple(got.shape[2:]) != tuple(reversed(n)):
                bad("flow_derivatives", f"{key} with mode={mode} has shape {tuple(got.shape)}", mode=mode, what="shape")
                continue
            exp = analytic_first(n, h, fld, ci, j)
            if affine:
                lo, hi = MARGIN1[mode]
                if mode == "bspline":
                    lo, hi = 1, 2
                sl = [slice(1, m - 2) if mode == "bspline" else slice(None) for m in reversed(n)]
                sl[D - 1 - j] = slice(lo, n[j] - hi)
                sel = (0, 0) + tuple(sl)
                err = max_err(got[sel], exp[tuple(sl)])
                if err > 1e-5:
                    inner = tuple(slice(1, -2) for _ in range(D))
                    ierr = max_err(got[(0, 0) + inner], exp[inner])
                    bad("flow_derivatives", f"{key} of an affine field with mode={mode} is off by {err:.3g} on the scheme's exact set"
                        f" ({'border of the other axes only' if ierr < 1e-5 else 'also in the interior'})",
                        mode=mode, what="first", where="border" if ierr < 1e-5 else "interior")
                item1 = 1.0 if form_name == "per_item" else 2.0  # second item = 2 * field; with doubled spacing its derivative is 2/2
                err2 = max_err(got[(1, 0) + tuple(slice(1, -2) for _ in range(D))], item1 * exp[tuple(slice(1, -2) for _ in range(D))])
                if err2 > 1e-5:
                    bad("flow_derivatives", f"{key} of the second batch item is off by {err2:.3g}", mode=mode, what="batch")
            elif mode not in ("forward", "backward"):
                for pr in c["probes"]:
                    e = float(fl(F(pr["J"]))[ci][j])
                    g = float(got[(0, 0) + tuple(reversed(pr["i"]))])
                    if abs(g - e) > 1e-5 * max(1.0, abs(e)):
                        bad("flow_derivatives", f"{key} of a quadratic field with mode={mode} at interior sample {pr['i']} is {g}, analytic {e}", mode=mode, what="first_quadratic")
                        break
        # second derivatives of quadratic fields in the interior; mixed derivatives symmetric
        for ci, j, l in itertools.product(range(D), range(D), range(D)):
            key = f"d{CH[ci]}/d{AX[j]}{AX[l]}"
            key_t = f"d{CH[ci]}/d{AX[l]}{AX[j]}"
            if key not in d2:
                bad("flow_derivatives", f"key {key} missing", mode=mode, what="keys")
                continue
            if key_t in d2 and max_err(d2[key], d2[key_t]) > 1e-6:
                bad("flow_derivatives", f"mixed derivatives {key} and {key_t} differ", mode=mode, what="mixed_symmetry")
            e = Hs[ci][j][l]
            g2 = align(d2[key].to(torch.float64), n, mode)
            if tuple(g2.shape[2:]) != tuple(reversed(n)):
                bad("flow_derivatives", f"{key} with mode={mode} has shape {tuple(g2.shape)}", mode=mode, what="shape")
                continue
            for pr in c["probes"]:
                g = float(g2[(0, 0) + tuple(reversed(pr["i"]))])
                if abs(g - e) > 1e-5 * max(1.0, abs(e)):
                    bad("flow_derivatives", f"{key} with mode={mode} at interior sample {pr['i']} is {g}, analytic {e}", mode=mode, what="second")
                    break
        # subset of keys = restriction of all
        sub = [f"d{CH[D - 1]}/dx", f"du/d{AX[D - 1]}", f"d{CH[0]}/dxy"]
        try:
            ds = U.flow_derivatives(flow, which=sub, mode=mode, spacing=sp)
            if list(ds.keys()) != sub:
                bad("flow_derivatives", f"subset request returned keys {list(ds.keys())}", mode=mode, what="subset_keys")
            for key in sub:
                ref = d1.get(key, d2.get(key))
                if ref is None:
                    ref = d2.get(f"{key[:-2]}{key[-1]}{key[-2]}")
                if ref is not None and max_err(ds[key], ref) > 1e-6:
                    bad("flow_derivatives", f"{key} requested in a subset differs from the full request (mode={mode})", mode=mode, what="subset")
        except Exception as ex:
            bad("flow_derivatives", f"subset request raised {type(ex).__name__}: {ex}", exc=type(ex).__name__, mode=mode, what="subset")
    # Gaussian derivative mode: not exact on the lattice, but covariant - the derivative w.r.t. axis j computed with spacing h equals the
    # one computed with unit spacing divided by h[j] (and by h[j] h[l] for second order)
    if form_name == "vector":
        try:
            dg = U.flow_derivatives(flow, order=2, mode="gaussian", sigma=0.8, spacing=sp)
            d1u = U.flow_derivatives(flow, order=2, mode="gaussian", sigma=0.8, spacing=1)
            for key, val in dg.items():
                axes_ = key.split("/d")[1]
                fac = 1.0
                for ch in axes_:
                    fac *= h[AX.index(ch)]
                if max_err(val * fac, d1u[key]) > 1e-5 * max(1.0, float(d1u[key].abs().max())):
                    bad("flow_derivatives", f"{key} with mode=gaussian and spacing {sp} is not the unit-spacing derivative divided by the spacing of its own axes "
                        f"(off by {max_err(val * fac, d1u[key]):.3g})", mode="gaussian", what="spacing_covariance")
                    break
        except Exception as ex:
            bad("flow_derivatives", f"mode=gaussian raised {type(ex).__name__}: {str(ex)[:100]}", exc=type(ex).__name__, mode="gaussian")
    # B-spline mode with a different stride per axis: a derivative does not depend on which other derivatives are requested with it
    strides = (2, 3) if D == 2 else (2, 3, 2)
    keys = [f"du/d{AX[j]}" for j in range(D)] + [f"dv/d{AX[0]}{AX[1]}", f"du/d{AX[D - 1]}{AX[D - 1]}"]
    try:
        together = U.flow_derivatives(flow, which=keys, mode="bspline", stride=strides, spacing=sp)
        for key in keys:
            alone = U.flow_derivatives(flow, which=[key], mode="bspline", stride=strides, spacing=sp)[key]
            if together[key].shape != alone.shape or max_err(together[key], alone) > 1e-6:
                bad("flow_derivatives", f"{key} (mode=bspline, stride={strides}) requested together with {keys} has shape {tuple(together[key].shape)}, "
                    f"requested alone {tuple(alone.shape)}" + ("" if together[key].shape != alone.shape else f" and differs by {max_err(together[key], alone):.3g}"),
                    mode="bspline", what="subset_stride")
                break
    except Exception as ex:
        bad("flow_derivatives", f"mode=bspline with stride={strides} raised {type(ex).__name__}: {str(ex)[:100]}", exc=type(ex).__name__, mode="bspline", what="subset_stride")
    # B-spline mode evaluated BETWEEN the coefficients (stride > 1): the spline of polynomial coefficients of degree <= 2 has the
    # polynomial's second derivatives everywhere, and the spline of affine coefficients the affine map's first derivatives
    for st in (2, 3, (3, 2, 2)[:D]):
        try:
            d2s = U.flow_derivatives(flow, order=2, mode="bspline", stride=st, spacing=sp)
            d1s = U.flow_derivatives(flow, order=1, mode="bspline", stride=st, spacing=sp) if affine else {}
        except Exception as ex:
            bad("flow_derivatives", f"mode=bspline with stride={st} raised {type(ex).__name__}: {str(ex)[:100]}", exc=type(ex).__name__, mode="bspline", what="stride")
            continue
        done = False
        for ci, j, l in itertools.product(range(D), range(D), range(D)):
            key = f"d{CH[ci]}/d{AX[j]}{AX[l]}"
            if key not in d2s:
                continue
            e = Hs[ci][j][l]
            err = float((d2s[key][0].to(torch.float64) - e).abs().max())
            if err > 2e-5 * max(1.0, abs(e)):
                bad("flow_derivatives", f"{key} with mode=bspline, stride={st}: the spline of quadratic coefficients has second derivative {e} everywhere, got values off by {err:.3g}",
                    mode="bspline", what="second_stride", mixed=j != l)
                done = True
                break
        if affine and not done:
            for ci, j in itertools.product(range(D), range(D)):
                key = f"d{CH[ci]}/d{AX[j]}"
                if key not in d1s:
                    continue
                e = float(analytic_first(n, h, fld, ci, j).reshape(-1)[0])
                err = float((d1s[key][0].to(torch.float64) - e).abs().max())
                if err > 2e-5 * max(1.0, abs(e)):
                    bad("flow_derivatives", f"{key} with mode=bspline, stride={st}: the spline of affine coefficients has first derivative {e} everywhere, got values off by {err:.3g}",
                        mode="bspline", what="first_stride")
                    break
    # the Curl MODULE is the functional form with the constructor's options; FlowFields.curl (known broken wrapper) is not used
    try:
        from deepali.modules.flow import Curl

        for okw in (dict(spacing=sp), dict(spacing=sp, mode="central"), dict(spacing=sp, sigma=0.7), dict()):
            a_ = Curl(**okw)(flow)
            b_ = U.curl(flow, **okw)
            if a_.shape != b_.shape or max_err(a_, b_) > 1e-9 * max(1.0, float(b_.abs().max())):
                bad("Curl", f"module constructed with {sorted(okw)} differs from curl() with the same options by {max_err(a_, b_) if a_.shape == b_.shape else 'shape'}", what="module", options=sorted(okw))
                break
    except Exception as ex:
        bad("Curl", f"module raised {type(ex).__name__}: {str(ex)[:100]}", exc=type(ex).__name__, what="module")
    # integer-valued fields given with an INTEGER dtype are differentiated like the same field in floating point (spacing is not an index)
    if affine and all(float(v).is_integer() for comp in fld for v in [1]):
        try:
            fi = (flow * 4).round()
            for dt_ in (torch.int64, torch.int32, torch.int16):
                di = U.flow_derivatives(fi.to(dt_), order=1, spacing=sp)
                df = U.flow_derivatives(fi.to(torch.float32), order=1, spacing=sp)
                for key in df:
                    if key not in di or not di[key].dtype.is_floating_point or not bool(torch.isfinite(di[key]).all()) or max_err(di[key], df[key]) > 1e-5 * max(1.0, float(df[key].abs().max())):
                        bad("flow_derivatives", f"{key} of an integer-typed ({dt_}) field differs from the derivative of the same field in float32", what="int_dtype", dtype=str(dt_))
                        raise StopIteration
                ji = U.jacobian_det(fi.to(dt_))
                jf = U.jacobian_det(fi.to(torch.float32))
                if not bool(torch.isfinite(ji.float()).all()) or max_err(ji.float(), jf) > 1e-4 * max(1.0, float(jf.abs().max())):
                    bad("jacobian_det", f"of an integer-typed ({dt_}) field with the default spacing differs from the float32 result", what="int_dtype", dtype=str(dt_))
                    raise StopIteration
        except StopIteration:
            pass
        except Exception as ex:
            bad("flow_derivatives", f"integer-typed field raised {type(ex).__name__}: {str(ex)[:100]}", exc=type(ex).__name__, what="int_dtype")
    # assembled quantities (default scheme) at the interior probes
    try:
        jd = U.jacobian_dict(flow, spacing=sp)
        jm = U.jacobian_matrix(flow, spacing=sp)
        det1 = U.jacobian_det(flow, spacing=sp)
        det0 = U.jacobian_det(flow, spacing=sp, add_identity=False)
        div = U.divergence(flow, spacing=sp)
        crl = U.curl(flow, spacing=sp)
        jmi = U.jacobian_matrix(flow, spacing=sp, add_identity=True)
        for pr in c["probes"]:
            ii = tuple(reversed(pr["i"]))
            J = fl(F(pr["J"]))
            for a_, b_ in itertools.product(range(D), range(D)):
                if abs(float(jd[(a_, b_)][(0, 0) + ii]) - J[a_][b_]) > 1e-5 * max(1, abs(J[a_][b_])):
                    bad("jacobian_dict", f"entry ({a_},{b_}) at {pr['i']} differs", what="jacobian")
                if abs(float(jm[(0,) + ii][a_][b_] if jm.shape[-1] == D else jm[0, a_, b_][ii]) - J[a_][b_]) > 1e-5 * max(1, abs(J[a_][b_])):
                    bad("jacobian_matrix", f"entry ({a_},{b_}) at {pr['i']} differs", what="jacobian")
            for name, got, e in (("jacobian_det", det1, pr["det1"]), ("jacobian_det[add_identity=False]", det0, pr["det0"]), ("divergence", div, pr["div"])):
                ev = float(fl(F(e)))
                gv = float(got[(0, 0) + ii])
                if abs(gv - ev) > 1e-5 * max(1.0, abs(ev)):
                    bad(name, f"at {pr['i']} is {gv}, analytic {ev}", what="assembled")
            ec = fl(F(pr["curl"]))
            for q in range(len(ec)):
                gv = float(crl[(0, q) + ii])
                if abs(gv - ec[q]) > 1e-5 * max(1.0, abs(ec[q])):
                    bad("curl", f"component {q} at {pr['i']} is {gv}, analytic {ec[q]}", what="assembled")
    except Exception as ex:
        bad("jacobian/divergence/curl", f"raised {type(ex).__name__}: {str(ex)[:150]}", exc=type(ex).__name__)
    ctx.count(key=json.dumps([n, c["h"], fld, form_name]), nontrivial=True)


def run(ctx: Ctx) -> None:
    ctx.rule = ("one case per (shape, spacing, polynomial vector field) x 7 schemes x spacing form; first derivatives of affine fields on each scheme's "
                "exact index set, first/second derivatives of quadratic fields at interior probes, key algebra, det/div/curl/Jacobian at probes")
    ctx.tlc("MC_Deriv", DERIV_CFG.format(T="Q" if ctx.tier == "quick" else "T", emit="FALSE", inv="INVARIANT Laws\n"), label="laws", timeout=3000)
    res = ctx.tlc("MC_Deriv", DERIV_CFG.format(T="Q" if ctx.tier == "quick" else "T", emit="TRUE", inv=""), label="emit", timeout=3000)
    cases = json_lines(res, key=None)
    if not cases:
        raise MachineryError("no cases")
    for k, c in enumerate(cases):
        for v in range(3 if ctx.tier == "thorough" else 2):
            check_case(ctx, c, k + v + ctx.seed)
    ctx.traces = len(cases)
    ctx.sample({k: cases[0][k] for k in ("n", "h", "fld", "probes")})
    probe = Ctx(ctx.prop, ctx.tier, ctx.seed)
    probe.findings = []
    c = json.loads(json.dumps(cases[0]))
    c["fld"][0]["L"][0] = [c["fld"][0]["L"][0][0] + c["fld"][0]["L"][0][1], c["fld"][0]["L"][0][1]]
    c2 = json.loads(json.dumps(cases[0]))
    c2["probes"] = c["probes"]
    c2["probes"][0]["div"] = [c2["probes"][0]["div"][0] + c2["probes"][0]["div"][1], c2["probes"][0]["div"][1]]
    check_case(probe, c2)
    if not probe.violations:
        raise MachineryError("binding self-test failed")
    ctx.notes["binding_selftest"] = "perturbed analytic divergence rejected"
    ctx.assumptions += ["polynomial fields of degree <= 2 with rational coefficients; spacings scalar / per axis / per batch item",
                        "values at the border samples of the one-sided schemes are not constrained (the property exempts them)"]


def replay(ctx: Ctx, data: Dict[str, Any]) -> None:
    for v in range(3):
        check_case(ctx, data["case"], v)
