"""X05 (beyond the listed properties) - values of the basic image operations (spec: ImageOps)."""
from __future__ import annotations

import json
from typing import Any, Dict

import torch

from ..core import Ctx
from ..rat import F, fl
from ..tlc import MachineryError, json_lines

CFG = """SPECIFICATION Spec
CONSTANTS
  Images <- QImages
  Kernels <- QKernels
  EmitCases = {emit}
{inv}CONSTRAINT Emit
"""


def ints(M) -> torch.Tensor:
    return torch.tensor(M, dtype=torch.float64)


def rats(M) -> torch.Tensor:
    return torch.tensor(fl(F(M)), dtype=torch.float64)


def check_case(ctx: Ctx, c: Dict[str, Any], k: int = 0) -> None:
    import deepali.core.functional as U
    from deepali.data.image import Image
    from deepali.core.grid import Grid

    I = ints(c["I"])
    ny, nx = I.shape
    forms = [("float64", torch.float64), ("float32", torch.float32)]
    fname, dtype = forms[k % 2]
    data = I.to(dtype).reshape(1, 1, ny, nx)
    data2 = torch.cat([data, data * 2], dim=1)  # second channel = 2 * first

    def cmp(op: str, got, want: torch.Tensor, tol=1e-6, **kw):
        if got is None:
            return
        g = got.detach().to(torch.float64)
        if tuple(g.shape[-2:]) != tuple(want.shape) or float((g.reshape(-1, *want.shape)[0] - want).abs().max()) > tol * max(1.0, float(want.abs().max())):
            ctx.violation(dict(op=op, **kw), f"{op} ({kw}) on a {nx}x{ny} image gives {g.reshape(-1, *g.shape[-2:])[0].tolist()}, the specification {want.tolist()}", c)

    def guarded(op, fn, **kw):
        try:
            return fn()
        except Exception as ex:
            ctx.violation(dict(op=op, exc=type(ex).__name__, **kw), f"{op} ({kw}) raised {type(ex).__name__}: {str(ex)[:100]}", c)
            return None

    kind = c["kind"]
    if kind == "pad":
        num = (c["l"], c["r"], c["t"], c["b"])
        mode = c["mode"]
        want = ints(c["out"])
        kwv = dict(value=7) if mode == "constant" else {}  # border modes take no fill value
        o = guarded("pad", lambda: U.pad(data2, num=num, mode=mode, **kwv), mode=mode)
        cmp("pad", o, want, mode=mode)
        if o is not None and o.shape[1] == 2 and float((o[0, 1] - 2 * o[0, 0]).abs().max()) > 1e-6 and mode != "constant":
            ctx.violation(dict(op="pad", what="channels", mode=mode), "pad treats channels differently", c)
        # crop is pad with negated amounts
        o = guarded("crop", lambda: U.crop(data, num=tuple(-v for v in num), mode=mode, **kwv), mode=mode)
        cmp("crop", o, want, mode=mode)
        # the Image method keeps data and grid in step (grid checked by C04): only the data here
        if mode == "constant":
            img = Image(data[0], Grid(size=(nx, ny)))
            o = guarded("Image.pad", lambda: img.pad(num=num, mode=mode, value=7).tensor())
            cmp("Image.pad", o, want)
    elif kind == "center":
        size = (c["sx"], c["sy"])
        cmp("center_crop", guarded("center_crop", lambda: U.center_crop(data, size)), ints(c["crop"]))
        cmp("center_pad", guarded("center_pad", lambda: U.center_pad(data, size, value=9)), ints(c["pad"]))
    elif kind == "misc":
        cmp("fill_border", guarded("fill_border", lambda: U.fill_border(data, (1, 0), value=5)), ints(c["fill"]), margin="x")
        cmp("fill_border", guarded("fill_border", lambda: U.fill_border(data, 1, value=-2)), ints(c["fill2"]), margin="all")
        cmp("avg_pool", guarded("avg_pool", lambda: U.avg_pool(data, 2)), rats(c["avg"]))
        cmp("max_pool", guarded("max_pool", lambda: U.max_pool(data, 2)), ints(c["max"]))
        cmp("min_pool", guarded("min_pool", lambda: U.min_pool(data, 2)), ints(c["min"]))
        cmp("rescale", guarded("rescale", lambda: U.rescale(data, -1, 3)), rats(c["rescale"]))
        cmp("normalize_image", guarded("normalize_image", lambda: U.normalize_image(data, mode="unit")), rats(c["unit"]), mode="unit")
        cmp("normalize_image", guarded("normalize_image", lambda: U.normalize_image(data, mode="center")), rats(c["center"]), mode="center")
        cmp("crop", guarded("crop", lambda: U.crop(data, margin=(1, 0))), ints(c["crop1"]), form="margin")
        # integer images: float result by default (documented), the integer type on request - then rounded, range kept
        o = guarded("rescale", lambda: U.rescale(I.to(torch.int32).reshape(1, 1, ny, nx), 0, 255, dtype=torch.int32), dtype="int32")
        if o is not None and (o.dtype != torch.int32 or int(o.min()) != 0 or int(o.max()) != 255):
            ctx.violation(dict(op="rescale", dtype="int32"), f"rescale of an int32 image to [0, 255]: dtype {o.dtype}, range [{int(o.min())}, {int(o.max())}]", c)
    elif kind == "conv":
        ker = torch.tensor(fl(F(c["ker"])), dtype=dtype)
        mode = c["mode"]
        o = guarded("conv", lambda: U.conv(data, [None, ker], padding=mode), mode=mode)  # kernels in tensor order (..., ky, kx)
        cmp("conv", o, rats(c["out"]), tol=1e-5 if dtype == torch.float32 else 1e-10, mode=mode, form="x only")
        o = guarded("conv1d", lambda: U.conv1d(data, ker, dim=3, padding=mode), mode=mode)
        cmp("conv1d", o, rats(c["out"]), tol=1e-5 if dtype == torch.float32 else 1e-10, mode=mode)


def run(ctx: Ctx) -> None:
    ctx.rule = "every (image, operation, parameters) leaf of ImageOps.tla: pad/crop in three modes, centre crop/pad, border fill, pooling, rescale/normalise, separable convolution"
    ctx.tlc("MC_ImageOps", CFG.format(emit="FALSE", inv="INVARIANT Laws\n"), label="laws", timeout=3000)
    res = ctx.tlc("MC_ImageOps", CFG.format(emit="TRUE", inv=""), label="emit", timeout=3000)
    cases = [c for c in json_lines(res, key=None) if "kind" in c]
    if len(cases) < 300:
        raise MachineryError(f"only {len(cases)} cases")
    for i, c in enumerate(cases):
        check_case(ctx, c, i + ctx.seed)
        ctx.count(key=json.dumps(c), nontrivial=True)
    ctx.traces = len(cases)
    ctx.sample(cases[0])
    probe = Ctx(ctx.prop, ctx.tier, ctx.seed)
    bad = json.loads(json.dumps(next(c for c in cases if c["kind"] == "pad")))
    bad["out"][0][0] += 1
    check_case(probe, bad)
    if not probe.violations:
        raise MachineryError("binding self-test failed")
    ctx.notes["binding_selftest"] = "one expected padded value + 1 rejected"


def replay(ctx: Ctx, data: Dict[str, Any]) -> None:
    check_case(ctx, data["case"])
