"""X03 (beyond the listed properties) - local storage objects and path helpers as a file-system state machine (spec: Storage)."""
from __future__ import annotations

import json
import os
import random
import shutil
import tempfile
from typing import Any, Dict, List

from ..core import Ctx
from ..tlc import MachineryError, json_lines

CFG = """SPECIFICATION Spec
CONSTANTS
  Names = {{"a", "b"}}
  MaxDepth = 2
  Datas = {{"x", "y"}}
  MaxLen = {maxlen}
  EmitCases = {emit}
{inv}CONSTRAINT Emit
"""
INV = "INVARIANT TypeOK\nINVARIANT FSInv\nINVARIANT ReadYourWrite\nPROPERTY Frame\n"


def tree(root: str) -> Dict[str, str]:
    out = {}
    for d, dirs, files in os.walk(root):
        rel = os.path.relpath(d, root)
        pre = "" if rel == "." else rel + "/"
        for n in dirs:
            out[pre + n] = "dir"
        for n in files:
            out[pre + n] = open(os.path.join(d, n), "rb").read().decode()
    return out


def replay_history(ctx: Ctx, c: Dict[str, Any]) -> None:
    from deepali.core import pathlib as PL
    from deepali.core.storage import StorageObject

    root = tempfile.mkdtemp(prefix="dvx03_")
    model: Dict[str, str] = {}
    try:
        for k, st in enumerate(c["hist"]):
            op, p, arg, want = st["op"], "/".join(st["p"]), st["arg"], st["out"]
            path = os.path.join(root, p)
            obj = StorageObject.from_path(path)
            try:
                if op == "write_bytes":
                    obj.write_bytes(arg.encode())
                    got = "ok"
                elif op == "read_bytes":
                    got = obj.read_bytes().decode()
                elif op == "unlink":
                    obj.unlink()
                    got = "ok"
                elif op == "rmdir":
                    obj.rmdir()
                    got = "ok"
                elif op == "delete":
                    obj.delete()
                    got = "ok"
                elif op == "pathlib.delete":
                    got = str(PL.delete(path))
                elif op == "pathlib.delete_empty":
                    got = str(PL.delete(path, non_empty=False))
                elif op == "unlink_or_mkdir":
                    r = PL.unlink_or_mkdir(path)
                    got = "ok" if str(r) == path else f"returned {r}"
                elif op == "stat":
                    e, f, d = obj.exists(), obj.is_file(), obj.is_dir()
                    got = "file" if f else "dir" if d else "absent"
                    if e != (f or d):
                        got += f" (exists()={e})"
                else:
                    raise MachineryError(op)
            except MachineryError:
                raise
            except Exception as ex:
                got = type(ex).__name__
            # the specification's tree after this step: recompute from the emitted history prefix is not available per step, so
            # the harness keeps its own copy driven ONLY by the specification's outcomes (ok / error) and checks the real tree against it
            if want == "ok" or (op.startswith("pathlib.delete") and want == "True"):
                if op == "write_bytes":
                    parts = st["p"]
                    for i in range(1, len(parts)):
                        model["/".join(parts[:i])] = "dir"
                    model[p] = arg
                elif op in ("unlink", "pathlib.delete_empty"):
                    model.pop(p, None)
                elif op in ("rmdir", "delete", "pathlib.delete"):
                    for q in [q for q in model if q == p or q.startswith(p + "/")]:
                        del model[q]
                elif op == "unlink_or_mkdir":
                    parts = st["p"]
                    for i in range(1, len(parts)):
                        model["/".join(parts[:i])] = "dir"
                    model.pop(p, None)
            sig = dict(op=op, want=want if want in ("ok", "True", "False", "absent", "dir", "file") or want.endswith("Error") else "data", depth=len(st["p"]))
            done = [(h["op"], "/".join(h["p"]), h["arg"]) for h in c["hist"][: k + 1]]
            if got != want:
                ctx.violation(dict(**sig, got=got if got.endswith("Error") or got in ("ok", "True", "False") else "value"),
                              f"{done}: {op}({p}) gives {got}, the specification {want}", c)
                return
            real = tree(root)
            if real != model:
                ctx.violation(dict(**sig, what="tree"), f"{done}: the directory tree is {real}, the specification gives {model}", c)
                return
        if "final" in c:
            fin = {"/".join(e[0]): e[1] for e in c["final"]}
            if fin != model:
                raise MachineryError(f"harness copy of the tree {model} differs from the specification's final tree {fin}")
    finally:
        shutil.rmtree(root, ignore_errors=True)


def run(ctx: Ctx) -> None:
    ctx.rule = "every history of storage/path operations over 6 paths up to the length bound, replayed in a scratch directory; outcome and complete tree compared after every step"
    quick = ctx.tier == "quick"
    ctx.tlc("Storage", CFG.format(maxlen=3, emit="FALSE", inv=INV), label="laws", timeout=3000)
    res = ctx.tlc("Storage", CFG.format(maxlen=2, emit="TRUE", inv=""), label="emit-2", timeout=3000)
    cases = [c for c in json_lines(res, key=None) if "hist" in c]
    res3 = ctx.tlc("Storage", CFG.format(maxlen=3, emit="TRUE", inv=""), label="emit-3", timeout=3000)
    cases3 = [c for c in json_lines(res3, key=None) if "hist" in c]
    rng = random.Random(ctx.seed)
    if quick:
        rng.shuffle(cases3)
        cases3 = cases3[:6000]
    if len(cases) < 3000 or len(cases3) < 6000:
        raise MachineryError(f"too few histories: {len(cases)}, {len(cases3)}")
    for c in cases + cases3:
        replay_history(ctx, c)
        ctx.count(key=json.dumps(c["hist"]), nontrivial=any(h["out"] == "ok" for h in c["hist"]))
    ctx.traces = len(cases) + len(cases3)
    ctx.sample(cases3[0])
    probe = Ctx(ctx.prop, ctx.tier, ctx.seed)
    bad = json.loads(json.dumps(next(c for c in cases if c["hist"][0]["op"] == "write_bytes" and c["hist"][1]["op"] == "read_bytes" and c["hist"][1]["out"] in ("x", "y"))))
    bad["hist"][1]["out"] = "x" if bad["hist"][1]["out"] == "y" else "y"
    del bad["final"]
    replay_history(probe, bad)
    if not probe.violations:
        raise MachineryError("binding self-test failed")
    ctx.notes["binding_selftest"] = "a read expected to return other data than was written is rejected"
    ctx.assumptions += ["POSIX semantics of the sandbox's file system (IsADirectoryError for unlink of a directory)"]


def replay(ctx: Ctx, data: Dict[str, Any]) -> None:
    replay_history(ctx, data["case"])
