"""X06 (beyond the listed properties) - ItemTransform on nested containers (spec: ItemTree)."""
from __future__ import annotations

import copy as _copy
import json
from collections import namedtuple
from dataclasses import dataclass, field, fields, is_dataclass
from typing import Any, Dict, List

from ..core import Ctx
from ..tlc import MachineryError, json_lines

CFG = """SPECIFICATION Spec
CONSTANTS
  Trees <- QTrees
  KeyPaths <- QKeyPaths
  EmitCases = {emit}
{inv}CONSTRAINT Emit
"""


@dataclass
class DC:
    a: Any = None
    b: Any = None
    meta: Any = None


NT = namedtuple("NT", ["a", "b"])


def build(nodes: List[dict], path=()) -> Any:
    by = {tuple(n["path"]): n for n in nodes}
    n = by[tuple(path)]
    kids = sorted({tuple(q)[len(path)] for q in by if len(q) == len(path) + 1 and tuple(q)[: len(path)] == tuple(path)})
    k = n["k"]
    if k == "leaf":
        return n["v"]
    if k == "none":
        return None
    if k == "dict":
        return {c: build(nodes, tuple(path) + (c,)) for c in kids}
    if k in ("list", "tuple"):
        seq = [build(nodes, tuple(path) + (str(i),)) for i in range(len(kids))]
        return seq if k == "list" else tuple(seq)
    if k == "dc":
        return DC(**{c: build(nodes, tuple(path) + (c,)) for c in kids})
    if k == "nt":
        return NT(**{c: build(nodes, tuple(path) + (c,)) for c in kids})
    raise MachineryError(k)


def flatten(obj: Any, path=()) -> Dict[tuple, tuple]:
    out = {}
    if isinstance(obj, DC):
        out[path] = ("dc", 0)
        for f in fields(obj):
            v = getattr(obj, f.name)
            if not (v is None and f.name == "meta" and "meta" not in getattr(obj, "_given", {"meta"})):
                out.update(flatten(v, path + (f.name,)))
    elif isinstance(obj, NT):
        out[path] = ("nt", 0)
        for name, v in zip(obj._fields, obj):
            out.update(flatten(v, path + (name,)))
    elif isinstance(obj, dict):
        out[path] = ("dict", 0)
        for kk, v in obj.items():
            out.update(flatten(v, path + (str(kk),)))
    elif isinstance(obj, (list, tuple)):
        out[path] = ("list" if isinstance(obj, list) else "tuple", 0)
        for i, v in enumerate(obj):
            out.update(flatten(v, path + (str(i),)))
    elif obj is None:
        out[path] = ("none", 0)
    else:
        out[path] = ("leaf", obj)
    return out


def containers(obj: Any) -> List[Any]:
    out = []
    if isinstance(obj, (dict, list, DC)):
        out.append(obj)
    vals = obj.values() if isinstance(obj, dict) else obj if isinstance(obj, (list, tuple)) else [getattr(obj, f.name) for f in fields(obj)] if isinstance(obj, DC) else []
    for v in vals:
        out.extend(containers(v))
    return out


def check_case(ctx: Ctx, c: Dict[str, Any], k: int = 0) -> None:
    from deepali.data.transforms.item import ItemTransform

    want_tree = {tuple(n["path"]): (n["k"], n["v"]) for n in c["out"]}
    in_tree = {tuple(n["path"]): (n["k"], n["v"]) for n in c["tree"]}
    # dataclass fields that the tree does not have are None in the object: ignore them on both sides
    data = build(c["tree"])
    snapshot = _copy.deepcopy(data)
    path = list(c["p"])
    forms = [".".join(path)] if path else [None, "all"]
    if len(path) >= 2 and path[-1].isdigit():
        forms.append(".".join(path[:-1]) + f"[{path[-1]}]")  # a.b[1] == a.b.1
    key = forms[k % len(forms)]
    sig = dict(tree=c["name"], depth=len(path), copy=bool(c["copy"]), ignore_meta=bool(c["ignore_meta"]), ignore_missing=bool(c["ignore_missing"]))
    t = ItemTransform(lambda x: x + 100, key=key, copy=bool(c["copy"]), ignore_meta=bool(c["ignore_meta"]), ignore_missing=bool(c["ignore_missing"]))
    try:
        out = t(data)
        got = "ok"
    except Exception as ex:
        out, got = None, type(ex).__name__
    desc = f"ItemTransform(x + 100, key={key!r}, copy={c['copy']}, ignore_meta={c['ignore_meta']}, ignore_missing={c['ignore_missing']}) on {snapshot!r}"
    if got != c["outcome"]:
        ctx.violation(dict(**sig, what="outcome", got=got, want=c["outcome"]), f"{desc}: {got}, the specification gives {c['outcome']}", c)
        return
    def strip(tree):  # unset dataclass fields appear as None leaves in objects but are absent in the specification's tree
        return {p: v for p, v in tree.items() if not (v == ("none", 0) and p not in in_tree)}
    if got == "ok" and strip(flatten(out)) != want_tree:
        ctx.violation(dict(**sig, what="result"), f"{desc} returns {out!r}; the specification gives the tree {sorted(want_tree.items())}", c)
        return
    if strip(flatten(data)) != in_tree or data != snapshot:
        ctx.violation(dict(**sig, what="input-mutated", root=in_tree[()][0]), f"{desc} modified its INPUT: it is now {data!r}", c)
        return
    if got == "ok" and c["copy"]:
        shared = [x for x in containers(out) if any(x is y for y in containers(data))]
        if shared:
            ctx.violation(dict(**sig, what="copy-shares"), f"{desc}: with copy=True the result still shares {shared!r} with the input", c)


def run(ctx: Ctx) -> None:
    ctx.rule = "every (tree, key path, ignore_meta, ignore_missing, copy) of the lattice; key given as 'a.b.1' / 'a.b[1]' / None / 'all'"
    ctx.tlc("MC_ItemTree", CFG.format(emit="FALSE", inv="INVARIANT Laws\n"), label="laws", timeout=3000)
    res = ctx.tlc("MC_ItemTree", CFG.format(emit="TRUE", inv=""), label="emit", timeout=3000)
    cases = [c for c in json_lines(res, key=None) if "outcome" in c]
    if len(cases) < 500:
        raise MachineryError(f"only {len(cases)} cases")
    for i, c in enumerate(cases):
        check_case(ctx, c, i + ctx.seed)
        ctx.count(key=json.dumps(c), nontrivial=c["outcome"] == "ok")
    ctx.traces = len(cases)
    ctx.sample(cases[0])
    probe = Ctx(ctx.prop, ctx.tier, ctx.seed)
    probe.findings = []
    bad = json.loads(json.dumps(next(c for c in cases if c["outcome"] == "ok" and c["p"] == ["b"] and c["name"] == "flat_dict")))
    for n in bad["out"]:
        if n["path"] == ["a"]:
            n["v"] += 1
    check_case(probe, bad)
    if not probe.violations:
        raise MachineryError("binding self-test failed")
    ctx.notes["binding_selftest"] = "an expected change outside the addressed item is rejected"
    ctx.assumptions += ["integer keys (sequence index, transform applied to the item itself) are not exercised; string keys only"]


def replay(ctx: Ctx, data: Dict[str, Any]) -> None:
    for k in range(3):
        check_case(ctx, data["case"], k)
