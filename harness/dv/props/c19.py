"""C19 - batches keep one correctly aligned grid per image under tensor operations (spec: Batch)."""
from __future__ import annotations

import copy
import io
import json
import pickle
import random
from typing import Any, Callable, Dict, List, Optional, Tuple

import torch
import torch.nn.functional as TF
from torch import Tensor

from ..core import Ctx
from ..tlc import MachineryError, json_lines

ident = lambda v: v  # noqa: E731


def _pickle(x):
    return pickle.loads(pickle.dumps(x))


# name -> (callable(x, env), scalar effect on a constant-valued item)
def op_table(D: int) -> Dict[str, Tuple[Callable, Callable]]:
    full = (slice(None),) * (D + 2)
    sp1 = (slice(None), slice(None), slice(1, 3))
    pool = {2: TF.avg_pool2d, 3: TF.avg_pool3d}[D]
    mpool = {2: TF.max_pool2d, 3: TF.max_pool3d}[D]
    T = {
        # ---- same
        "neg": (lambda x, e: -x, lambda v: -v),
        "mul2": (lambda x, e: x * 2, lambda v: 2 * v),
        "add_plain": (lambda x, e: x + torch.ones(1, dtype=x.dtype), lambda v: v + 1),
        "add_self": (lambda x, e: x + x, lambda v: 2 * v),
        "abs": (lambda x, e: x.abs(), abs),
        "clone": (lambda x, e: x.clone(), ident),
        "torch_clone": (lambda x, e: torch.clone(x), ident),
        "contiguous": (lambda x, e: x.contiguous(), ident),
        "double": (lambda x, e: x.double(), ident),
        "to_int": (lambda x, e: x.to(torch.int32), ident),
        "detach": (lambda x, e: x.detach(), ident),
        "flip_x": (lambda x, e: x.flip(-1), ident),
        "roll_x": (lambda x, e: x.roll(1, -1), ident),
        "copy": (lambda x, e: copy.copy(x), ident),
        "deepcopy": (lambda x, e: copy.deepcopy(x), ident),
        "pickle": (lambda x, e: _pickle(x), ident),
        "where": (lambda x, e: torch.where(x > 0, x, x), ident),
        "clamp": (lambda x, e: x.clamp(min=-100000, max=100000), ident),
        "ellipsis": (lambda x, e: x[...], ident),
        "full_slices": (lambda x, e: x[full], ident),
        "sub_scalar": (lambda x, e: x - 3, lambda v: v - 3),
        "type_float": (lambda x, e: x.type(torch.float32), ident),
        "squeeze_noop": (lambda x, e: x.squeeze(0) if x.shape[0] != 1 else x, ident),
        # ---- select
        "slice_1_3": (lambda x, e: x[1:3], ident),
        "slice_step2": (lambda x, e: x[::2], ident),
        "slice_0_1": (lambda x, e: x[0:1], ident),
        "list_2_0": (lambda x, e: x[[2, 0]], ident),
        "tensor_idx_201": (lambda x, e: x[torch.tensor([2, 0, 1])], ident),
        "bool_mask_101": (lambda x, e: x[torch.tensor([True, False, True])], ident),
        "tuple_slice_1": (lambda x, e: x[1:, ...], ident),
        "narrow_0_1_2": (lambda x, e: x.narrow(0, 1, 2), ident),
        "torch_narrow_0_0_2": (lambda x, e: torch.narrow(x, 0, 0, 2), ident),
        "index_select_201": (lambda x, e: torch.index_select(x, 0, torch.tensor([2, 0, 1])), ident),
        "index_select_11": (lambda x, e: x.index_select(0, torch.tensor([1, 1])), ident),
        "slice_0_0": (lambda x, e: x[0:0], ident),
        "slice_from_end": (lambda x, e: x[x.shape[0]:], ident),
        "list_empty": (lambda x, e: x[[]], ident),
        "bool_mask_000": (lambda x, e: x[torch.zeros(x.shape[0], dtype=torch.bool)], ident),
        "narrow_0_1_0": (lambda x, e: x.narrow(0, 1, 0), ident),
        "cat_empty_front": (lambda x, e: torch.cat([x[:0], x]), ident),
        "chunk2_0": (lambda x, e: x.chunk(2)[0], ident),
        "chunk2_1": (lambda x, e: x.chunk(2)[1], ident),
        "split2_0": (lambda x, e: x.split(2)[0], ident),
        "split2_1": (lambda x, e: torch.split(x, 2)[1], ident),
        "split2_kwdim_1": (lambda x, e: torch.split(x, 2, dim=0)[1], ident),
        "split_sizes_12_1": (lambda x, e: x.split([1, 2])[1], ident),
        "split_sizes_12_0": (lambda x, e: torch.split(x, [1, 2])[0], ident),
        "split_sizes_111_2": (lambda x, e: x.split([1, 1, 1])[2], ident),
        "split_sizes_111_1": (lambda x, e: torch.split(x, (1, 1, 1))[1], ident),
        "split_with_sizes_111_2": (lambda x, e: x.split_with_sizes([1, 1, 1])[2], ident),
        "tensor_split2_0": (lambda x, e: x.tensor_split(2)[0], ident),
        "tensor_split2_1": (lambda x, e: torch.tensor_split(x, 2)[1], ident),
        "tensor_split_idx1_1": (lambda x, e: x.tensor_split([1])[1], ident),
        "repeat_interleave_0": (lambda x, e: x.repeat_interleave(2, dim=0), ident),
        # ---- item
        "int_1": (lambda x, e: x[1], ident),
        "int_neg1": (lambda x, e: x[-1], ident),
        "select_0_2": (lambda x, e: x.select(0, 2), ident),
        "unbind_1": (lambda x, e: x.unbind(0)[1], ident),
        "iter_0": (lambda x, e: next(iter(x)), ident),
        "tuple_int_0": (lambda x, e: x[0, ...], ident),
        # ---- reorder
        "flip_0": (lambda x, e: x.flip(0), ident),
        "torch_flip_0": (lambda x, e: torch.flip(x, (0,)), ident),
        "roll_0_1": (lambda x, e: x.roll(1, 0), ident),
        "roll_0_2": (lambda x, e: torch.roll(x, 2, 0), ident),
        "repeat_2": (lambda x, e: x.repeat(2, *([1] * (x.ndim - 1))), ident),
        # ---- concat
        "from_images_20": (lambda x, e: type(x).from_images([x[2], x[0]]) if hasattr(x, "from_images") else x[[2, 0]], ident),
        "from_images_1": (lambda x, e: type(x).from_images([x[1]]) if hasattr(x, "from_images") else x[[1]], ident),
        "append_self": (lambda x, e: x.append(x) if hasattr(x, "append") else torch.cat([x, x]), ident),
        "append_other": (lambda x, e: x.append(e["other"](x)) if hasattr(x, "append") else torch.cat([x, e["other"](x)]), ident),
        "ellipsis_mid": (lambda x, e: x[1:, ..., :], ident),
        "slice_1_3_chan_0_1": (lambda x, e: x[1:3, 0:1], ident),
        "list_20_chan_0_1": (lambda x, e: x[[2, 0], 0:1], ident),
        "mask_101_chan_0_1": (lambda x, e: x[torch.tensor([True, False, True]), :1], ident),
        "slice_step2_chan_ellipsis": (lambda x, e: x[::2, :1, ...], ident),
        "cat_self": (lambda x, e: torch.cat([x, x]), ident),
        "cat_self_kwdim": (lambda x, e: torch.cat([x, x], dim=0), ident),
        "cat_other": (lambda x, e: torch.cat([x, e["other"](x)]), ident),
        # ---- channels
        "mean_c_keep": (lambda x, e: x.float().mean(1, keepdim=True), ident),
        "chan_slice_0_1": (lambda x, e: x[:, 0:1], ident),
        "narrow_c": (lambda x, e: x.narrow(1, 0, 1), ident),
        "cat_chan": (lambda x, e: torch.cat([x, x], dim=1), ident),
        "split_c_0": (lambda x, e: x.split(1, dim=1)[0], ident),
        # ---- spatial
        "interpolate": (lambda x, e: TF.interpolate(x.float(), scale_factor=2), ident),
        "avg_pool": (lambda x, e: pool(x.float(), 2), ident),
        "max_pool": (lambda x, e: mpool(x.float(), 2), ident),
        "pad": (lambda x, e: TF.pad(x, (1, 1) * D), ident),
        "spatial_slice": (lambda x, e: x[sp1], ident),
        # ---- mixed
        "sum_0_keep": (lambda x, e: x.sum(0, keepdim=True), ident),  # identity on a batch of one; else no item matches
        # ---- other
        "stack": (lambda x, e: torch.stack([x, x]), ident),
        "sum_all": (lambda x, e: x.sum(), None),
        "mean_0": (lambda x, e: x.float().mean(0), None),
        "permute_1023": (lambda x, e: x.permute(1, 0, *range(2, x.ndim)), ident),
        "transpose_0_1": (lambda x, e: x.transpose(0, 1), ident),
        "flatten": (lambda x, e: x.flatten(), ident),
        "unsqueeze_0": (lambda x, e: x.unsqueeze(0), ident),
        "drop_channel": (lambda x, e: x[:, 0], ident),
        "argmax_c": (lambda x, e: x.argmax(1), None),
        # ---- single image ops (dimension 0 = channels)
        "s_batch_0": (lambda x, e: x.batch()[0], ident),          # single image <-> one-element batch round trip
        "s_batch_iter": (lambda x, e: next(iter(x.batch())), ident),
        "s_narrow_full": (lambda x, e: x.narrow(0, 0, x.shape[0]), ident),
        "s_chan_slice": (lambda x, e: x[0:1], ident),
        "s_mean_c_keep": (lambda x, e: x.float().mean(0, keepdim=True), ident),
        "s_cat_chan": (lambda x, e: torch.cat([x, x], dim=0), ident),
        "s_split_c_0": (lambda x, e: x.split(1)[0], ident),
        "s_spatial_slice": (lambda x, e: x[:, 1:3], ident),
        "s_pad": (lambda x, e: TF.pad(x, (1, 1)), ident),
        "s_unsqueeze_0": (lambda x, e: x.unsqueeze(0), ident),
        "s_drop_channel": (lambda x, e: x[0], ident),
        "s_permute": (lambda x, e: x.permute(*range(1, x.ndim), 0), ident),
    }
    return T


def OTHER_VALUE(k: int) -> float:
    return 1000.0 * k + 7.0


def make_grid(k: int, D: int):
    from deepali.core.grid import Grid

    size = (5, 4) if D == 2 else (5, 4, 3)
    import math

    if D == 2:
        a = 0.3 * k
        R = [[math.cos(a), -math.sin(a)], [math.sin(a), math.cos(a)]]
    else:
        a = 0.3 * k
        R = [[math.cos(a), -math.sin(a), 0], [math.sin(a), math.cos(a), 0], [0, 0, 1]]
    return Grid(size=size, center=[10.0 * k] + [-float(k)] * (D - 1), spacing=[1 + 0.25 * k] * D, direction=R, align_corners=(k % 2 == 0))


def make_value(init: Dict[str, Any], ids: List[int]):
    from deepali.core.grid import Axes
    from deepali.data.flow import FlowField, FlowFields
    from deepali.data.image import Image, ImageBatch

    D, C = init["D"], init["C"]
    shape = (4, 5) if D == 2 else (3, 4, 5)
    data = torch.stack([torch.full((C,) + shape, 10.0 * k if k <= 3 else OTHER_VALUE(k)) for k in ids])
    grids = [make_grid(k, D) for k in ids]
    t = init["t"]
    if t == "ImageBatch":
        return ImageBatch(data, grids)
    if t == "FlowFields":
        return FlowFields(data, grids, Axes(init["axes"]))
    if t == "Image":
        return Image(data[0], grids[0])
    if t == "FlowField":
        return FlowField(data[0], grids[0], Axes(init["axes"]))
    raise MachineryError(f"unknown init type {t}")


def decode_item(entry: Tensor, chain: List[Optional[Callable]]) -> int:
    if entry.numel() == 0:
        return 0
    lo, hi = float(entry.min()), float(entry.max())
    if lo != hi:
        return 0
    for k in range(1, 6):
        v = 10.0 * k
        ok = True
        for f in chain:
            if f is None:
                ok = False
                break
            v = f(v)
        if ok and abs(v - lo) < 1e-6:
            return k
    # items of the second batch used by cat_other enter the program later: only a suffix of the chain applies
    for k in (4, 5):
        for j in range(len(chain) + 1):
            v = OTHER_VALUE(k)
            ok = True
            for f in chain[j:]:
                if f is None:
                    ok = False
                    break
                v = f(v)
            if ok and abs(v - lo) < 1e-6:
                return k
    return 0


def project(r: Any, chain: List[Optional[Callable]]) -> Dict[str, Any]:
    from deepali.data.flow import FlowField, FlowFields
    from deepali.data.image import Image, ImageBatch

    plain = dict(t="Plain", d=[], g=[], C=0, nG=0, shapeok=False, axes="")
    if not isinstance(r, Tensor) or type(r) is Tensor:
        return plain
    tname = type(r).__name__
    if tname not in ("Image", "ImageBatch", "FlowField", "FlowFields"):
        return dict(plain, t=tname)
    data = r.tensor()
    if isinstance(r, ImageBatch):
        grids = list(r._grid)
        d = [decode_item(data[i], chain) for i in range(data.shape[0])]
        g = [int(round(float(gr.center()[0]) / 10.0)) for gr in grids]
        shapeok = all(tuple(gr.shape) == tuple(data.shape[2:]) for gr in grids)
        C = int(data.shape[1]) if data.ndim > 1 else 0
    else:
        gr = r._grid
        d = [decode_item(data, chain)]
        g = [int(round(float(gr.center()[0]) / 10.0))]
        shapeok = tuple(gr.shape) == tuple(data.shape[1:])
        grids = [gr]
        C = int(data.shape[0])
    axes = r.axes().value if isinstance(r, (FlowField, FlowFields)) else ""
    return dict(t=tname, d=d, g=g, C=C, nG=len(grids), shapeok=bool(shapeok), axes=axes)


def norm(v: Dict[str, Any]) -> str:
    return json.dumps({k: v[k] for k in ("t", "d", "g", "C", "nG", "shapeok", "axes")}, sort_keys=True)


def other_factory(init):
    def mk(x):
        from deepali.data.image import ImageBatch

        if isinstance(x, ImageBatch):
            o = make_value(dict(init, t=type(x).__name__ if type(x).__name__ in ("ImageBatch", "FlowFields") else "ImageBatch", C=int(x.shape[1])), [4, 5])
            return o.to(x.dtype) if o.dtype != x.dtype else o
        D = init["D"]
        shape = (4, 5) if D == 2 else (3, 4, 5)
        return torch.stack([torch.full((x.shape[1],) + shape, OTHER_VALUE(k), dtype=x.dtype) for k in (4, 5)])
    return mk


def run_program(ctx: Ctx, init: Dict[str, Any], prog: List[str], allowed: Dict[str, set], table, record: Optional[list] = None) -> None:
    """Execute prog on the real object; after each step the projection must be an allowed successor."""
    x = make_value(init, list(range(1, init["N"] + 1)))
    env = {"other": other_factory(init)}
    chain: List[Optional[Callable]] = []
    trail: List[str] = []
    for k, name in enumerate(prog):
        if name not in table:
            raise MachineryError(f"operation {name} of the specification has no binding in the harness")
        fn, sc = table[name]
        was_plain = type(x) is Tensor
        try:
            r = fn(x, env)
        except Exception as ex:
            # is the operation accepted by torch on the plain data?  then deepali refused an enabled action
            try:
                px = x.tensor() if hasattr(x, "tensor") else x
                fn(px, env)
                plain_ok = True
            except Exception:
                plain_ok = False
            if plain_ok:
                if k == len(prog) - 1 or True:
                    ctx.violation(dict(op=name, init=init["t"], step=k, exc=type(ex).__name__, plain_input=was_plain),
                                  f"{name} on {init['t']} (after {prog[:k]}) raised {type(ex).__name__}: {str(ex)[:150]} "
                                  f"although torch accepts the operation on the plain tensor", dict(init=init, prog=prog))
                return
            raise MachineryError(f"specification enables {name} after {prog[:k]} on {init['t']} but torch rejects it: {ex}")
        chain.append(sc)
        p = project(r, chain)
        if trail and json.loads(trail[-1])["t"] != "Plain" and not json.loads(trail[-1])["d"]:
            return  # the specification does not continue programs on an empty typed batch
        trail.append(norm(p))
        if record is not None:
            record.append(dict(ev="op", op=name, val=p))
        if allowed is not None:
            key = json.dumps([prog[: k + 1], trail[:-1]])
            ok = allowed.get(key)
            if ok is None:
                raise MachineryError(f"no specification state for program {prog[:k+1]} with trail {trail[:-1]}")
            if trail[-1] not in ok:
                ctx.violation(dict(op=name, init=init["t"], result=p["t"], step=k,
                                   aligned=(p["d"] == p["g"]), ngrids_ok=(p["nG"] == len(p["d"])), shapeok=p["shapeok"]),
                              f"{name} on {init['t']} (after {prog[:k]}) returned a mis-described {p['t']}: data items {p['d']} "
                              f"carry grids {p['g']} (nG={p['nG']}, C={p['C']}, shapeok={p['shapeok']}, axes={p['axes']!r})",
                              dict(init=init, prog=prog, projection=p))
                return
        x = r
        if not isinstance(x, Tensor) or p["t"] == "Plain":
            return  # a plain tensor stays plain (PlainIsAbsorbing); nothing left to decide


def check_collate(ctx: Ctx, c: Dict[str, Any]) -> None:
    from deepali.data.collate import collate_samples

    init = dict(t=c["t"], C=c["C"], D=c["D"], axes=c["axes"], N=1)
    samples = []
    for part in c["parts"]:
        v = make_value(init, part)
        samples.append({"img": v, "name": "s"})
    sig = dict(op="collate_samples", init=c["t"], parts=[len(p) for p in c["parts"]])
    try:
        out = collate_samples(samples)["img"]
    except Exception as ex:
        ctx.violation(dict(**sig, exc=type(ex).__name__), f"collate_samples raised {type(ex).__name__}: {ex}", c)
        return
    p = project(out, [])
    if norm(p) != norm(c["out"]):
        ctx.violation(dict(**sig, aligned=(p["d"] == p["g"]), ngrids_ok=(p["nG"] == len(p["d"]))),
                      f"collate_samples of {c['t']} parts {c['parts']} returned {p}, expected {c['out']}", c)
    # samples whose flow fields use DIFFERENT vector representations cannot become one batch (a batch has one): the collation has to refuse,
    # or hand back something that is not a flow-field batch labelled with one of them
    if c["t"] in ("FlowField", "FlowFields") and len(c["parts"]) >= 2:
        others = [a for a in ("world", "grid", "cube", "cube_corners") if a != c["axes"]]
        for pos in (1, len(c["parts"]) - 1, 0):
            mixed = []
            for j, part in enumerate(c["parts"]):
                ini = dict(init, axes=others[(j + pos) % len(others)] if j == pos else c["axes"])
                mixed.append({"img": make_value(ini, part), "name": "s"})
            try:
                out = collate_samples(mixed)["img"]
            except Exception:
                continue
            if hasattr(out, "axes") and hasattr(out, "grids"):
                ctx.violation(dict(op="collate_samples", init=c["t"], what="mixed_axes", pos=pos),
                              f"collate_samples of {c['t']} samples with different axes ({[m['img'].axes().value for m in mixed]}) returned one {type(out).__name__} labelled {out.axes().value}", c)
                break
    # the same for torch functions of SEVERAL flow-field operands: a different representation in ANY operand (not only the second) is refused
    if c["t"] == "FlowFields" and len(c["parts"]) >= 2:
        others = [a for a in ("world", "grid", "cube", "cube_corners") if a != c["axes"]]
        x1 = make_value(init, c["parts"][0])
        x2 = make_value(init, c["parts"][1])
        for pos in (2, 1, 0):
            ops_ = [x1, x2, x1]
            ops_[pos] = make_value(dict(init, axes=others[pos % len(others)]), c["parts"][0])
            for fname, fn in (("cat", lambda o_: torch.cat(o_)), ("cat[tuple]", lambda o_: torch.cat(tuple(o_), dim=0)), ("stack", lambda o_: torch.stack(o_))):
                try:
                    out = fn(ops_)
                except Exception:
                    continue
                if hasattr(out, "axes") and hasattr(out, "grids"):
                    ctx.violation(dict(op="torch." + fname, init=c["t"], what="mixed_axes", pos=pos),
                                  f"torch.{fname} of three FlowFields whose operand {pos} uses {ops_[pos].axes().value} axes (the others {c['axes']}) returned one {type(out).__name__} labelled {out.axes().value}", c)
                    break
    ctx.count(key=("collate", json.dumps(c, sort_keys=True)))


def cfg(tier: str, emit: bool, maxlen: int) -> str:
    s = (f"SPECIFICATION Spec\nCONSTANTS\n  Inits <- {'QInits' if tier == 'quick' else 'TInits'}\n  OpsFor <- OpsDef\n"
         f"  MaxLen = {maxlen}\n  EmitCases = {'TRUE' if emit else 'FALSE'}\n")
    if not emit:
        s += "INVARIANT AlwaysWellDescribed\nINVARIANT CollateWellDescribed\nPROPERTY PlainIsAbsorbing\n"
    s += "CONSTRAINT Emit\n"
    return s


TRACE_CFG = """SPECIFICATION TSpec
CONSTANTS
  Inits = {}
  OpsFor <- OpsDef
  MaxLen = 0
  EmitCases = FALSE
CONSTRAINT Report
POSTCONDITION Consumed
"""


def run(ctx: Ctx) -> None:
    tier = ctx.tier
    ctx.rule = ("every program of torch operations up to length 2 from each initial typed value, with every admissible "
                "answer of the implementation at each step (typed-well-described or plain), is a path of the Batch state graph; "
                "each program is executed on real objects with distinct per-item grids; non-trivial = the program changes the item sequence, "
                "the layout or the type")
    maxlen = 2
    ctx.tlc("MC_Batch", cfg(tier, False, maxlen), label="laws", timeout=3000)
    res = ctx.tlc("MC_Batch", cfg(tier, True, maxlen), label="emit", timeout=3000)
    states = json_lines(res, key=None)
    collates = [s["collate"] for s in states if "collate" in s]
    states = [s for s in states if "collate" not in s]
    if not collates:
        raise MachineryError("no collate cases emitted")
    for c in collates:
        check_collate(ctx, c)
    ctx.notes["collate_cases"] = len(collates)
    allowed: Dict[str, Dict[str, set]] = {}
    progs: Dict[str, Tuple[dict, List[str]]] = {}
    for s in states:
        ik = json.dumps(s["init"], sort_keys=True)
        trail = [norm(v) for v in s["trail"]]
        key = json.dumps([s["prog"], trail[:-1]])
        allowed.setdefault(ik, {}).setdefault(key, set()).add(trail[-1])
        progs[ik + json.dumps(s["prog"])] = (s["init"], s["prog"])
    tables = {2: op_table(2), 3: op_table(3)}
    nontrivial = 0
    for key, (init, prog) in sorted(progs.items()):
        run_program(ctx, init, prog, allowed[json.dumps(init, sort_keys=True)], tables[init["D"]])
        ctx.count(key=key, nontrivial=any(not p.startswith(("neg", "mul2", "clone", "abs")) for p in prog))
    ctx.traces = len(progs)
    ctx.sample(dict(init=states[0]["init"], prog=states[0]["prog"], admissible_trail=states[0]["trail"]))
    ctx.sample(dict(init=states[-1]["init"], prog=states[-1]["prog"], admissible_trail=states[-1]["trail"]))
    ops_used = {p for _, pr in progs.values() for p in pr}
    ctx.notes["operations_exercised"] = len(ops_used)
    # code -> spec: random longer programs validated by Trace_Batch
    from ..trace import validate

    rng = random.Random(ctx.seed)
    ntr = 300 if tier == "quick" else 4000
    inits = sorted({json.dumps(i, sort_keys=True) for i, _ in progs.values()})
    traces = []
    for _ in range(ntr):
        init = json.loads(rng.choice(inits))
        table = tables[init["D"]]
        batch_ops = [n for n in table if not n.startswith("s_")]
        single_ops = [n for n in table if n.startswith("s_")] + ["neg", "mul2", "clone", "double", "flip_x", "copy", "deepcopy", "pickle", "add_plain", "abs", "sum_all"]
        t = [dict(ev="start", init=init)]
        rec: list = []
        prog = []
        x_layout = "NCS" if init["t"] in ("ImageBatch", "FlowFields") else "CS"
        # build program greedily following the real object's layout
        x = make_value(init, list(range(1, init["N"] + 1)))
        env = {"other": other_factory(init)}
        chain = []
        for _step in range(rng.randint(2, 6)):
            p0 = project(x, chain)
            if p0["t"] == "Plain" or not p0["d"]:
                break
            lay = "NCS" if p0["t"] in ("ImageBatch", "FlowFields") else "CS"
            name = rng.choice(batch_ops if lay == "NCS" else single_ops)
            fn, sc = table[name]
            try:
                r = fn(x, env)
            except Exception as ex:
                try:
                    fn(x.tensor(), env)
                    t.append(dict(ev="op", op=name, exc=True, val=p0, err=f"{type(ex).__name__}: {ex}"[:160]))
                except Exception:
                    pass  # torch rejects the op for this value: not enabled, try another
                    continue
                break
            chain.append(sc)
            t.append(dict(ev="op", op=name, exc=False, val=project(r, chain)))
            x = r
            if not isinstance(x, Tensor):
                break
        traces.append(t)
    rej, nval = validate(ctx, "Trace_Batch", TRACE_CFG, traces)
    for tid, (line, clause) in rej.items():
        t = traces[tid]
        ops = [e["op"] for e in t[1:]]
        bad = next((e for e in t[1:] if e["op"] == clause), t[-1])
        p = bad["val"]
        if bad.get("exc"):
            sig = dict(op=clause, init=t[0]["init"]["t"], via="trace", exc=bad.get("err", "Exception").split(":")[0])
        else:
            sig = dict(op=clause, init=t[0]["init"]["t"], via="trace", result=p["t"],
                       aligned=(p["d"] == p["g"]), ngrids_ok=(p["nG"] == len(p["d"])), shapeok=p["shapeok"])
        ctx.violation(sig,
                      f"recorded program {ops} on {t[0]['init']['t']} is not a behaviour of Batch.tla: {clause} -> {p} {bad.get('err', '')}",
                      dict(trace=t))
    ctx.traces += nval
    ctx.notes["recorded_traces_validated"] = nval
    ctx.sample(dict(recorded_trace=traces[0]))
    # binding self-tests: a misaligned typed projection must be rejected by both paths
    i0 = next(json.loads(i) for i in inits if json.loads(i)["t"] == "ImageBatch" and json.loads(i)["N"] == 3)
    bad = [dict(ev="start", init=i0),
           dict(ev="op", op="flip_0", exc=False, val=dict(t="ImageBatch", d=[3, 2, 1], g=[1, 2, 3], C=i0["C"], nG=3, shapeok=True, axes=""))]
    p2 = Ctx(ctx.prop, ctx.tier, ctx.seed)
    rej2, _ = validate(p2, "Trace_Batch", TRACE_CFG, [bad], label="trace-selftest")
    if not rej2:
        raise MachineryError("binding self-test failed: misaligned grids accepted by Trace_Batch")
    ctx.notes["binding_selftest"] = "misaligned typed result rejected by Trace_Batch"
    ctx.assumptions += ["operation alphabet of 80 concrete torch calls on batches of 3 items (2-D; 3-D and N=C in the thorough tier)",
                        "data identity is read from constant-filled items, grid identity from unique grid centres"]


def replay(ctx: Ctx, data: Dict[str, Any]) -> None:
    case = data["case"]
    if "parts" in case:
        return check_collate(ctx, case)
    if "trace" in case:
        init = case["trace"][0]["init"]
        prog = [e["op"] for e in case["trace"][1:]]
    else:
        init, prog = case["init"], case["prog"]
    # re-run and re-validate through the trace specification
    from ..trace import validate

    table = op_table(init["D"])
    rec: list = []
    before = len(ctx.violations)
    run_program(ctx, init, prog, None, table, record=rec)
    if len(ctx.violations) > before:
        return
    rej, _ = validate(ctx, "Trace_Batch", TRACE_CFG, [[dict(ev="start", init=init)] + [dict(e, exc=False) for e in rec]])
    for tid, (line, clause) in rej.items():
        ctx.violation(dict(op=clause, via="replay"), f"program {prog} rejected at {clause}", case)
