"""C10 - flow fields mean the same displacement in every vector representation (spec: Flow section C10, GridDefs VecMap)."""
from __future__ import annotations

import json
from typing import Any, Dict

import torch

from ..core import Ctx
from ..flowlib import FLOW_CFG, affine_field, oriented_grid
from ..gridlib import mk_grid
from ..rat import F, fl
from ..tol import max_err
from ..tlc import MachineryError, json_lines

AXES = ("grid", "cube", "cube_corners", "world")
TOL = 3e-5


def const_field(g, comps) -> torch.Tensor:
    D = g.ndim
    t = torch.tensor(comps, dtype=torch.float32)
    return t.reshape(1, D, *([1] * D)).expand(1, D, *g.shape).contiguous()


def check_rep(ctx: Ctx, c: Dict[str, Any]) -> None:
    from deepali.core.flow import denormalize_flow, normalize_flow
    from deepali.core.grid import Axes, Grid
    from deepali.data.flow import FlowField, FlowFields
    from deepali.data.image import Image

    g, g2 = mk_grid(c["g"]), mk_grid(c["g2"])
    D = g.ndim
    reps = {a: fl(F(c["reps"][a])) for a in AXES}
    reps2 = {a: fl(F(c["reps2"][a])) for a in AXES}
    scale = max(1.0, max(max(abs(v) for v in r) for r in reps.values()))
    sig0 = dict(D=D, ac=bool(c["g"]["ac"]))

    def bad(op, msg, **kw):
        ctx.violation(dict(op=op, **sig0, **kw), f"{op}: {msg}", c)

    def comps_of(t: torch.Tensor):
        flat = t.reshape(t.shape[0], D, -1)
        if float((flat.max(dim=-1).values - flat.min(dim=-1).values).abs().max()) > TOL * scale:
            return None
        return flat[..., 0]

    # without an explicit 'axes' the vectors are taken w.r.t. the cube convention of the GRID (its align_corners flag), for single fields and batches
    for gflag in (g, g.align_corners(not g.align_corners())):
        want_ax = Axes.CUBE_CORNERS if gflag.align_corners() else Axes.CUBE
        try:
            made = [("FlowField(data, grid)", FlowField(const_field(gflag, reps["cube"])[0], gflag)), ("FlowFields(data, grid)", FlowFields(const_field(gflag, reps["cube"]), gflag)),
                    ("FlowField.from_image", FlowField.from_image(Image(const_field(gflag, reps["cube"])[0], gflag))), ("FlowField.batch()", FlowField(const_field(gflag, reps["cube"])[0], gflag).batch()),
                    ("FlowFields[0]", FlowFields(const_field(gflag, reps["cube"]), gflag)[0])]
            for how, ff_ in made:
                if ff_.axes() is not want_ax:
                    bad("default axes", f"{how} on a grid with align_corners={gflag.align_corners()} is labelled {ff_.axes().value}, expected {want_ax.value}", how=how, grid_ac=gflag.align_corners())
        except Exception as ex:
            bad("default axes", f"raised {type(ex).__name__}: {str(ex)[:100]}", exc=type(ex).__name__)
    # whole-number vectors stored with an INTEGER dtype convert like the same numbers in floating point
    try:
        iv = torch.tensor([2, -1, 3][:D], dtype=torch.int64).reshape(1, D, *([1] * D)).expand(1, D, *g.shape).contiguous()
        for a in AXES:
            for b in AXES:
                if a == b:
                    continue
                fi = FlowFields(iv, g, Axes(a)).axes(Axes(b)).tensor()
                ff_ = FlowFields(iv.float(), g, Axes(a)).axes(Axes(b)).tensor()
                if not fi.dtype.is_floating_point or max_err(fi.double(), ff_.double()) > TOL * max(1.0, float(ff_.abs().max())):
                    bad("FlowFields.axes[int64 data]", f"{a} -> {b} of an integer-typed field gives {fi.reshape(D, -1)[:, 0].tolist()} ({fi.dtype}), the same field in float32 gives {ff_.reshape(D, -1)[:, 0].tolist()}", frm=a, to=b)
                    raise StopIteration
    except StopIteration:
        pass
    except Exception as ex:
        bad("FlowFields.axes[int64 data]", f"raised {type(ex).__name__}: {str(ex)[:100]}", exc=type(ex).__name__)
    for a in AXES:
        f = FlowFields(const_field(g, reps[a]), g, Axes(a))
        for b in AXES:
            try:
                fb = f.axes(Axes(b))
            except Exception as ex:
                bad("FlowFields.axes", f"raised {ex}", exc=type(ex).__name__, frm=a, to=b)
                continue
            cc = comps_of(fb.tensor())
            if fb.axes() is not Axes(b) or cc is None or max_err(cc[0], reps[b]) > TOL * scale:
                bad("FlowFields.axes", f"{a} -> {b} gives components {None if cc is None else cc[0].tolist()}, the world vector {fl(F(c['w']))} has {reps[b]}", frm=a, to=b)
            if fb.grid() != g:
                bad("FlowFields.axes", "grid changed", frm=a, to=b)
        # single flow field
        try:
            s1 = FlowField(const_field(g, reps[a])[0], g, Axes(a)).axes(Axes("world"))
            cc = comps_of(s1.tensor().unsqueeze(0))
            if cc is None or max_err(cc[0], reps["world"]) > TOL * scale or s1.axes() is not Axes.WORLD:
                bad("FlowField.axes", f"{a} -> world differs", frm=a, to="world")
        except Exception as ex:
            bad("FlowField.axes", f"raised {ex}", exc=type(ex).__name__, frm=a)
        # resampling on another grid keeps the representation kind and the WORLD meaning
        try:
            fs = f.sample(g2)
            # compare at a target sample inside the source field of view (outside it the field is padded)
            pw2 = g2.index_to_world(g2.coords(normalize=False).float())
            idx = g.world_to_index(pw2.reshape(-1, D), decimals=None)
            nn = torch.tensor(list(g.size()), dtype=torch.float32)
            ins = ((idx >= 0.01) & (idx <= nn - 1.01)).all(dim=-1)
            if int(ins.sum()) == 0:
                raise MachineryError("grids of a rep case do not overlap")
            vals = fs.tensor().reshape(1, D, -1)[..., ins]
            cc = comps_of(vals)
            if fs.axes() is not Axes(a) or any(gg != g2 for gg in fs.grids()):
                bad("FlowFields.sample", "result does not carry the target grid / the same axes kind", frm=a)
            elif cc is None or max_err(cc[0], reps2[a]) > TOL * scale:
                bad("FlowFields.sample", f"field in {a} axes sampled on another grid has components {None if cc is None else cc[0].tolist()}, expected {reps2[a]}", frm=a)
            else:
                back = fs.axes(Axes.WORLD)
                cw = comps_of(back.tensor().reshape(1, D, -1)[..., ins])
                if cw is None or max_err(cw[0], reps["world"]) > TOL * scale:
                    bad("FlowFields.sample", "world meaning changed by resampling", frm=a, what="world")
        except MachineryError:
            raise
        except Exception as ex:
            bad("FlowFields.sample", f"raised {type(ex).__name__}: {ex}", exc=type(ex).__name__, frm=a)
        # resampling onto a grid of the SAME domain but another size (normalised vectors depend on the size)
        try:
            g_res = g.resize(tuple(m + 2 for m in g.size()))
            fs = f.sample(g_res)
            wv32 = torch.tensor([reps["world"]], dtype=torch.float32)
            exp_c = g_res.transform_vectors(wv32, axes=Axes.WORLD, to_axes=Axes(a))[0]
            nn = tuple(s // 2 for s in g_res.shape)
            got = fs.tensor()[(0, slice(None)) + nn]
            if max_err(got, exp_c) > TOL * scale or fs.axes() is not Axes(a):
                bad("FlowFields.sample[same domain]", f"field in {a} axes resampled on a finer grid of the same domain has components {got.tolist()}, expected {exp_c.tolist()}", frm=a)
        except Exception as ex:
            bad("FlowFields.sample[same domain]", f"raised {type(ex).__name__}: {ex}", exc=type(ex).__name__, frm=a)
        # a batch of two fields sampled on a SEQUENCE of per-field target grids (same shape, different spacing): every field lands on its own
        # target grid, with its vectors expressed for that grid
        try:
            t1 = g.resize(tuple(m + 1 for m in g.size()))
            t2 = Grid(size=t1.size(), spacing=t1.spacing() * 0.5, center=g.center(), direction=g.direction(), align_corners=g.align_corners())
            f2 = FlowFields(const_field(g, reps[a]).repeat(2, *([1] * (D + 1))), [g, g], Axes(a))
            fs = f2.sample([t1, t2])
            if fs.axes() is not Axes(a) or len(fs.grids()) != 2 or fs.grids()[0] != t1 or fs.grids()[1] != t2:
                bad("FlowFields.sample[per-field targets]", "result fields do not carry their own target grids", frm=a, what="grids")
            else:
                wv32 = torch.tensor([reps["world"]], dtype=torch.float32)
                for it, tg in enumerate((t1, t2)):
                    exp_c = tg.transform_vectors(wv32, axes=Axes.WORLD, to_axes=Axes(a))[0]
                    nn = tuple(sh // 2 for sh in tg.shape)
                    got = fs.tensor()[(it, slice(None)) + nn]
                    if max_err(got, exp_c) > TOL * scale:
                        bad("FlowFields.sample[per-field targets]", f"field {it} in {a} axes sampled on its own target grid has components {got.tolist()}, expected {exp_c.tolist()}",
                            frm=a, item=it)
        except Exception as ex:
            bad("FlowFields.sample[per-field targets]", f"raised {type(ex).__name__}: {ex}", exc=type(ex).__name__, frm=a)
        # warping a world-linear ramp image: out(x) = ramp(x + w), the same for every representation
        try:
            aa = torch.tensor([0.7, -1.3, 0.4][:D], dtype=torch.float64)
            wv = torch.tensor(fl(F(c["w"])), dtype=torch.float64)
            pw = g.index_to_world(g.coords(normalize=False).float()).to(torch.float64)
            img = Image((pw @ aa + 2.0).float().unsqueeze(0), g)
            out = f.warp_image(img, padding="border").tensor()[0, 0].to(torch.float64)
            expv = (pw + wv) @ aa + 2.0
            idx = g.world_to_index((pw + wv).reshape(-1, D).float(), decimals=None)
            n = torch.tensor(list(g.size()), dtype=torch.float32)
            ins = ((idx >= 0.01) & (idx <= n - 1.01)).all(dim=-1).reshape(out.shape)
            if int(ins.sum()) > 0 and float((out - expv)[ins].abs().max()) > 3e-4 * max(1.0, float(expv.abs().max())):
                bad("FlowFields.warp_image", f"image warped by the field given in {a} axes differs from ramp(x + w) by {float((out - expv)[ins].abs().max()):.3g}", frm=a)
        except Exception as ex:
            bad("FlowFields.warp_image", f"raised {type(ex).__name__}: {ex}", exc=type(ex).__name__, frm=a)
    # the functional forms with their broadcasting rules: one flow field (unbatched, or a batch of one) displaces the sampling points of
    # every image of a batch; sample_flow / warp_grid read one field at several point sets
    try:
        import deepali.core.functional as U_

        ckey = "cube_corners" if g.align_corners() else "cube"
        aa = torch.tensor([0.7, -1.3, 0.4][:D], dtype=torch.float64)
        wv = torch.tensor(fl(F(c["w"])), dtype=torch.float64)
        pw = g.index_to_world(g.coords(normalize=False).float()).to(torch.float64)
        ramp = (pw @ aa + 2.0).float()
        data2 = torch.stack([ramp.unsqueeze(0), 2 * ramp.unsqueeze(0)])  # two images
        coords = g.coords(align_corners=g.align_corners())
        fvec = torch.tensor(reps[ckey], dtype=torch.float32).expand(*g.shape, D).contiguous()  # (..., X, D)
        idx = g.world_to_index((pw + wv).reshape(-1, D).float(), decimals=None)
        nn_ = torch.tensor(list(g.size()), dtype=torch.float32)
        ins = ((idx >= 0.01) & (idx <= nn_ - 1.01)).all(dim=-1).reshape(g.shape)
        expv = ((pw + wv) @ aa + 2.0)
        for form, cg, fl_arg in (("unbatched grid and flow", coords, fvec), ("batch-1 flow", coords.unsqueeze(0), fvec.unsqueeze(0)),
                                 ("batched grid, unbatched flow", coords.unsqueeze(0).expand(2, *coords.shape), fvec),
                                 ("batched grid, batch-1 flow", coords.unsqueeze(0).expand(2, *coords.shape), fvec.unsqueeze(0))):
            out = U_.warp_image(data2, cg, flow=fl_arg, mode="linear", padding="border", align_corners=g.align_corners()).to(torch.float64)
            if tuple(out.shape) != (2, 1) + tuple(g.shape):
                bad("warp_image", f"({form}) returns shape {tuple(out.shape)}", form=form, what="shape")
                continue
            for it, fac in ((0, 1.0), (1, 2.0)):
                if int(ins.sum()) > 0 and float((out[it, 0] - fac * expv)[ins].abs().max()) > 3e-4 * max(1.0, float(expv.abs().max())) * fac:
                    bad("warp_image", f"({form}) image {it} differs from ramp(x + w) by {float((out[it, 0] - fac * expv)[ins].abs().max()):.3g}", form=form, item=it)
                    break
        # one constant field read at two point sets, and added to them
        fld = const_field(g, reps[ckey])
        pts2 = torch.stack([coords.reshape(-1, D)[:5], coords.reshape(-1, D)[-5:]])
        for form, pts_ in (("(N, M, D) points, one field", pts2), ("(1, M, D) points", pts2[:1])):
            u_ = U_.sample_flow(fld, pts_, align_corners=g.align_corners())
            if tuple(u_.shape) != tuple(pts_.shape) or max_err(u_ - torch.tensor(reps[ckey]), 0 * u_) > TOL * scale:
                bad("sample_flow", f"({form}) does not return the constant vector at every point", form=form)
        cg1 = coords.unsqueeze(0)
        y_ = U_.warp_grid(fld, cg1, align_corners=g.align_corners())
        if tuple(y_.shape) != tuple(cg1.shape) or max_err(y_ - cg1, torch.tensor(reps[ckey]).expand_as(cg1)) > TOL * scale:
            bad("warp_grid", "does not add the constant vector to every grid point")
    except Exception as ex:
        bad("warp_image", f"functional forms raised {type(ex).__name__}: {str(ex)[:120]}", exc=type(ex).__name__)
    # batch with per-field grids
    try:
        if tuple(g.shape) == tuple(g2.shape):
            fb = FlowFields(torch.cat([const_field(g, reps["world"]), const_field(g2, reps2["world"])]), [g, g2], Axes.WORLD)
            for b in AXES:
                cc = comps_of(fb.axes(Axes(b)).tensor())
                if cc is None or max_err(cc[0], reps[b]) > TOL * scale or max_err(cc[1], reps2[b]) > TOL * scale:
                    bad("FlowFields.axes[per-field grids]", f"world -> {b} wrong for a batch with different grids", to=b)
    except Exception as ex:
        bad("FlowFields.axes[per-field grids]", f"raised {ex}", exc=type(ex).__name__)
    # batch whose fields live on grids that differ only in orientation: every field is converted with ITS grid
    try:
        import math

        D_ = g.ndim
        a_ = math.radians(40)
        Rz = [[math.cos(a_), -math.sin(a_)], [math.sin(a_), math.cos(a_)]] if D_ == 2 else [[math.cos(a_), -math.sin(a_), 0], [math.sin(a_), math.cos(a_), 0], [0, 0, 1]]
        g_rot = g.direction(torch.tensor(Rz, dtype=torch.float32) @ g.direction())
        wv32 = torch.tensor([reps["world"]], dtype=torch.float32)
        fb = FlowFields(torch.cat([const_field(g, reps["world"]), const_field(g_rot, reps["world"])]), [g, g_rot], Axes.WORLD)
        for b in AXES:
            cc = comps_of(fb.axes(Axes(b)).tensor())
            e0 = g.transform_vectors(wv32, axes=Axes.WORLD, to_axes=Axes(b))[0]
            e1 = g_rot.transform_vectors(wv32, axes=Axes.WORLD, to_axes=Axes(b))[0]
            if cc is None or max_err(cc[0], e0) > TOL * scale or max_err(cc[1], e1) > TOL * scale:
                bad("FlowFields.axes[per-field grids]", f"world -> {b}: fields of a batch are not converted with their own grids", to=b)
            back = comps_of(fb.axes(Axes(b)).axes(Axes.WORLD).tensor())
            if back is None or max_err(back[1], wv32[0]) > TOL * scale:
                bad("FlowFields.axes[per-field grids]", f"world -> {b} -> world round trip fails for the second field", to=b, what="roundtrip")
    except Exception as ex:
        bad("FlowFields.axes[per-field grids]", f"raised {type(ex).__name__}: {ex}", exc=type(ex).__name__)
    # normalize_flow / denormalize_flow: the grid <-> cube special case
    for acf, key in ((True, "cube_corners"), (False, "cube")):
        v = const_field(g, reps["grid"])
        nv = comps_of(normalize_flow(v, align_corners=acf))
        if nv is None or max_err(nv[0], reps[key]) > TOL * scale:
            bad("normalize_flow", f"grid -> {key} differs", to=key)
        dv = comps_of(denormalize_flow(const_field(g, reps[key]), align_corners=acf))
        if dv is None or max_err(dv[0], reps["grid"]) > TOL * scale:
            bad("denormalize_flow", f"{key} -> grid differs", frm=key)
    # ... with the size given explicitly, as a tuple and as a float tensor the caller keeps using (must not be changed), and on an axis
    # with exactly two samples (align_corners: 2 / (n - 1) = 2)
    for acf, key in ((True, "cube_corners"), (False, "cube")):
        v = const_field(g, reps["grid"])
        sz_t = torch.tensor([float(n) for n in g.size()], dtype=v.dtype)
        for form, sz in (("tuple", tuple(g.size())), ("tensor", sz_t), ("tensor again", sz_t)):
            nv = comps_of(normalize_flow(v, size=sz, align_corners=acf))
            if nv is None or max_err(nv[0], reps[key]) > TOL * scale:
                bad("normalize_flow", f"grid -> {key} with size given as {form} differs", to=key, size_form=form)
            dv = comps_of(denormalize_flow(const_field(g, reps[key]), size=sz, align_corners=acf))
            if dv is None or max_err(dv[0], reps["grid"]) > TOL * scale:
                bad("denormalize_flow", f"{key} -> grid with size given as {form} differs", frm=key, size_form=form)
        if max_err(sz_t, [float(n) for n in g.size()]) > 0:
            bad("normalize_flow", "changed the size tensor of its caller", what="mutates", to=key)
        two = torch.tensor(reps["grid"], dtype=torch.float32).reshape(1, D, *([1] * D)).expand(1, D, *([2] * D)).contiguous()
        nv = comps_of(normalize_flow(two, align_corners=acf))
        e2 = [x_ * (2.0 if acf else 1.0) for x_ in reps["grid"]]
        if nv is None or max_err(nv[0], e2) > TOL * scale:
            bad("normalize_flow", f"on a grid with two samples per axis gives {None if nv is None else nv[0].tolist()}, expected {e2}", to=key, two=True)
        dv = comps_of(denormalize_flow(two, align_corners=acf))
        e2 = [x_ / (2.0 if acf else 1.0) for x_ in reps["grid"]]
        if dv is None or max_err(dv[0], e2) > TOL * scale:
            bad("denormalize_flow", f"on a grid with two samples per axis gives {None if dv is None else dv[0].tolist()}, expected {e2}", frm=key, two=True)
    # SimpleITK images and files: vectors stored w.r.t. the requested axes (world when none is named) and read back as such
    import os
    import tempfile

    import SimpleITK as sitk

    def pix(im):
        arr = torch.from_numpy(sitk.GetArrayFromImage(im)).double().reshape(-1, D)
        if float((arr.max(dim=0).values - arr.min(dim=0).values).abs().max()) > TOL * scale:
            return None
        return arr[0]

    for a in AXES:
        f1 = FlowField(const_field(g, reps[a])[0], g, Axes(a))
        for b in (None,) + tuple(AXES):
            key = b or "world"
            try:
                im = f1.sitk() if b is None else f1.sitk(axes=Axes(b))
                pv = pix(im)
                if pv is None or max_err(pv, reps[key]) > TOL * scale:
                    bad("FlowField.sitk", f"field in {a} axes exported with axes={b} holds vectors {None if pv is None else pv.tolist()}, expected {reps[key]}", frm=a, to=str(b))
                    continue
                back = FlowField.from_sitk(im) if b is None else FlowField.from_sitk(im, axes=Axes(b), align_corners=g.align_corners())
                if back.axes() is not Axes(key):
                    bad("FlowField.from_sitk", f"image imported with axes={b} is labelled {back.axes().value}", frm=a, to=str(b), what="label")
                    continue
                cw = comps_of(back.axes(Axes.WORLD).tensor().unsqueeze(0))
                if cw is None or max_err(cw[0], reps["world"]) > TOL * scale:
                    bad("FlowField.from_sitk", f"sitk(axes={b}) -> from_sitk(axes={b}) changes the world displacement", frm=a, to=str(b), what="world")
            except Exception as ex:
                bad("FlowField.sitk", f"raised {type(ex).__name__}: {ex}", exc=type(ex).__name__, frm=a, to=str(b))
    a = AXES[sum(c["g"]["n"]) % len(AXES)]
    f1 = FlowField(const_field(g, reps[a])[0], g, Axes(a))
    tmpd = tempfile.mkdtemp(prefix="dvc10_")
    try:
        for j, b in enumerate((None,) + tuple(AXES)):
            key = b or "world"
            path = os.path.join(tmpd, f"f{j}" + (".mha", ".nrrd")[(j + len(c["g"]["n"])) % 2])
            try:
                if b is None:
                    f1.write(path)
                else:
                    f1.write(path, axes=Axes(b))
                pv = pix(sitk.ReadImage(path))
                if pv is None or max_err(pv, reps[key]) > TOL * scale:
                    bad("FlowField.write", f"field in {a} axes written with axes={b} stores vectors {None if pv is None else pv.tolist()}, expected {reps[key]}", frm=a, to=str(b), ext=path[-4:])
                    continue
                back = FlowField.read(path) if b is None else FlowField.read(path, axes=Axes(b), align_corners=g.align_corners())
                cw = comps_of(back.axes(Axes.WORLD).tensor().unsqueeze(0))
                if back.axes() is not Axes(key) or cw is None or max_err(cw[0], reps["world"]) > TOL * scale:
                    bad("FlowField.read", f"write(axes={b}) -> read(axes={b}) changes the world displacement", frm=a, to=str(b), ext=path[-4:])
            except Exception as ex:
                bad("FlowField.write", f"raised {type(ex).__name__}: {str(ex)[:120]}", exc=type(ex).__name__, frm=a, to=str(b), ext=path[-4:])
    finally:
        import shutil

        shutil.rmtree(tmpd, ignore_errors=True)
    ctx.count(key=json.dumps(["rep", c["g"], c["g2"], c["w"]]), nontrivial=True)


def check_exp_reps(ctx: Ctx, c: Dict[str, Any]) -> None:
    """exp() of one velocity field given in each of the four representations."""
    from deepali.core.grid import Axes
    from deepali.data.flow import FlowFields

    n, ac, s, k = c["n"], bool(c["ac"]), float(fl(F(c["s"]))), int(c["k"])
    if k == 0:
        return
    g = oriented_grid(n, ac)
    cube = Axes.from_align_corners(ac)
    f0 = FlowFields(affine_field(n, ac, c["A"], c["t"], torch.float32), g, cube)
    exp = affine_field(n, ac, c["EA"], c["Et"], torch.float64)
    for a in AXES:
        try:
            e = f0.axes(Axes(a)).exp(scale=s, steps=k)
            back = e.axes(cube).tensor()
            if e.axes() is not Axes(a):
                ctx.violation(dict(op="FlowFields.exp", frm=a, what="axes", ac=ac), f"exp() of a field in {a} axes returns axes {e.axes()}", c)
            err = max_err(back, exp)
            if err > 5e-5:
                ctx.violation(dict(op="FlowFields.exp", frm=a, ac=ac, D=len(n)),
                              f"exp() of the same velocity field given in {a} axes differs from the closed form by {err:.3g} (cube units)", c)
        except Exception as ex:
            ctx.violation(dict(op="FlowFields.exp", frm=a, exc=type(ex).__name__, ac=ac), f"exp() raised {type(ex).__name__}: {ex}", c)
    ctx.count(key=json.dumps(["exprep", n, ac, c["A"], c["t"], c["s"], k]))


def run(ctx: Ctx) -> None:
    ctx.rule = ("rep: one case per (grid, other grid, world vector): 16 axes conversions, resampling and image warping in each of the 4 representations, "
                "per-field-grid batches, normalize/denormalize; exp: every hull-invariant affine velocity field of the C11 lattice exponentiated in each "
                "of the 4 representations")
    ctx.tlc("MC_Flow", FLOW_CFG.format(T="Q" if ctx.tier == "quick" else "T", emit="FALSE", inv="INVARIANT Laws\n"), label="laws", timeout=3000)
    res = ctx.tlc("MC_Flow", FLOW_CFG.format(T="Q" if ctx.tier == "quick" else "T", emit="TRUE", inv=""), label="emit", timeout=3000)
    cases = json_lines(res, key=None)
    reps = [c for c in cases if c["kind"] == "rep"]
    exps = [c for c in cases if c["kind"] == "exp"]
    if not reps:
        raise MachineryError("no cases")
    for c in reps:
        check_rep(ctx, c)
    for c in exps:
        check_exp_reps(ctx, c)
    ctx.traces = len(reps) + len(exps)
    ctx.sample(reps[0])
    probe = Ctx(ctx.prop, ctx.tier, ctx.seed)
    probe.findings = []
    c = json.loads(json.dumps(reps[0]))
    c["reps"]["cube"], c["reps"]["cube_corners"] = c["reps"]["cube_corners"], c["reps"]["cube"]
    check_rep(probe, c)
    if not probe.violations:
        raise MachineryError("binding self-test failed")
    ctx.notes["binding_selftest"] = "swapped cube / cube_corners expectations rejected"
    ctx.assumptions += ["world-constant fields for conversions, resampling and warping (exact under interpolation); affine velocity fields for exp"]


def replay(ctx: Ctx, data: Dict[str, Any]) -> None:
    c = data["case"]
    (check_rep if c["kind"] == "rep" else check_exp_reps)(ctx, c)
