"""C20 - gradients are the true derivatives (spec: Grad exact layer, Trace_Grad recorded evaluations)."""
from __future__ import annotations

import inspect
import json
import math
import random
from typing import Any, Callable, Dict, List, Optional, Sequence, Tuple

import numpy as np
import torch
from torch import Tensor

from ..core import Ctx
from ..rat import F, fl
from ..tlc import MachineryError, json_lines
from ..trace import validate

CFG = """SPECIFICATION GSpec
CONSTANTS
  Images <- GImages
  NormCoords <- {coords}
  Steps <- GSteps
  VecPairs <- GVecPairs
  SegPairsR <- GSegPairs
  PointSets <- GPointSets
  SplCases <- GSplCases
  EmitG = {emit}
  Strides = {{1}}
  Derivs = {{0}}
  MaxSize = 1
  Coeffs = {{}}
  Coeffs2 = {{}}
  EmitCases = FALSE
{inv}CONSTRAINT EmitGrad
"""
TRACE_CFG = "SPECIFICATION TSpec\nCONSTRAINT Report\nPOSTCONDITION Consumed\n"
T64 = torch.float64


def t64(x, grad=False) -> Tensor:
    t = torch.tensor(fl(F(x)) if not isinstance(x, Tensor) else x, dtype=T64)
    return t.requires_grad_(grad)


def cmp(ctx: Ctx, sig: dict, what: str, got: Optional[Tensor], exp: Any, case: Any, tol: float = 1e-9) -> None:
    e = torch.as_tensor(exp, dtype=T64)
    if got is None:
        ctx.violation(dict(**sig, what="no-gradient"), f"{what}: autograd returned no gradient; the exact derivative is {e.flatten().tolist()[:6]}", case)
        return
    g = got.detach().to(T64).reshape(e.shape)
    scale = max(1.0, float(e.abs().max()))
    if not torch.isfinite(g).all() or float((g - e).abs().max()) > tol * scale:
        ctx.violation(dict(**sig, what="differs"), f"{what}: autograd gives {g.flatten().tolist()[:6]}, the exact derivative is {e.flatten().tolist()[:6]}", case)


# ------------------------------------------------------------------------------------------------ layer 1
def replay_exact(ctx: Ctx, c: Dict[str, Any]) -> None:
    import deepali.core.functional as U
    import deepali.losses.functional as L
    import deepali.spatial as S
    from deepali.core.grid import Grid

    k = c["kind"]
    if k == "sample":
        I = torch.tensor(c["I"], dtype=T64)
        ny, nx = I.shape
        ac = bool(c["ac"])
        for api in ("grid_sample", "sample_image", "ddf-params", "ddf-points"):
            sig = dict(layer="exact", op="sample", api=api, ac=ac)
            data = I.clone().reshape(1, 1, ny, nx).requires_grad_(True)
            uv = torch.tensor([fl(F(c["u"])), fl(F(c["v"]))], dtype=T64, requires_grad=True)
            if api == "grid_sample":
                out = U.grid_sample(data, uv.reshape(1, 1, 1, 2), mode="linear", padding="border", align_corners=ac)
                val = out.reshape(())
            elif api == "sample_image":
                out = U.sample_image(data, uv.reshape(1, 1, 2), mode="linear", padding="border", align_corners=ac)
                val = out.reshape(())
            else:
                grid = Grid(size=(nx, ny), align_corners=ac)
                t = S.DisplacementFieldTransform(grid).double()
                with torch.no_grad():
                    t.params.zero_()
                    t.params[0, 0] = I
                out = t(uv.reshape(1, 1, 2))
                val = out[0, 0, 0] - (uv[0] if api == "ddf-points" else uv[0].detach())
                data = t.params
            g_data, g_uv = torch.autograd.grad(val, [data, uv], allow_unused=True)
            cmp(ctx, dict(**sig, wrt="value"), f"{api}: interpolated value", val, fl(F(c["value"])), c)
            if api != "ddf-points":
                gd = g_data if api != "ddf-params" else (None if g_data is None else g_data[0, 0])
                cmp(ctx, dict(**sig, wrt="image"), f"{api}: d value / d image", gd, fl(F(c["dI"])), c)
            if api != "ddf-params":
                cmp(ctx, dict(**sig, wrt="coords"), f"{api}: d value / d coordinates", g_uv, [fl(F(c["du"])), fl(F(c["dv"]))], c)
    elif k == "mse":
        x, y = t64(c["x"], True), t64(c["y"])
        for name, fn, mul in (("mse_loss", L.mse_loss, 1.0), ("ssd_loss", L.ssd_loss, float(len(c["x"])))):
            v = fn(x.reshape(1, 1, -1), y.reshape(1, 1, -1))
            (g,) = torch.autograd.grad(v, [x], allow_unused=True)
            sig = dict(layer="exact", op=name)
            cmp(ctx, dict(**sig, wrt="value"), f"{name}: value", v, mul * fl(F(c["value"])), c)
            cmp(ctx, dict(**sig, wrt="input"), f"{name}: gradient", g, (torch.tensor(fl(F(c["grad"])), dtype=T64) * mul), c)
    elif k == "dice":
        p, t = t64(c["p"], True), t64(c["t"])
        for name, fn, sgn in (("dice_score", L.dice_score, 1.0), ("dice_loss", L.dice_loss, -1.0)):
            v = fn(p.reshape(1, 1, 2, -1), t.reshape(1, 1, 2, -1)).sum()  # the overlap scores compute in float32
            (g,) = torch.autograd.grad(v, [p], allow_unused=True)
            cmp(ctx, dict(layer="exact", op=name, wrt="input"), f"{name}: gradient", g, torch.tensor(fl(F(c["grad"])), dtype=T64) * sgn, c, tol=3e-6)
    elif k == "points":
        A, t = t64(c["A"]), t64(c["t"])
        xs, cs = t64(c["xs"]), t64(c["cs"])
        D = A.shape[0]
        grid = Grid(size=(5,) * D)
        M = torch.cat([A, t.reshape(D, 1)], dim=1)
        tr = S.HomogeneousTransform(grid).double()
        with torch.no_grad():
            tr.params.copy_(M.unsqueeze(0))
        v = (tr(xs.unsqueeze(0)) * cs.unsqueeze(0)).sum()
        (g,) = torch.autograd.grad(v, [tr.params], allow_unused=True)
        exp = torch.cat([t64(c["gA"]), t64(c["gt"]).reshape(D, 1)], dim=1)
        cmp(ctx, dict(layer="exact", op="HomogeneousTransform", wrt="value"), "HomogeneousTransform(points): value", v, fl(F(c["value"])), c)
        cmp(ctx, dict(layer="exact", op="HomogeneousTransform", wrt="params"), "HomogeneousTransform(points): d / d matrix", None if g is None else g[0], exp, c)
        tt = S.Translation(grid).double()
        with torch.no_grad():
            tt.params.copy_(t.reshape(1, D))
        v = (tt(xs.unsqueeze(0)) * cs.unsqueeze(0)).sum()
        (g,) = torch.autograd.grad(v, [tt.params], allow_unused=True)
        cmp(ctx, dict(layer="exact", op="Translation", wrt="params"), "Translation(points): d / d offset", None if g is None else g[0], t64(c["gt"]), c)
        Mq = M.clone().requires_grad_(True)
        xq = xs.clone().requires_grad_(True)
        v = (U.transform_points(Mq.unsqueeze(0), xq.unsqueeze(0)) * cs.unsqueeze(0)).sum()
        gM, gx = torch.autograd.grad(v, [Mq, xq], allow_unused=True)
        cmp(ctx, dict(layer="exact", op="transform_points", wrt="matrix"), "transform_points: d / d matrix", gM, exp, c)
        cmp(ctx, dict(layer="exact", op="transform_points", wrt="points"), "transform_points: d / d points", gx, cs @ A, c)
    elif k == "bspline":
        cf = t64(c["c"], True)
        a = torch.tensor(c["a"], dtype=T64)
        out = U.evaluate_cubic_bspline(cf.reshape(1, 1, -1), stride=c["s"], shape=(len(c["a"]),))
        v = (out.reshape(-1) * a).sum()
        (g,) = torch.autograd.grad(v, [cf], allow_unused=True)
        cmp(ctx, dict(layer="exact", op="evaluate_cubic_bspline", wrt="value"), "evaluate_cubic_bspline: value", v, fl(F(c["value"])), c)
        cmp(ctx, dict(layer="exact", op="evaluate_cubic_bspline", wrt="coefficients"), "evaluate_cubic_bspline: d / d coefficients", g, fl(F(c["grad"])), c)


# ------------------------------------------------------------------------------------------------ layer 2
SAW_F32 = [False]
# sampling grids are float32 inside the library: everything that evaluates a transform ON A GRID passes through float32 coordinates
F32_FAMILIES = {"transform:image", "transform:disp", "transform:inverse-disp", "transform:pointset"}


def as64(x: Tensor) -> Tensor:
    """Cast an operation's result to float64, remembering that the operation itself computed in float32."""
    if x.dtype == torch.float32:
        SAW_F32[0] = True
    return x.to(T64)


class Fn:
    """A scalar function of a list of float64 tensors, built from the real code."""

    def __init__(self, name: str, make: Callable[[], Tuple[Callable[[List[Tensor]], Tensor], List[Tensor], List[str]]], family: str):
        self.name, self.make, self.family = name, make, family


def rnd(*shape, seed=0, scale=1.0) -> Tensor:
    return (torch.rand(*shape, generator=torch.Generator().manual_seed(seed), dtype=T64) * 2 - 1) * scale


def smooth_field(sp: Sequence[int], c: int, seed: int, fmax: float = 2.5) -> Tensor:
    """Smooth random field of shape (1, c, *sp): a few low-frequency sinusoids, so that interpolation kinks are mild."""
    D = len(sp)
    axes = [torch.linspace(-1, 1, s, dtype=T64) for s in sp]
    mesh = torch.meshgrid(*axes, indexing="ij")
    g = torch.Generator().manual_seed(seed)
    out = []
    for _ in range(c):
        co = torch.rand(4, D, generator=g, dtype=T64) * (fmax - 0.3) + 0.3
        ph = torch.rand(4, generator=g, dtype=T64) * 6
        out.append(sum(torch.sin(sum(co[k, d] * mesh[d] for d in range(D)) + ph[k]) for k in range(4)) / 4)
    return torch.stack(out).unsqueeze(0)


def smooth_img(D: int, seed: int, c: int = 1, n: int = 7, fmax: float = 2.5) -> Tensor:
    sp = (n, n + 1) if D == 2 else (n - 2, n - 1, n)
    return smooth_field(sp, c, seed, fmax) + 1.2


def transform_fns(D: int) -> List[Fn]:
    import deepali.spatial as S
    from deepali.core.grid import Grid

    size = (13, 12) if D == 2 else (9, 8, 7)
    names = ["Translation", "EulerRotation", "IsotropicScaling", "AnisotropicScaling", "Shearing", "RigidTransform", "AffineTransform",
             "SimilarityTransform", "FullAffineTransform", "HomogeneousTransform", "DisplacementFieldTransform", "StationaryVelocityFieldTransform",
             "FreeFormDeformation", "StationaryVelocityFreeFormDeformation", "QuaternionRotation", "RigidQuaternionTransform"]
    fns: List[Fn] = []
    # user-composed composites: the gradient has to pass through homogeneous_matmul / the sum of displacements
    composites = {
        "Sequential(Translation,Homogeneous)": (S.SequentialTransform, (S.Translation, S.HomogeneousTransform)),
        "Sequential(Translation,Rigid)": (S.SequentialTransform, (S.Translation, S.RigidTransform)),
        "Sequential(Homogeneous,Translation)": (S.SequentialTransform, (S.HomogeneousTransform, S.Translation)),
        "Sequential(Affine,DDF)": (S.SequentialTransform, (S.AffineTransform, S.DisplacementFieldTransform)),
        "Sequential(FFD,Rigid)": (S.SequentialTransform, (S.FreeFormDeformation, S.RigidTransform)),
        "MultiLevel(Translation,Rigid,Affine)": (S.MultiLevelTransform, (S.Translation, S.RigidTransform, S.AffineTransform)),
        "MultiLevel(Affine,FFD)": (S.MultiLevelTransform, (S.AffineTransform, S.FreeFormDeformation)),
    }
    # transforms whose parameters are PREDICTED by a module (params=callable): the optimised tensors are that module's weights

    class Pred(torch.nn.Module):
        def __init__(self, shape):
            super().__init__()
            self.w = torch.nn.Parameter(torch.zeros((1,) + tuple(shape), dtype=T64))
            self.g = torch.nn.Parameter(torch.ones(1, dtype=T64))

        def forward(self, *args, **kwargs):
            return self.w * self.g + 0.25 * self.w * self.w

    # dense fields whose parameters live on a coarser grid and are NOT resized when set (stride > 1, resize=False): the displacement is then
    # a resampled function of the parameters
    coarse = {f"{n}[stride=2,resize=False]": n for n in ("DisplacementFieldTransform", "StationaryVelocityFieldTransform")}
    predicted = {f"{n}[predicted]": n for n in ("Translation", "AffineTransform", "DisplacementFieldTransform", "StationaryVelocityFieldTransform",
                                                "FreeFormDeformation", "StationaryVelocityFreeFormDeformation")}
    for name in names + list(composites) + list(predicted) + list(coarse):
        cls = composites.get(name) or getattr(S, predicted.get(name, coarse.get(name, name)), None)
        if cls is None or ("Quaternion" in name and D == 2):
            continue

        def build(cls=cls, name=name):
            grid = Grid(size=size, spacing=(1.0, 0.8, 1.25)[:D])
            if name in coarse:
                t = cls(grid, stride=2, resize=False).double()
            elif name in predicted:
                probe = cls(grid)
                t = cls(grid, params=Pred(probe.data_shape)).double()
            else:
                t = (cls(grid) if not isinstance(cls, tuple) else cls[0](*[m(grid) for m in cls[1]])).double()
            with torch.no_grad():
                for i, p in enumerate(t.parameters()):
                    if p.ndim >= 4:  # dense fields / control point grids: smooth
                        p.add_(smooth_field(p.shape[2:], p.shape[1], 11 + i + len(name), fmax=1.5) * 0.12)
                    else:  # away from the identity (where every sample sits on an interpolation kink): magnitude in [0.04, 0.1]
                        r = rnd(*p.shape, seed=11 + i + len(name))
                        p.add_(torch.sign(r) * (0.04 + 0.06 * r.abs()))
            return t

        for mode in ("points", "disp", "tensor", "inverse-points", "inverse-disp", "inverse-tensor", "image", "pointset", "points-after-data_"):
            def make(build=build, mode=mode, name=name):
                t = build()
                if mode == "points-after-data_":  # values assigned from plain tensors (data_, as fit() / grid_() / the setters do): still optimisable
                    for m in t.modules():
                        if hasattr(m, "data_") and isinstance(getattr(m, "params", None), torch.nn.Parameter):
                            m.data_(m.params.detach().clone())
                params = list(t.parameters())
                pts = rnd(1, 5, D, seed=3, scale=0.7)
                w = rnd(1, 5, D, seed=4)
                # image on the transform's own domain; weights vanish towards the border so that no sample is clamped
                img = smooth_field(tuple(reversed(size)), 1, 5, fmax=2.0) + 1.2
                tgt = t.grid()
                bump = torch.ones(1, dtype=T64)
                for s_ in reversed(size):
                    ax = torch.linspace(-1, 1, s_, dtype=T64)
                    bump = bump.unsqueeze(-1) * torch.clamp(1 - (ax / 0.55) ** 2, min=0) ** 2
                # smooth one-signed weights: a random-sign weighting cancels the derivative down to the float32 round-off of F
                wimg = (1.5 + smooth_field(img.shape[2:], 1, 6, fmax=2.0)) * bump.reshape(1, 1, *img.shape[2:])

                def f(vals: List[Tensor]) -> Tensor:
                    for p, v in zip(params, vals):
                        if p is not v:
                            p.data.copy_(v)
                    if mode in ("points", "points-after-data_"):
                        return (as64(t(pts)) * w).sum()
                    if mode == "disp":
                        t.update()
                        d = t.disp()
                        return (as64(d) * rnd(*d.shape, seed=7)).sum()
                    if mode == "tensor":  # buffers as left by update(): what a loss on transform.tensor() sees
                        t.update()
                        d = t.tensor()
                        return (as64(d) * rnd(*d.shape, seed=7)).sum()
                    if mode == "inverse-tensor":  # ... and on transform.inverse(update_buffers=True).tensor(), without another update()
                        t.update()
                        d = t.inverse(update_buffers=True).tensor()
                        return (as64(d) * rnd(*d.shape, seed=7)).sum()
                    if mode == "inverse-points":
                        ti = t.inverse(link=True)
                        return (as64(ti(pts)) * w).sum()
                    if mode == "inverse-disp":
                        ti = t.inverse(link=True, update_buffers=True)
                        d = ti.disp()
                        return (as64(d) * rnd(*d.shape, seed=7)).sum()
                    if mode == "image":
                        tr = S.ImageTransformer(t, target=tgt, source=tgt)
                        return (as64(tr(img.to(torch.float64))) * wimg).sum()
                    tr = S.PointSetTransformer(t, grid=t.grid())
                    return (as64(tr(pts)) * w).sum()
                return f, params, [n for n, _ in t.named_parameters()]
            fns.append(Fn(f"{name}.{mode}[{D}D]", make, f"transform:{mode}"))
    return fns


def functional_fns(D: int) -> List[Fn]:
    import deepali.core.functional as U
    from deepali.core.grid import Grid

    out: List[Fn] = []
    img = smooth_img(D, 21, c=2)
    sp = img.shape[2:]
    flow = lambda s, sc=0.08: smooth_img(D, s, c=D)[:, :, ...] * sc - sc  # noqa: E731
    wI = rnd(*img.shape, seed=8)

    def add(name, fn, tensors, labels, family="functional"):
        out.append(Fn(f"{name}[{D}D]", lambda fn=fn, tensors=tensors, labels=labels: (fn, [t.clone().requires_grad_(True) for t in tensors], labels), family))

    grid_t = Grid(size=tuple(reversed(sp)))
    coords = grid_t.coords(dtype=T64).unsqueeze(0) * 0.9 + 0.013
    add("grid_sample", lambda v: (U.grid_sample(v[0], v[1], mode="linear", padding="border") * wI).sum(), [img, coords], ["image", "coords"])
    add("grid_sample[padding=0.5]", lambda v: (U.grid_sample(v[0], v[1], mode="linear", padding=0.5) * wI).sum(), [img, coords], ["image", "coords"])
    add("sample_image[padding=-1]", lambda v: (U.sample_image(v[0], v[1].reshape(1, -1, D), mode="linear", padding=-1.0) * rnd(1, 2, coords.numel() // D, seed=2)).sum(),
        [img, coords], ["image", "coords"])
    add("warp_image", lambda v: (U.warp_image(v[0], grid_t.coords(dtype=T64).unsqueeze(0), flow=U.move_dim(v[1], 1, -1), mode="linear", padding="border") * wI).sum(), [img, flow(31)], ["image", "flow"])
    wF = rnd(1, D, *sp, seed=9)
    add("expv", lambda v: (U.expv(v[0], steps=3) * wF).sum(), [flow(32)], ["velocity"])
    add("expv[steps=0,scale]", lambda v: (U.expv(v[0], scale=0.5, steps=0) * wF).sum(), [flow(32)], ["velocity"])
    add("expv[steps=0,inverse]", lambda v: (U.expv(v[0] * 1.0, steps=0, inverse=True) * wF).sum() + (U.expv(v[0], steps=0, inverse=True) * wF).sum(), [flow(32)], ["velocity"])
    add("expv[steps=2,scale,inverse]", lambda v: (U.expv(v[0], scale=0.7, steps=2, inverse=True) * wF).sum(), [flow(32)], ["velocity"])
    add("compose_flows", lambda v: (U.compose_flows(v[0], v[1]) * wF).sum(), [flow(33), flow(34)], ["u", "v"])
    add("compose_svfs", lambda v: (U.compose_svfs(v[0], v[1], bch_terms=2) * wF).sum(), [flow(35, 0.04), flow(36, 0.04)], ["u", "v"])
    for which in ("jacobian_det", "divergence", "curl") if D == 3 else ("jacobian_det", "divergence"):
        fn = getattr(U, which if which != "jacobian_det" else "jacobian_det")
        add(which, lambda v, fn=fn: (lambda o: (o * rnd(*o.shape, seed=10)).sum())(fn(v[0])), [flow(37, 0.3)], ["flow"])
    add("flow_derivatives", lambda v: sum((o * rnd(*o.shape, seed=12)).sum() for o in U.flow_derivatives(v[0], which=["du/dx", "dv/dxy" if D == 2 else "dw/dyz"]).values()), [flow(38, 0.3)], ["flow"])
    cp = rnd(1, D, *[s // 2 + 3 for s in sp], seed=13, scale=0.1)
    add("evaluate_cubic_bspline", lambda v: (lambda o: (o * rnd(*o.shape, seed=14)).sum())(U.evaluate_cubic_bspline(v[0], stride=2)), [cp], ["coefficients"])
    add("conv", lambda v: (U.conv(v[0], torch.tensor([0.25, 0.5, 0.25], dtype=T64), padding="replicate") * wI).sum(), [img], ["image"])
    add("affine_flow", lambda v: (as64(U.affine_flow(v[0], grid_t)) * wF).sum(), [torch.eye(D, D + 1, dtype=T64).unsqueeze(0) + rnd(1, D, D + 1, seed=15, scale=0.1)], ["matrix"])
    add("normalize_flow", lambda v: (U.normalize_flow(v[0]) * wF).sum(), [flow(39, 0.5)], ["flow"])
    add("spatial_derivatives", lambda v: sum((o * rnd(*o.shape, seed=16)).sum() for o in U.spatial_derivatives(v[0], order=1).values()), [img], ["image"])
    add("image_resize", lambda v: (lambda o: (o * rnd(*o.shape, seed=17)).sum())(U.grid_resize(v[0], size=tuple(s + 2 for s in reversed(sp)), mode="linear")), [img], ["image"])
    import deepali.core.affine as A_

    if D == 2:
        add("euler_rotation_angles(matrix)[2D]", lambda v: (A_.euler_rotation_angles(A_.euler_rotation_matrix(v[0])) * rnd(1, 1, seed=18)).sum(), [rnd(1, 1, seed=19, scale=0.6)], ["angles"])
    if D == 3:
        for ordr in ("ZXZ", "XZX"):
            add(f"euler_rotation_angles(matrix)[{ordr}]", lambda v, ordr=ordr: (A_.euler_rotation_angles(A_.euler_rotation_matrix(v[0], order=ordr), order=ordr) * rnd(1, 3, seed=18)).sum(),
                [rnd(1, 3, seed=19, scale=0.5) + torch.tensor([[0.2, 0.9, -0.3]], dtype=T64)], ["angles"])
        aa0 = rnd(1, 3, seed=23, scale=0.7) + 0.2
        add("angle_axis_to_rotation_matrix", lambda v: (U.angle_axis_to_rotation_matrix(v[0]) * rnd(1, 3, 3, seed=18)).sum(), [aa0], ["angle_axis"])
        add("angle_axis_to_quaternion", lambda v: (U.angle_axis_to_quaternion(v[0]) * rnd(1, 4, seed=18)).sum(), [aa0], ["angle_axis"])
        add("rotation_matrix_to_angle_axis(matrix)", lambda v: (U.rotation_matrix_to_angle_axis(U.angle_axis_to_rotation_matrix(v[0])) * rnd(1, 3, seed=18)).sum(), [aa0], ["angle_axis"])
        add("rotation_matrix_to_quaternion(matrix)", lambda v: (U.rotation_matrix_to_quaternion(U.angle_axis_to_rotation_matrix(v[0])) * rnd(1, 4, seed=18)).sum(), [aa0], ["angle_axis"])
        add("euler_rotation_matrix", lambda v: (U.euler_rotation_matrix(v[0], order="ZXZ") * rnd(1, 3, 3, seed=18)).sum(), [rnd(1, 3, seed=19, scale=0.6)], ["angles"])
        q0 = torch.nn.functional.normalize(rnd(1, 4, seed=20) + torch.tensor([[1.5, 0, 0, 0]], dtype=T64), dim=-1)
        add("quaternion_to_rotation_matrix", lambda v: (U.quaternion_to_rotation_matrix(v[0]) * rnd(1, 3, 3, seed=18)).sum(), [q0], ["quaternion"])
    return out


def loss_fns(D: int) -> List[Fn]:
    import deepali.losses.functional as L

    out: List[Fn] = []
    a = smooth_img(D, 41)
    b = smooth_img(D, 42) * 0.8 + 0.1
    pa = torch.sigmoid(smooth_img(D, 43, c=1) * 2 - 2.4)
    pb = (smooth_img(D, 44, c=1) > 1.2).to(T64)
    fl_ = smooth_img(D, 45, c=D) * 0.2 - 0.2
    skip = {"label_smoothing", "lame_parameters", "masked_loss", "reduce_loss"}
    # point set distances: w.r.t. BOTH point sets (symmetric / group-wise registration, or the moving set passed second)
    import deepali.losses.pointset as LP

    px = rnd(2, 6, D, seed=51, scale=0.8)
    py = rnd(2, 6, D, seed=52, scale=0.8) + 0.05
    pz = rnd(2, 9, D, seed=53, scale=0.8)
    out.append(Fn(f"LandmarkPointDistance[{D}D]", lambda: ((lambda v: as64(LP.LandmarkPointDistance()(v[0], v[1]))), [px.clone().requires_grad_(True), py.clone().requires_grad_(True)], ["x", "y"]), "loss:pointset"))
    out.append(Fn(f"ClosestPointDistance[{D}D]", lambda: ((lambda v: as64(LP.ClosestPointDistance()(v[0], v[1]))), [px.clone().requires_grad_(True), pz.clone().requires_grad_(True)], ["x", "y"]), "loss:pointset"))
    out.append(Fn(f"ClosestPointDistance[3 sets][{D}D]", lambda: ((lambda v: as64(LP.ClosestPointDistance(scale=1)(v[0], v[1], v[2]))),
                                                                  [px.clone().requires_grad_(True), pz.clone().requires_grad_(True), py.clone().requires_grad_(True)], ["x", "y1", "y2"]), "loss:pointset"))
    for name, fn in sorted(vars(L).items()):
        if not inspect.isfunction(fn) or fn.__module__ != L.__name__ or name.startswith("_") or name in skip:
            continue
        ps = list(inspect.signature(fn).parameters)
        if ps[:2] in (["input", "target"], ["source", "target"], ["logits", "target"]):
            seg = any(s in name for s in ("dice", "tversky", "cross_entropy", "bce", "focal"))
            x, y = (pa, pb) if seg else (a, b)
            if ps[0] == "logits" or name.endswith("with_logits"):
                x = smooth_img(D, 43, c=1) * 2 - 2.4
            # the histogram range of the MI losses defaults to the detached data range: give it explicitly (a fixed function of the input)
            kw = dict(vmin=0.0, vmax=2.5) if name in ("mi_loss", "nmi_loss") else {}
            out.append(Fn(f"{name}[{D}D]", lambda fn=fn, x=x, y=y, kw=kw: ((lambda v: as64(fn(v[0], y, **kw).sum())), [x.clone().requires_grad_(True)], ["input"]), "loss:similarity"))
            if not seg:  # symmetric / group-wise use: the target is optimised too
                out.append(Fn(f"{name}[wrt both][{D}D]", lambda fn=fn, x=x, y=y, kw=kw: ((lambda v: as64(fn(v[0], v[1], **kw).sum())),
                                                                                         [x.clone().requires_grad_(True), y.clone().requires_grad_(True)], ["input", "target"]), "loss:similarity"))
        elif ps and ps[0] in ("u", "flow", "v", "data"):
            kw = dict(material_name="bone") if name == "elasticity_loss" and False else (dict(first_parameter=1.0, second_parameter=0.5) if name == "elasticity_loss" else {})
            out.append(Fn(f"{name}[{D}D]", lambda fn=fn, kw=kw: ((lambda v: as64(fn(v[0], **kw).sum())), [fl_.clone().requires_grad_(True)], ["flow"]), "loss:regulariser"))
        elif ps[:2] == ["forward", "inverse"]:
            out.append(Fn(f"{name}[{D}D]", lambda fn=fn: ((lambda v: as64(fn(v[0], v[1]).sum())), [fl_.clone().requires_grad_(True), (-fl_ * 0.9).clone().requires_grad_(True)], ["forward", "inverse"]), "loss:regulariser"))
        elif ps[:2] == ["mean", "logvar"]:
            out.append(Fn(f"{name}[{D}D]", lambda fn=fn: ((lambda v: fn(v[0], v[1]).sum()), [rnd(2, 4, seed=46).requires_grad_(True), rnd(2, 4, seed=47).requires_grad_(True)], ["mean", "logvar"]), "loss:other"))
    return out


def record(fn: Fn, k0: int, ndirs: int, seed: int) -> Tuple[List[dict], Optional[str]]:
    """Events for one function: one per (tensor, direction)."""
    try:
        f, tensors, labels = fn.make()
        vals = [t for t in tensors]
        for t in vals:
            if not isinstance(t, torch.nn.Parameter):  # a module's own Parameter must already be optimisable: never switch it on here
                t.requires_grad_(True)
        SAW_F32[0] = False
        with torch.enable_grad():
            F0 = f(vals)
        if not isinstance(F0, Tensor) or F0.numel() != 1:
            return [], "not scalar"
    except Exception as ex:
        msg = str(ex)
        if isinstance(ex, RuntimeError) and ("in-place" in msg or "inplace" in msg):
            # the operation modifies one of its differentiable inputs in place: not differentiable w.r.t. that input
            return [dict(op=fn.name, family=fn.family, wrt="(input modified in place)", k=k0 + 1, reaches=False, finite=True, pw=False, gd=0, fd1=1000000, fd2=1000000,
                         asym1=0, asym2=0, noise=0, raw=dict(gd=0.0, fd=[float("nan")] * 2, F=float("nan"), eps=0.0, f32=False, backward_error=msg[:160]))], None
        return [], f"{type(ex).__name__}: {msg[:100]}"  # the operation cannot be built / called in this form: not judged
    backward_error = None
    try:
        # an output detached from all inputs is not "uncallable": the difference quotients decide whether a gradient is missing
        grads = torch.autograd.grad(F0, vals, allow_unused=True) if F0.requires_grad else tuple(None for _ in vals)
    except RuntimeError as ex:  # the forward pass worked but the backward pass refuses (e.g. a saved tensor was modified in place)
        backward_error = str(ex)[:160]
        grads = tuple(None for _ in vals)
    grid_based = fn.family in F32_FAMILIES or (fn.family in ("transform:tensor", "transform:inverse-tensor")
                                              and any(w in fn.name for w in ("DDF", "FFD", "Displacement", "Velocity", "FreeForm")))
    f32 = F0.dtype == torch.float32 or SAW_F32[0] or grid_based
    eps0 = 8e-3 if f32 else 1e-4
    mach = 1.2e-7 if f32 else 2.3e-16
    evs = []
    gen = torch.Generator().manual_seed(seed)
    base = [t.detach().clone() for t in vals]
    for j, (t, g, lab) in enumerate(zip(vals, grads, labels)):
        for d_i in range(ndirs):
            d = torch.randn(t.shape, generator=gen, dtype=T64)
            d = d / d.abs().max()
            eps = eps0 * max(1e-2, float(base[j].abs().max()) if base[j].numel() else 1.0)
            ladder, onesided = [], []
            with torch.no_grad():
                for lv in range(5):  # step ladder e, e/2, ..., e/16: judge on the pair of steps whose quotients agree best
                    e = eps / 2 ** lv
                    fp = float(f([b + e * d if i == j else b for i, b in enumerate(base)]))
                    fm = float(f([b - e * d if i == j else b for i, b in enumerate(base)]))
                    ladder.append((fp - fm) / (2 * e))
                    onesided.append(((fp - float(F0)) / e) - ((float(F0) - fm) / e))  # forward minus backward quotient
                f([b for b in base])  # restore module parameters
            absnoise = lambda i: mach * max(abs(float(F0)), 1.0) * 4 / (eps / 2 ** (i + 1))  # noqa: E731  round-off of the finer quotient of pair i
            best = min(range(4), key=lambda i: abs(ladder[i] - ladder[i + 1]) + absnoise(i) if all(math.isfinite(q) for q in ladder[i:i + 2]) else float("inf"))
            qs = [ladder[best], ladder[best + 1]]
            asym = [onesided[best], onesided[best + 1]]
            eps = eps / 2 ** best
            reaches = g is not None
            gd = float((g.to(T64) * d).sum()) if reaches else 0.0
            finite = bool(torch.isfinite(g).all()) if reaches else True
            # common magnitude: the directional derivative, or what it typically is for this gradient (a direction nearly orthogonal to the
            # gradient must not turn absolute round-off into a large relative error)
            typical = float(g.to(T64).norm() * d.norm()) / math.sqrt(d.numel()) if reaches and finite else 0.0
            m = max(abs(gd), abs(qs[1]), typical, 1e-7)
            if not reaches and abs(qs[1]) < 1e-9 and abs(qs[0]) < 1e-9:
                reaches = True  # the function does not depend on this tensor at all
            noise = mach * max(abs(float(F0)), 1.0) * 4 / (eps / 2) / m
            if not all(math.isfinite(q) for q in qs) or not math.isfinite(gd):
                finite, gd, qs = (False if not math.isfinite(gd) else finite), 0.0, [0.0, 0.0]
            evs.append(dict(op=fn.name, family=fn.family, wrt=lab, k=k0 + len(evs) + 1, reaches=reaches, finite=finite, pw=grid_based,
                            gd=int(round(gd / m * 1e6)), fd1=int(round(qs[0] / m * 1e6)), fd2=int(round(qs[1] / m * 1e6)),
                            asym1=min(int(abs(asym[0]) / m * 1e6), 10 ** 9) if all(math.isfinite(a) for a in asym) else 0,
                            asym2=min(int(abs(asym[1]) / m * 1e6), 10 ** 9) if all(math.isfinite(a) for a in asym) else 0,
                            noise=min(int(noise * 1e6) + 1, 10 ** 9), raw=dict(gd=gd, fd=qs, F=float(F0), eps=eps, f32=f32, backward_error=backward_error)))
    return evs, None


def run(ctx: Ctx) -> None:
    tier = ctx.tier
    ctx.rule = ("layer 1: every leaf of the Grad lattice (bilinear sampling value / coordinate / image gradients, MSE, Dice, affine maps of points, cubic "
                "B-spline coefficients) compared with torch.autograd exactly (1e-9); layer 2: directional derivatives of every transform (points, disp, "
                "inverse, image and point-set transformers), functional operation and loss in 2-D and 3-D against two central difference quotients, "
                "judged by Trace_Grad")
    coords = "GCoords"
    ctx.tlc("MC_Grad", CFG.format(coords=coords, emit="FALSE", inv="INVARIANT FDExact\n"), label="laws", timeout=3000)
    res = ctx.tlc("MC_Grad", CFG.format(coords=coords, emit="TRUE", inv=""), label="emit", timeout=3000)
    cases = [c for c in json_lines(res, key=None) if "kind" in c]
    if len(cases) < 20:
        raise MachineryError(f"only {len(cases)} exact cases")
    for c in cases:
        replay_exact(ctx, c)
        ctx.count(key=json.dumps(c), nontrivial=True)
    ctx.sample(dict(exact_case=cases[0]))
    ctx.notes["exact_cases"] = len(cases)
    fns: List[Fn] = []
    for D in (2, 3):
        fns += transform_fns(D) + functional_fns(D) + loss_fns(D)
    ndirs = 2 if tier == "quick" else 6
    traces, skipped = [], {}
    for i, fn in enumerate(fns):
        evs, why = record(fn, 0, ndirs, ctx.seed * 1000 + i)
        if why:
            skipped[fn.name] = why
            continue
        traces.append([dict(op=fn.name, family=fn.family, wrt="", k=0, reaches=True, finite=True, pw=False, gd=0, fd1=0, fd2=0, asym1=0, asym2=0, noise=0)] + evs)
        ctx.count(n=len(evs))
    send = [[{k: v for k, v in e.items() if k != "raw"} for e in t] for t in traces]
    rej, nval = validate(ctx, "Trace_Grad", TRACE_CFG, send, all_rejections=True)
    for tid, lst in rej.items():
        for line, clause in lst:
            e = traces[tid][line]
            ctx.violation(dict(layer="fd", op=e["op"].split("[")[0], family=e["family"], wrt=e["wrt"], what=clause),
                          f"{e['op']} w.r.t. {e['wrt']}: {clause}" + (f" (backward pass raised: {e['raw']['backward_error']})" if e["raw"].get("backward_error") else "") +
                          f": autograd directional derivative {e['raw']['gd']:.6g}, central differences {e['raw']['fd'][0]:.6g} / "
                          f"{e['raw']['fd'][1]:.6g} (steps {e['raw']['eps']:.1e}, /2; F = {e['raw']['F']:.6g})", dict(fn=e["op"], wrt=e["wrt"]))
    ctx.traces = nval
    judged = sum(1 for t in traces for e in t[1:] if abs(e["fd1"] - e["fd2"]) <= 20000 and not (e["asym2"] > 10000 and 4 * e["asym2"] > 3 * e["asym1"]))
    total = sum(len(t) - 1 for t in traces)
    ctx.notes["functions"] = len(fns)
    ctx.notes["functions_recorded"] = len(traces)
    ctx.notes["functions_not_callable_in_this_form"] = skipped
    ctx.notes["directional_derivatives"] = total
    ctx.notes["not_judged_near_kink"] = total - judged
    flat = sum(1 for t in traces for e in t[1:] if abs(e["raw"]["fd"][1]) < 1e-9 and abs(e["raw"]["gd"]) < 1e-9)
    ctx.notes["identically_zero"] = flat
    if len(traces) < 0.7 * len(fns):
        raise MachineryError(f"only {len(traces)} of {len(fns)} functions could be recorded: {list(skipped.items())[:5]}")
    if judged < 0.8 * total:
        raise MachineryError(f"only {judged} of {total} directional derivatives are away from kinks")
    ctx.sample(dict(recorded={k: v for k, v in traces[0][1].items()}))
    # binding self-test
    probe = Ctx(ctx.prop, ctx.tier, ctx.seed)
    bad = [[dict(op="x", family="", wrt="", k=0, reaches=True, finite=True, pw=False, gd=0, fd1=0, fd2=0, asym1=0, asym2=0, noise=0),
            dict(op="x", family="", wrt="p", k=1, reaches=True, finite=True, pw=False, gd=1000000, fd1=990000, fd2=990500, asym1=0, asym2=0, noise=10),
            dict(op="x", family="", wrt="p", k=2, reaches=False, finite=True, pw=False, gd=0, fd1=1000000, fd2=1000000, asym1=0, asym2=0, noise=10),
            dict(op="x", family="", wrt="p", k=3, reaches=True, finite=True, pw=False, gd=1000000, fd1=1000100, fd2=1000050, asym1=0, asym2=0, noise=10)]]
    r2, _ = validate(probe, "Trace_Grad", TRACE_CFG, bad, label="trace-selftest", all_rejections=True)
    if sorted(x[0] for x in r2.get(0, [])) != [1, 2]:
        raise MachineryError(f"binding self-test failed: {r2}")
    ctx.notes["binding_selftest"] = "a gradient off by 1 % and a missing gradient rejected, an accurate one accepted by Trace_Grad"
    ctx.assumptions += ["float64 inputs; operations whose output is float32 use step 2e-2 and a round-off allowance",
                        "inputs are smooth random fields; directions whose two difference quotients disagree by more than 2 % are at a kink and not judged (counted)"]


def replay(ctx: Ctx, data: Dict[str, Any]) -> None:
    c = data["case"]
    if "kind" in c:
        replay_exact(ctx, c)
        return
    fns: List[Fn] = []
    for D in (2, 3):
        fns += transform_fns(D) + functional_fns(D) + loss_fns(D)
    for i, fn in enumerate(fns):
        if fn.name == c["fn"]:
            evs, why = record(fn, 0, 6, i)
            send = [[dict(op=fn.name, family=fn.family, wrt="", k=0, reaches=True, finite=True, pw=False, gd=0, fd1=0, fd2=0, asym1=0, asym2=0, noise=0)] + [{k: v for k, v in e.items() if k != "raw"} for e in evs]]
            rej, _ = validate(ctx, "Trace_Grad", TRACE_CFG, send, all_rejections=True)
            for line, clause in rej.get(0, []):
                ctx.violation(dict(layer="fd", op=fn.name.split("[")[0], what=clause), f"{fn.name}: {clause}", c)
