"""C09 - a transform evaluates its current parameters and grid, never a stale snapshot (spec: TransformState)."""
from __future__ import annotations

import json
from typing import Any, Dict, List, Tuple

from ..core import Ctx
from ..tlc import MachineryError, json_lines
from ..tstate import GARBAGE, World

CONFIGS_QUICK = [("DDF", "param", "GridsDenseQ"), ("DDF", "callable", "GridsDenseQ"), ("SVF", "param", "GridsDenseQ"),
                 ("SVF", "tensor", "GridsDenseQ"), ("SVF", "callable", "GridsDenseQ"), ("FFD", "tensor", "GridsSpline"),
                 ("FFD", "callable", "GridsSpline"), ("SVFFD", "param", "GridsSpline"), ("SEQ", "callable", "GridsOne")]
CONFIGS_THOROUGH = [(k, h, "GridsDense" if k in ("DDF", "SVF") else "GridsSpline")
                    for k in ("DDF", "SVF", "FFD", "SVFFD") for h in ("param", "tensor", "callable")] + [("SEQ", "callable", "GridsOne")]

INVARIANTS = "INVARIANT TypeOK\nINVARIANT CallFresh\nINVARIANT DispFreshAfterReplace\nINVARIANT InverseStaysInverse\nPROPERTY CopiesIndependent\n"


def cfg(kind: str, holder: str, gridsdef: str, maxobj: int, maxlen: int, emit: bool, inv: bool, initver: int = 0) -> str:
    s = (f"SPECIFICATION Spec\nCONSTANTS\n  MaxObj = {maxobj}\n  MaxLen = {maxlen}\n  Kind = \"{kind}\"\n"
         f"  Holder0 = \"{holder}\"\n  Grids <- {gridsdef}\n  InitVer = {initver}\n  EmitCases = {'TRUE' if emit else 'FALSE'}\n")
    if inv:
        s += INVARIANTS
    s += "CONSTRAINT Emit\n"
    return s


def step_sig(kind: str, holder: str, hist: List[dict], k: int) -> Dict[str, Any]:
    st = hist[k]
    prev = [h["a"] + (":" + str(h["arg"]) if h["a"] in ("grid_", "grid", "inverse") else "") for h in hist[:k]]
    return dict(kind=kind, holder=holder, a=st["a"], kw=bool(st.get("kw")), arg=st["arg"] if st["a"] in ("grid_", "grid", "inverse") else "",
                after=sorted(set(prev)))


def replay_history(ctx: Ctx, case: Dict[str, Any], props: Tuple[str, ...] = ("C09",), members: str = "ddf", coarse: bool = False) -> None:
    kind, holder, hist = case["kind"], case["holder"], case["hist"]
    if kind == "SEQ" and members == "ddf":  # the same history on a composite of predicted LINEAR members
        replay_history(ctx, case, props, members="linear")
    if kind == "DDF" and holder in ("param", "tensor") and not coarse and any(h["a"] == "data_" for h in hist) and not any(h["a"] in ("grid_", "grid") for h in hist):
        # the same history with the parameters on a coarser grid (the displacement buffer is then a resampled copy, not a view) and with the
        # "set data" action bound to fit(flow) - the other documented way to replace the parameters
        replay_history(ctx, case, props, members=members, coarse=True)
    try:
        w = World(kind, holder, case.get("initver", 0), members=members, ddf_stride=2 if coarse else 1, use_fit=coarse)
    except Exception as ex:
        raise MachineryError(f"cannot construct {kind}/{holder}: {ex}")
    # conditioning arguments are given positionally or by keyword
    hist = [dict(st, kw=(k + len(hist)) % 2 == 1) if st["a"] in ("condition_", "condition") else st for k, st in enumerate(hist)]
    for k, st in enumerate(hist):
        try:
            obs = w.do(st)
        except Exception as ex:
            if k == len(hist) - 1 or True:
                ctx.violation(dict(**step_sig(kind, holder, hist, k), exc=type(ex).__name__),
                              f"{kind}/{holder}: {st['a']}({st['arg']}) raised {type(ex).__name__}: {str(ex)[:140]} "
                              f"after {[h['a'] for h in hist[:k]]}", case)
            return
        msg = w.check_grid(st)
        if msg:
            ctx.violation(dict(**step_sig(kind, holder, hist, k), what="grid"), f"{kind}/{holder}: {msg} after {[h['a'] for h in hist[:k]]}", case)
            return
        if st["obs"] and members == "linear" and st["a"] == "disp":
            # linear members keep no displacement buffer: disp() reads the members' prediction buffer p, which (like any buffer) is refreshed by
            # update() / __call__ only; the specification's Disp rule ("no buffered displacement => evaluate now") is about field members. Not judged.
            continue
        if st["obs"]:
            if obs not in st["obs"]:
                ctx.violation(dict(**step_sig(kind, holder, hist, k), what="stale" if obs != GARBAGE else "garbage"),
                              f"{kind}/{holder}: {st['a']} on object {st['o']} observed parameter version "
                              f"{'<not a version: wrong scale/grid>' if obs == GARBAGE else obs}, specification admits {st['obs']} "
                              f"after {[(h['a'], h['o'], h['arg']) for h in hist[:k]]}", case)
                return


def check_generic_inverse(ctx: Ctx) -> None:
    """Scripted histories on the generic configurable transform with PREDICTED parameters (a callable returning a dict): an inverse - linked
    or not - evaluates the conditioning it holds at that moment.  (The state machine gives composites no inverse: its composite members are
    displacement fields; this is the same law on the one composite class that owns a prediction callable itself.)"""
    import torch

    from deepali.core.grid import Grid
    from deepali.spatial.generic import GenericSpatialTransform, TransformConfig

    G = Grid(size=(9, 7), spacing=(1.0, 1.5))
    x = torch.tensor([[[0.3, -0.2], [-0.5, 0.4], [0.0, 0.0]]])
    for model in ("TR", "T", "TRS"):
        def pred(c=1.0, model=model):
            d = {"translation": torch.tensor([[0.1 * c, -0.2 * c]])}
            if "R" in model:
                d["rotation"] = torch.tensor([[0.3 * c]])
            if "S" in model:
                d["scaling"] = torch.tensor([[1.0 + 0.1 * c, 1.0 - 0.05 * c]])
            return d

        cfgm = TransformConfig(transform="Affine", affine_model=model, rotation_model="ZXZ")

        def fresh(c):
            return GenericSpatialTransform(G, params=pred, config=cfgm).condition_(c)

        for link, ub, recond_on in ((False, False, "inverse"), (False, True, "inverse"), (True, False, "original"), (True, True, "original"), (False, False, "none")):
            sig = dict(kind="GEN", model=model, link=link, ub=ub, recondition=recond_on)
            case = dict(scenario="generic-inverse", **sig)
            try:
                t = fresh(1.0)
                t(x)
                inv = t.inverse(link=link, update_buffers=ub)
                c_now = 1.0
                if recond_on == "inverse":
                    inv.condition_(2.0)
                    c_now = 2.0
                elif recond_on == "original":
                    t.condition_(2.0)
                    t.update()
                    c_now = 2.0
                y = fresh(c_now)(x)
                z = inv(y)
                err = float((z - x).abs().max())
                if err > 1e-4:
                    ctx.violation(dict(**sig, what="stale"), f"GenericSpatialTransform[{model}] with predicted parameters: inverse(link={link}, update_buffers={ub}) evaluated after re-conditioning the "
                                  f"{recond_on} (c = {c_now}) does not invert the map of that conditioning (off by {err:.3g}): it uses a stale prediction", case)
                # the original is unaffected by what was done to an unlinked inverse
                if recond_on == "inverse":
                    y1 = t(x)
                    e1 = float((y1 - fresh(1.0)(x)).abs().max())
                    if e1 > 1e-5:
                        ctx.violation(dict(**sig, what="original"), f"GenericSpatialTransform[{model}]: re-conditioning an unlinked inverse changed the original (off by {e1:.3g})", case)
            except Exception as ex:
                ctx.violation(dict(**sig, exc=type(ex).__name__), f"GenericSpatialTransform[{model}] inverse scenario raised {type(ex).__name__}: {str(ex)[:140]}", case)
            ctx.count(key=json.dumps(case, sort_keys=True), nontrivial=True)


def enumerate_histories(ctx: Ctx, configs, maxobj: int, maxlen: int, label: str, initver: int = 0) -> List[dict]:
    out = []
    for kind, holder, gd in configs:
        ctx.tlc("MC_TransformState", cfg(kind, holder, gd, maxobj, maxlen, False, True, initver), label=f"{label}-laws-{kind}-{holder}", timeout=3000)
        res = ctx.tlc("MC_TransformState", cfg(kind, holder, gd, maxobj, maxlen, True, False, initver), label=f"{label}-emit-{kind}-{holder}", timeout=3000)
        out += json_lines(res, key=None)
    return out


def simulate_histories(ctx: Ctx, configs, maxobj: int, depth: int, num: int, initver: int = 0) -> List[dict]:
    out = []
    for kind, holder, gd in configs:
        res = ctx.tlc("MC_TransformState", cfg(kind, holder, gd, maxobj, depth, True, False, initver), label=f"sim-{kind}-{holder}",
                      simulate=f"num={num}", depth=depth + 2, workers=4, timeout=3000)
        hs = json_lines(res, key=None)
        # keep maximal histories only (every prefix ending in an observation is emitted too)
        best: Dict[str, dict] = {}
        for h in hs:
            best[json.dumps(h["hist"][:1]) + str(len(best))] = h
        out += hs
    return out


def run(ctx: Ctx) -> None:
    tier = ctx.tier
    ctx.rule = ("every history of public operations (update, call, disp, data_, in-place edit, reset, grid_, condition_, "
                "clear_buffers, inverse(link, update_buffers), data(), grid(), condition(), deepcopy) up to the length bound that ends in "
                "an observation is one case, for each transform kind x parameter holder; longer histories by TLC simulation; "
                "non-trivial = contains a state-changing operation before the observation")
    if tier == "quick":
        configs, maxobj, maxlen, simnum, simdepth = CONFIGS_QUICK, 2, 3, 150, 9
    else:
        configs, maxobj, maxlen, simnum, simdepth = CONFIGS_THOROUGH, 3, 4, 3000, 12
    cases = enumerate_histories(ctx, configs, maxobj, maxlen, "exh")
    sims = simulate_histories(ctx, configs, 3, simdepth, simnum)
    seen = set()
    for c in cases + sims:
        key = json.dumps(c, sort_keys=True)
        if key in seen:
            continue
        seen.add(key)
        replay_history(ctx, c)
        ctx.count(key=key, nontrivial=any(h["a"] not in ("call", "disp", "update") for h in c["hist"]))
    check_generic_inverse(ctx)
    ctx.traces = len(seen)
    ctx.notes["exhaustive_histories"] = len(cases)
    ctx.notes["simulated_histories"] = len(sims)
    ctx.notes["max_simulated_length"] = max((len(c["hist"]) for c in sims), default=0)
    acts = {}
    for c in cases + sims:
        for h in c["hist"]:
            acts[h["a"]] = acts.get(h["a"], 0) + 1
    ctx.notes["actions_exercised"] = acts
    need = {"update", "call", "disp", "data_", "inplace", "reset", "grid_", "condition_", "clear_buffers", "inverse", "data", "grid", "condition", "deepcopy"}
    if need - set(acts):
        raise MachineryError(f"vacuous: actions never taken: {sorted(need - set(acts))}")
    ctx.sample(cases[len(cases) // 2])
    if sims:
        ctx.sample(max(sims, key=lambda c: len(c["hist"])))
    # binding self-test: a wrong expected observation must be rejected
    probe = Ctx(ctx.prop, ctx.tier, ctx.seed)
    probe.findings = []
    c = json.loads(json.dumps(next(x for x in cases if x["hist"][-1]["a"] == "call" and any(h["a"] == "data_" for h in x["hist"]))))
    c["hist"][-1]["obs"] = [v + 1 for v in c["hist"][-1]["obs"]]
    replay_history(probe, c)
    if not probe.violations:
        raise MachineryError("binding self-test failed: wrong expected version accepted")
    ctx.notes["binding_selftest"] = "corrupted expected parameter version rejected"
    ctx.assumptions += ["parameter content abstracted to versions realised as constant world displacements (exact for DDF/SVF/FFD/SVFFD)",
                        "composites are covered by C06/C07; this model has single transforms, copies and linked inverses",
                        "data_/reset on an object whose tensor is shared with an unlinked copy is excluded (not specified by the property)"]


def replay(ctx: Ctx, data: Dict[str, Any]) -> None:
    replay_history(ctx, data["case"])
