"""C02 - Grid <-> world convention agrees with ITK (spec: GridDefs section ItkConvention, Grid state machine)."""
from __future__ import annotations

import json
import os
import shutil
import tempfile
from typing import Any, Dict, List

import torch

from ..core import Ctx
from ..gridlib import GRID_CFG_COMMON, grid_sig, mk_grid
from ..rat import F, fl, maxabs
from ..tol import F32, F64, bound, max_err
from ..tlc import MachineryError, json_lines


def cfg(tier: str, emit: bool, inv: bool) -> str:
    t = "Q" if tier == "quick" else "T"
    s = f"""SPECIFICATION Spec
CONSTANTS
  Dims = {{2, 3}}
  RotsOf <- {'QIRotsOf' if tier == 'quick' else 'TRotsOf'}
  SizesOf <- ISizesOf
  SpacingsOf <- {'QSpacingsOf' if tier == 'quick' else 'TISpacingsOf'}
  CentersOf <- {t}CentersOf
  OthersOf <- {t}OthersOf
  ProbesOf <- ProbesItk
  Pairs <- NoPairs
  EmitCases = {'TRUE' if emit else 'FALSE'}
"""
    if inv:
        s += "INVARIANT ItkInv\n"
    s += "CONSTRAINT Emit\n"
    return s


def check_case(ctx: Ctx, c: Dict[str, Any], files: bool = False, scratch: str = "") -> None:
    import numpy as np
    import SimpleITK as sitk

    from deepali.core.grid import Grid
    from deepali.data.image import Image
    from deepali.utils.simpleitk.grid import image_grid_attributes

    rec = c["g"]
    n = rec["n"]
    D = len(n)
    hdr = c["hdr"]
    origin = fl(F(hdr["origin"]))
    spacing = fl(F(hdr["spacing"]))
    direction = fl(F(hdr["dir"]))
    center = fl(F(rec["c"]))
    P = fl(F(c["P"]))
    phys = fl(F(c["phys"]))
    index = fl(F(c["index"]))
    scale = max(maxabs(phys), maxabs(index), maxabs(P), 1.0)
    tol32 = bound(scale, F32)
    sig0 = dict(size1=any(v == 1 for v in n), **grid_sig(rec))

    # (c) reference: SimpleITK itself must agree with the specification, else the SPEC is wrong
    ref = sitk.Image([int(v) for v in n], sitk.sitkUInt8)
    ref.SetOrigin(origin)
    ref.SetSpacing(spacing)
    ref.SetDirection(direction)
    for p, x, i in zip(P, phys, index):
        rx = ref.TransformContinuousIndexToPhysicalPoint(p)
        ri = ref.TransformPhysicalPointToContinuousIndex(p)
        if max_err(rx, x) > bound(scale, F64, 1e-9) or max_err(ri, i) > bound(scale, F64, 1e-9):
            raise MachineryError(f"SimpleITK disagrees with the ITK section of GridDefs.tla on {json.dumps(hdr)}: {rx} vs {x}, {ri} vs {i}")

    def cmp(op: str, got, exp, tol: float, **kw):
        err = max_err(got, exp)
        if err > tol:
            ctx.violation(dict(op=op, **sig0, **kw), f"{op}: differs from ITK convention by {err:.3g} (tol {tol:.3g}); got {torch.as_tensor(got).tolist()}, ITK gives {exp}", c)

    def guarded(op: str, fn, **kw):
        try:
            return fn()
        except Exception as ex:
            ctx.violation(dict(op=op, exc=type(ex).__name__, **sig0, **kw), f"{op} raised {type(ex).__name__}: {ex}", c)
            return None

    pts = torch.tensor(P, dtype=torch.float64)
    # (b1) both construction routes
    for route in ("origin", "center"):
        if route == "origin":
            g = guarded("Grid(origin=)", lambda: Grid(size=n, origin=origin, spacing=spacing, direction=direction, align_corners=bool(rec["ac"])))
        else:
            g = guarded("Grid(center=)", lambda: Grid(size=n, center=center, spacing=spacing, direction=direction, align_corners=bool(rec["ac"])))
        if g is None:
            continue
        cmp(f"Grid({route}=).index_to_world", g.index_to_world(pts), phys, tol32, route=route)
        cmp(f"Grid({route}=).world_to_index", g.world_to_index(pts, decimals=None), index, tol32, route=route)
        cmp(f"Grid({route}=).origin", g.origin(), origin, tol32, route=route)
        cmp(f"Grid({route}=).center", g.center(), center, tol32, route=route)
        cmp(f"Grid({route}=).spacing", g.spacing(), spacing, bound(max(spacing), F32), route=route)
        cmp(f"Grid({route}=).direction", g.direction().flatten(), direction, 1e-6, route=route)
        if list(g.size()) != list(n):
            ctx.violation(dict(op="Grid.size", **sig0), f"size {list(g.size())} != {n}", c)
    # origin/center/spacing/direction handed over as tensors or arrays that the caller goes on using: the constructor and
    # the setters must neither change them nor keep an alias that a later call changes
    import numpy as _np

    for form_name, mk in (("tensor32", lambda v: torch.tensor(v, dtype=torch.float32)), ("tensor64", lambda v: torch.tensor(v, dtype=torch.float64)),
                          ("ndarray32", lambda v: _np.asarray(v, dtype=_np.float32)), ("ndarray64", lambda v: _np.asarray(v, dtype=_np.float64))):
        o_arg, c_arg, s_arg, d_arg = mk(origin), mk(center), mk(spacing), mk(direction)
        for rep in (1, 2):
            g = guarded("Grid(origin=shared)", lambda: Grid(size=n, origin=o_arg, spacing=s_arg, direction=d_arg), form=form_name, rep=rep)
            if g is not None:
                cmp("Grid(origin=shared).index_to_world", g.index_to_world(pts), phys, tol32, form=form_name, rep=rep)
            g = guarded("Grid(center=shared)", lambda: Grid(size=n, center=c_arg, spacing=s_arg, direction=d_arg), form=form_name, rep=rep)
            if g is not None:
                cmp("Grid(center=shared).index_to_world", g.index_to_world(pts), phys, tol32, form=form_name, rep=rep)
            g = guarded("Grid.origin(shared)", lambda: Grid(size=n, spacing=spacing, direction=direction).origin(o_arg), form=form_name, rep=rep)
            if g is not None:
                cmp("Grid.origin(shared).index_to_world", g.index_to_world(pts), phys, tol32, form=form_name, rep=rep)
            g = guarded("Grid.center(shared)", lambda: Grid(size=n, spacing=spacing, direction=direction).center(c_arg), form=form_name, rep=rep)
            if g is not None:
                cmp("Grid.center(shared).index_to_world", g.index_to_world(pts), phys, tol32, form=form_name, rep=rep)
        for nm, arg, exp in (("origin", o_arg, origin), ("center", c_arg, center), ("spacing", s_arg, spacing), ("direction", d_arg, direction)):
            cmp("caller's " + nm + " argument after construction", torch.as_tensor(arg).flatten().double(), exp, 1e-6 * max(1.0, maxabs(exp)), form=form_name, arg=nm)
    # image- and batch-level accessors report the geometry of the grid
    g0_ = Grid(size=n, origin=origin, spacing=spacing, direction=direction)
    im_ = Image(torch.zeros((1,) + tuple(reversed(n))), g0_)
    for lvl, obj, pick in (("Image", im_, lambda t: t), ("ImageBatch", im_.batch(), lambda t: t[0])):
        for nm, exp, tl in (("origin", origin, tol32), ("center", center, tol32), ("spacing", spacing, bound(max(spacing), F32)), ("direction", direction, 1e-6)):
            got = guarded(f"{lvl}.{nm}", lambda: pick(getattr(obj, nm)()), level=lvl, attr=nm)
            if got is not None:
                cmp(f"{lvl}.{nm}()", torch.as_tensor(got).flatten(), exp, tl, level=lvl, attr=nm)
    # the setters called with one number per axis (origin(x, y, z) ...), copying and in place
    gb = Grid(size=n, spacing=[1.0] * D, direction=direction)
    for how, mk in (("origin(*scalars)", lambda: gb.spacing(*spacing).origin(*origin)), ("origin_(*scalars)", lambda: gb.spacing(*spacing).origin_(*origin)),
                    ("center(*scalars)", lambda: gb.spacing(*spacing).center(*center)), ("center_(*scalars)", lambda: gb.spacing(spacing).center_(*center)),
                    ("spacing_(*scalars)", lambda: Grid(size=n, direction=direction).spacing_(*spacing).origin_(origin)),
                    ("direction(*scalars)", lambda: Grid(size=n, spacing=spacing).direction(*direction).origin(origin)),
                    ("direction_(*scalars)", lambda: Grid(size=n, spacing=spacing).direction_(*direction).origin_(origin))):
        g = guarded("Grid." + how, mk, how=how)
        if g is not None:
            cmp("Grid." + how + ".index_to_world", g.index_to_world(pts), phys, tol32, how=how)
    if max_err(gb.spacing(), [1.0] * D) > 0:
        ctx.violation(dict(op="Grid.spacing", what="mutates", **sig0), "a copying setter changed the grid it was called on", c)
    # redundant but consistent arguments: size AND shape, origin AND center - the same grid; inconsistent ones are refused
    for how, mk in (("size+shape", lambda: Grid(size=n, shape=tuple(reversed(n)), origin=origin, spacing=spacing, direction=direction)),
                    ("origin+center", lambda: Grid(size=n, origin=origin, center=center, spacing=spacing, direction=direction)),
                    ("shape only", lambda: Grid(shape=tuple(reversed(n)), origin=origin, spacing=spacing, direction=direction))):
        if how == "origin+center":
            # (the library compares the two with a float32 allclose whose absolute tolerance is 1e-8: a component that is 0 in exact arithmetic and
            #  1e-7 after float32 rounding is refused as 'inconsistent' - the redundant form is outside the property, so a refusal is not judged)
            try:
                g = mk()
            except ValueError:
                ctx.notes["origin_and_center_refused_by_rounding"] = ctx.notes.get("origin_and_center_refused_by_rounding", 0) + 1
                g = None
            except Exception as ex:  # anything but the documented refusal is a failure of the constructor
                ctx.violation(dict(op="Grid(origin+center)", exc=type(ex).__name__, **sig0, how=how), f"Grid(origin+center) raised {type(ex).__name__}: {ex}", c)
                g = None
        else:
            g = guarded("Grid(" + how + ")", mk, how=how)
        if g is not None:
            cmp("Grid(" + how + ").index_to_world", g.index_to_world(pts), phys, tol32, how=how)
    if max(abs(a_ - b_) for a_, b_ in zip(origin, center)) > 1e-3:
        try:
            Grid(size=n, origin=center, center=center, spacing=spacing, direction=direction)
            ctx.violation(dict(op="Grid(origin+center)", what="inconsistent accepted", **sig0), "Grid() accepts an origin and a center that contradict each other", c)
        except Exception:
            pass
    # flattened / nested direction, from_seq/from_numpy with origin flag
    g = guarded("Grid.from_seq", lambda: Grid.from_seq([float(v) for v in n] + spacing + origin + direction, origin=True))
    if g is not None:
        cmp("Grid.from_seq(origin=True).index_to_world", g.index_to_world(pts), phys, tol32)
    import numpy as np

    flat = [float(v) for v in n] + spacing + origin + direction
    for form_name, arr in (("list", flat), ("ndarray", np.asarray(flat))):
        g = guarded("Grid.from_numpy", lambda: Grid.from_numpy(arr, origin=True), form=form_name)
        if g is not None:
            cmp("Grid.from_numpy(origin=True).index_to_world", g.index_to_world(pts), phys, tol32, form=form_name)
    g0 = Grid(size=n, origin=origin, spacing=spacing, direction=direction)
    g = guarded("Grid.from_numpy", lambda: Grid.from_numpy(g0.numpy()))
    if g is not None:
        cmp("Grid.from_numpy(numpy()).index_to_world", g.index_to_world(pts), phys, tol32)
    # (b2) SimpleITK header -> grid -> header
    g = guarded("Grid.from_sitk", lambda: Grid.from_sitk(ref))
    if g is not None:
        cmp("Grid.from_sitk.index_to_world", g.index_to_world(pts), phys, tol32)
        cmp("Grid.from_sitk.world_to_index", g.world_to_index(pts, decimals=None), index, tol32)
        img = Image(torch.zeros((1,) + tuple(reversed(n))), g)
        out = guarded("Image.sitk", lambda: img.sitk())
        if out is not None:
            if list(out.GetSize()) != list(n):
                ctx.violation(dict(op="Image.sitk", attr="size", **sig0), f"Image.sitk() size {out.GetSize()} != {n}", c)
            cmp("Image.sitk.origin", out.GetOrigin(), origin, tol32, attr="origin")
            cmp("Image.sitk.spacing", out.GetSpacing(), spacing, bound(max(spacing), F32), attr="spacing")
            cmp("Image.sitk.direction", out.GetDirection(), direction, 1e-6, attr="direction")
            for p, x in zip(P, phys):
                cmp("Image.sitk.TransformContinuousIndexToPhysicalPoint", out.TransformContinuousIndexToPhysicalPoint(p), x, tol32, attr="phys")
            img2 = guarded("Image.from_sitk", lambda: Image.from_sitk(out))
            if img2 is not None:
                cmp("Image.from_sitk(Image.sitk()).grid.index_to_world", img2.grid().index_to_world(pts), phys, tol32)
    # (b3) GridAttrs helper of utils.simpleitk
    ga = guarded("image_grid_attributes", lambda: image_grid_attributes(ref))
    if ga is not None:
        tol64 = bound(scale, F64, 1e-9)
        cmp("GridAttrs.index_to_physical_space", ga.index_to_physical_space(P), phys, tol64)
        cmp("GridAttrs.physical_space_to_continuous_index", ga.physical_space_to_continuous_index(P), index, tol64)
        # INTEGER index arrays (tuple / list / ndarray of ints) give the same non-integer physical points; ITK's own integer-index API is the reference
        ints = [[0] * D, [1] + [0] * (D - 1), [int(v) - 1 for v in n], [2, 1, 3][:D]]
        iphys = [list(ref.TransformIndexToPhysicalPoint([int(v) for v in idx_])) for idx_ in ints]
        for form_name, arg_i in (("list", ints), ("tuple", tuple(tuple(r) for r in ints)), ("ndarray", np.asarray(ints, dtype=np.int64)), ("int32", np.asarray(ints, dtype=np.int32))):
            got_i = guarded("GridAttrs.index_to_physical_space", lambda: ga.index_to_physical_space(arg_i), ints=form_name)
            if got_i is not None:
                cmp("GridAttrs.index_to_physical_space[int indices]", np.asarray(got_i, dtype=float), iphys, tol64, ints=form_name)
        got_1 = guarded("GridAttrs.index_to_physical_space", lambda: ga.index_to_physical_space(tuple(ints[3])), ints="single tuple")
        if got_1 is not None:
            cmp("GridAttrs.index_to_physical_space[int indices]", np.asarray(got_1, dtype=float), iphys[3], tol64, ints="single tuple")
        back_i = guarded("GridAttrs.physical_space_to_index", lambda: ga.physical_space_to_index(np.asarray(iphys)), ints="roundtrip")
        if back_i is not None and np.asarray(back_i).tolist() != ints:
            ctx.violation(dict(op="GridAttrs.physical_space_to_index", **sig0), f"physical points of integer indices {ints} map back to {np.asarray(back_i).tolist()}", c)
    # ... and constructed directly, with the direction given flat and as a nested matrix
    from deepali.utils.simpleitk.grid import GridAttrs

    D_ = len(n)
    for form_name, dirn in (("flat", direction), ("matrix", np.asarray(direction).reshape(D_, D_)), ("nested", np.asarray(direction).reshape(D_, D_).tolist())):
        ga = guarded("GridAttrs", lambda: GridAttrs(size=tuple(n), origin=tuple(origin), spacing=tuple(spacing), direction=dirn), form=form_name)
        if ga is not None:
            tol64 = bound(scale, F64, 1e-9)
            cmp("GridAttrs().index_to_physical_space", ga.index_to_physical_space(P), phys, tol64, form=form_name)
            cmp("GridAttrs().physical_space_to_continuous_index", ga.physical_space_to_continuous_index(P), index, tol64, form=form_name)
    # (b4) through a file header
    if files:
        for ext in (".mha", ".nii.gz" if D == 3 else ".nrrd"):
            path = os.path.join(scratch, f"g{abs(hash(json.dumps(hdr))) % 10**8}{ext}")
            sitk.WriteImage(ref, path)
            g = guarded("Grid.from_file", lambda: Grid.from_file(path), ext=ext)
            if g is not None:
                cmp("Grid.from_file.index_to_world", g.index_to_world(pts), phys, tol32, ext=ext)
            im = guarded("Image.read", lambda: Image.read(path), ext=ext)
            if im is not None:
                cmp("Image.read.grid.index_to_world", im.grid().index_to_world(pts), phys, tol32, ext=ext)
                cmp("Image.read.grid.world_to_index", im.grid().world_to_index(pts, decimals=None), index, tol32, ext=ext)
            os.remove(path)
    ctx.count(key=json.dumps(hdr, sort_keys=True))


def run(ctx: Ctx) -> None:
    tier = ctx.tier
    ctx.rule = ("one case per leaf grid of the Grid.tla configuration tree with the ITK lattice (sizes incl. 1, proper rotations, "
                "axis flips/permutations); each is evaluated three-way: spec, deepali (two construction routes, from_sitk, "
                "Image.sitk, GridAttrs, file headers), SimpleITK")
    ctx.tlc("MC_Grid", cfg(tier, False, True), label="itk-laws", timeout=3000)
    res = ctx.tlc("MC_Grid", cfg(tier, True, False), label="itk-emit", timeout=3000)
    cases = [c for c in json_lines(res, key=None) if c.get("kind") == "grid"]
    if not cases:
        raise MachineryError("no ITK cases emitted")
    scratch = tempfile.mkdtemp(prefix="dvc02_")
    try:
        nfiles = 12 if tier == "quick" else 200
        step = max(1, len(cases) // nfiles)
        # file cases: every step-th case, plus 3-D geometries whose direction does not commute with the LPS/RAS flip
        # diag(-1,-1,1) (tilted out of the axial plane, permutations involving z) - the NIfTI conversion's own corner
        def tilted(c):
            R = F(c["g"]["R"])
            return len(R) == 3 and any(R[i][2] != 0 or R[2][i] != 0 for i in (0, 1))
        ntilt = 0
        for i, c in enumerate(cases):
            f = i % step == 0
            if not f and tilted(c) and ntilt < nfiles:
                f = True
                ntilt += 1
            check_case(ctx, c, files=f, scratch=scratch)
    finally:
        shutil.rmtree(scratch, ignore_errors=True)
    ctx.sample({k: cases[len(cases) // 2][k] for k in ("hdr", "P", "phys", "index")})
    ctx.traces = len(cases)
    # binding self-test: transposed direction in the expectation must be rejected
    probe = Ctx(ctx.prop, ctx.tier, ctx.seed)
    probe.findings = []
    c = json.loads(json.dumps(next(x for x in cases if grid_sig(x["g"])["rotated"] and len(x["g"]["n"]) == 2 and x["g"]["R"][0][1] != x["g"]["R"][1][0])))
    c["phys"] = [[p[1], p[0]] for p in c["phys"]]
    try:
        check_case(probe, c)
    except MachineryError:
        probe.violations.append({})
    if not probe.violations:
        raise MachineryError("binding self-test failed")
    ctx.notes["binding_selftest"] = "corrupted expectation rejected"
    ctx.notes["reference"] = "SimpleITK agreed with the specification on every case (otherwise exit 2)"
    ctx.assumptions += ["rational rotation sub-family (proper rotations, axis flips and permutations)",
                        "SimpleITK's TransformContinuousIndexToPhysicalPoint/TransformPhysicalPointToContinuousIndex is the independent reference for the spec's ITK section"]


def replay(ctx: Ctx, data: Dict[str, Any]) -> None:
    check_case(ctx, data["case"])
