"""X04 (beyond the listed properties) - DistributedWeightedRandomSampler (spec: Sampler, Trace_Sampler)."""
from __future__ import annotations

import itertools
import json
from typing import Any, Dict, List

from ..core import Ctx
from ..tlc import MachineryError
from ..trace import validate

MODEL_CFG = """SPECIFICATION Spec
CONSTANTS
  Weights <- {w}
  Num = {num}
  R = {r}
  DropLast = {dl}
  Repl = {repl}
INVARIANT EveryRankSameCount
INVARIANT NothingLostOrDuplicated
INVARIANT ExclusiveWithoutReplacement
INVARIANT NeverZeroWeight
INVARIANT SizeRule
"""
TRACE_CFG = "SPECIFICATION TSpec\nCONSTRAINT Report\nPOSTCONDITION Consumed\n"


def record(weights: List[int], num: int, R: int, drop_last: bool, replacement: bool, shuffle: bool, seed: int) -> Dict[str, Any]:
    from deepali.data.sampler import DistributedWeightedRandomSampler as S

    n_eff = len(weights) if num < 1 else num
    ev: Dict[str, Any] = dict(weights=weights, num=n_eff, R=R, drop_last=drop_last, replacement=replacement, shuffle=shuffle,
                              refused=False, epoch0=[], epoch1=[], epoch0again=[])
    try:
        samplers = [S([float(w) for w in weights], num_samples=num, replacement=replacement, num_replicas=R, rank=r, shuffle=shuffle,
                      seed=seed, drop_last=drop_last) for r in range(R)]
    except ValueError:
        ev["refused"] = True
        return ev
    for key, epoch in (("epoch0", 0), ("epoch1", 1), ("epoch0again", 0)):
        out = []
        for s in samplers:
            s.set_epoch(epoch)
            idx = list(iter(s))
            if len(idx) != len(s):
                idx = idx + [-5]  # __len__ must agree with the iteration: make the slice illegal
            out.append([int(i) for i in idx])
        ev[key] = out
    return ev


def run(ctx: Ctx) -> None:
    quick = ctx.tier == "quick"
    ctx.rule = ("design: every possible draw of small instances checked by TLC; code: recorded iterations of all ranks for every configuration "
                "(weights x num_samples x replicas x drop_last x replacement x shuffle), two epochs, validated by Trace_Sampler")
    for w, num, r, dl, repl in (("W5", 3, 2, "FALSE", "FALSE"), ("W5", 4, 2, "TRUE", "FALSE"), ("W5", 3, 2, "FALSE", "TRUE"), ("W5", 5, 3, "TRUE", "TRUE"),
                                ("W3", 2, 3, "FALSE", "TRUE"), ("W5", 5, 2, "TRUE", "FALSE"), ("W3", 2, 1, "FALSE", "FALSE")):
        ctx.tlc("MC_Sampler", MODEL_CFG.format(w=w, num=num, r=r, dl=dl, repl=repl), label=f"design-{w}-{num}-{r}-{dl}-{repl}", timeout=3000)
    # unbounded part: the TLAPS proof of the padding rule (all naturals), re-checked from scratch
    import shutil
    import subprocess
    import tempfile
    from pathlib import Path

    src = Path(__file__).resolve().parents[3] / "spec" / "proofs" / "SamplerProof.tla"
    scratch = tempfile.mkdtemp(prefix="dvtlaps_")
    try:
        shutil.copy(src, scratch)
        pr = subprocess.run(["tlapm", "--toolbox", "0", "0", "SamplerProof.tla"], cwd=scratch, capture_output=True, text=True, timeout=900)
        out = pr.stdout + pr.stderr
        if "obligations proved" not in out or "failed" in out:
            raise MachineryError("TLAPS does not re-prove spec/proofs/SamplerProof.tla: " + out[-300:])
        ctx.notes["tlaps"] = [ln.strip() for ln in out.splitlines() if "obligations proved" in ln][-1]
    finally:
        shutil.rmtree(scratch, ignore_errors=True)
    wsets = [[2, 0, 1, 3, 1], [1, 1, 1, 1], [5, 1, 1, 1, 1, 1, 0, 2], [1], [3, 1, 2, 2, 1, 1, 4, 1, 1, 2, 1]]
    if not quick:
        wsets += [[1] * 16, [0, 0, 1, 1, 7, 1, 2]]
    traces = []
    k = 0
    for w in wsets:
        evs = []
        positives = sum(1 for x in w if x > 0)
        for num, R, dl, repl, sh in itertools.product([-1] + list(range(1, (2 if quick else 3) * len(w) + 1, 1 if len(w) < 6 or not quick else 2)), (1, 2, 3, 4), (False, True), (False, True), (False, True)):
            n_eff = len(w) if num < 1 else num
            per = -(-(n_eff - R) // R) if dl and n_eff % R else -(-n_eff // R)
            if not repl and positives < per * R <= len(w):
                continue  # fewer drawable indices than requested although the constructor only counts len(weights): torch refuses at iteration (noted)
            if per <= 0:
                continue  # nothing to draw
            ev = record(w, num, R, dl, repl, sh, ctx.seed + k)
            k += 1
            ev["k"] = len(evs) + 1
            evs.append(ev)
        traces.append([dict(weights=w, num=0, R=1, drop_last=False, replacement=True, shuffle=False, refused=True, epoch0=[], epoch1=[], epoch0again=[], k=0)] + evs)
        ctx.count(n=len(evs))
    rej, nval = validate(ctx, "Trace_Sampler", TRACE_CFG, traces, all_rejections=True)
    for tid, lst in rej.items():
        for line, clause in lst:
            e = traces[tid][line]
            ctx.violation(dict(clause=clause, replacement=e["replacement"], drop_last=e["drop_last"], shuffle=e["shuffle"]),
                          f"sampler(weights={e['weights']}, num_samples={e['num']}, replicas={e['R']}, drop_last={e['drop_last']}, replacement={e['replacement']}, "
                          f"shuffle={e['shuffle']}): {clause}; epoch 0 per rank: {e['epoch0']}", dict(event=e))
    ctx.traces = nval
    ctx.notes["configurations"] = sum(len(t) - 1 for t in traces)
    ctx.notes["refused"] = sum(1 for t in traces for e in t[1:] if e["refused"])
    ctx.sample({k_: v for k_, v in traces[0][5].items()})
    probe = Ctx(ctx.prop, ctx.tier, ctx.seed)
    e = json.loads(json.dumps(next(e for e in traces[0][1:] if not e["refused"] and not e["replacement"] and e["R"] == 2)))
    e["epoch0"][1][0] = e["epoch0"][0][0]  # two ranks get the same index
    e["epoch0again"] = e["epoch0"]
    e["k"] = 1
    r2, _ = validate(probe, "Trace_Sampler", TRACE_CFG, [[traces[0][0], e]], label="trace-selftest", all_rejections=True)
    if not r2:
        raise MachineryError("binding self-test failed")
    ctx.notes["binding_selftest"] = "an index given to two ranks without replacement is rejected by Trace_Sampler"
    ctx.assumptions += ["configurations whose draw without replacement needs more indices than have positive weight are skipped (the constructor counts len(weights); "
                        "torch.multinomial refuses at iteration)"]


def replay(ctx: Ctx, data: Dict[str, Any]) -> None:
    e = data["case"]["event"]
    ev = record(e["weights"], e["num"], e["R"], e["drop_last"], e["replacement"], e["shuffle"], ctx.seed)
    ev["k"] = 1
    head = dict(weights=e["weights"], num=0, R=1, drop_last=False, replacement=True, shuffle=False, refused=True, epoch0=[], epoch1=[], epoch0again=[], k=0)
    rej, _ = validate(ctx, "Trace_Sampler", TRACE_CFG, [[head, ev]], all_rejections=True)
    for line, clause in rej.get(0, []):
        ctx.violation(dict(clause=clause), f"sampler {e}: {clause}", data["case"])
