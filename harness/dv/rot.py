"""Exact rational rotation matrices for the random drivers (inputs only - the specifications
check orthogonality of whatever they are given, so this table is not part of any oracle)."""
from __future__ import annotations

from fractions import Fraction as Fr
from typing import List

CS = [(Fr(1), Fr(0)), (Fr(0), Fr(1)), (Fr(-1), Fr(0)), (Fr(0), Fr(-1)), (Fr(3, 5), Fr(4, 5)), (Fr(4, 5), Fr(-3, 5)),
      (Fr(-3, 5), Fr(4, 5)), (Fr(5, 13), Fr(12, 13)), (Fr(-12, 13), Fr(5, 13))]
QUATS = [(1, 0, 0, 0), (0, 1, 0, 0), (1, 1, 1, 1), (1, -1, 1, 1), (1, 1, 0, 0), (1, 0, 0, 1), (0, 1, 1, 0),
         (1, 2, 2, 4), (4, -2, 1, 2), (2, 1, 0, 0), (1, 0, 0, 2), (3, 0, 1, 0), (1, 2, 0, 2)]


def rot2(c: Fr, s: Fr) -> List[List[Fr]]:
    return [[c, -s], [s, c]]


def quat_mat(q) -> List[List[Fr]]:
    w, x, y, z = q
    n = w * w + x * x + y * y + z * z
    return [
        [Fr(w * w + x * x - y * y - z * z, n), Fr(2 * (x * y - w * z), n), Fr(2 * (x * z + w * y), n)],
        [Fr(2 * (x * y + w * z), n), Fr(w * w - x * x + y * y - z * z, n), Fr(2 * (y * z - w * x), n)],
        [Fr(2 * (x * z - w * y), n), Fr(2 * (y * z + w * x), n), Fr(w * w - x * x - y * y + z * z, n)],
    ]


def flip_x(M):
    return [[-v if j == 0 else v for j, v in enumerate(row)] for row in M]


def random_rotation(rng, D: int, allow_flip: bool = True, small: bool = False):
    if D == 2:
        cs = rng.choice(CS[:7] if small else CS)
        M = rot2(*cs)
    else:
        M = quat_mat(rng.choice(QUATS[:9] if small else QUATS))
    if allow_flip and rng.random() < 0.15:
        M = flip_x(M)
    return M
