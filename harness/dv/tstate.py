"""Drive real deepali transforms along histories of TransformState.tla (shared by C09, C07, C15)."""
from __future__ import annotations

import copy as _copy
import math
from typing import Any, Dict, List, Optional

import torch

DELTA = 0.25  # world displacement per parameter version
GARBAGE = 777


def _rot(deg: float):
    a = math.radians(deg)
    return [[math.cos(a), -math.sin(a)], [math.sin(a), math.cos(a)]]


def grids() -> Dict[str, Any]:
    from deepali.core.grid import Grid

    G = Grid(size=(9, 7), spacing=(1.0, 1.5), center=(2.0, -1.0), direction=_rot(30), align_corners=True)
    return {
        "G": G,
        "G2": G.resize((5, 4)),
        "Gac": G.align_corners(False),
        "G3": G.resize((13, 10)),
        "Gfine": G.resize((17, 13)),
    }


class World:
    """The real objects of one history."""

    def __init__(self, kind: str, holder: str, initver: int = 0, members: str = "ddf", ddf_stride: int = 1, use_fit: bool = False):
        self.kind = kind
        self.ddf_stride = ddf_stride  # DDF / SVF parameters on a coarser grid than the transform's (then the displacement buffer is not a view of them)
        self.use_fit = use_fit        # bind the specification's "set data" action to fit(flow) instead of data_(tensor)
        self.members = members  # member type of the composite kind SEQ: predicted displacement fields, or predicted LINEAR transforms
        self.grids = grids()
        self.objs: Dict[int, Any] = {}
        self.current = [None]
        t = self.objs[1] = self.make(kind, holder)
        if initver:
            if holder == "callable":
                t.condition_(initver)
            else:
                with torch.no_grad():
                    t.params.copy_(self.params_for(t, initver))

    # ------------------------------------------------------------ construction
    def cls(self):
        import deepali.spatial as S

        return {"DDF": S.DisplacementFieldTransform, "SVF": S.StationaryVelocityFieldTransform,
                "FFD": S.FreeFormDeformation, "SVFFD": S.StationaryVelocityFreeFormDeformation}[self.kind]

    def make(self, kind: str, holder: str):
        G = self.grids["G"]
        if kind == "SEQ":
            # sequential composite of two displacement fields whose parameters are predicted from the conditioning
            import deepali.spatial as S

            world = self
            children = []
            for _ in range(2):
                ref = [None]

                def predict(c=0, ref=ref):
                    return world.params_for(ref[0], c)

                ch = (S.DisplacementFieldTransform if self.members == "ddf" else S.Translation)(G, params=predict)
                ref[0] = ch
                children.append(ch)
            return S.SequentialTransform(*children)
        kw = {}
        if kind in ("FFD", "SVFFD"):
            kw["stride"] = 4
        elif kind in ("DDF", "SVF") and self.ddf_stride > 1:
            kw["stride"] = self.ddf_stride
        if holder == "param":
            return self.cls()(G, params=True, **kw)
        if holder == "tensor":
            return self.cls()(G, params=False, **kw)
        if holder == "callable":
            world = self

            def predict(c=0):
                t = world.current[0]
                return world.params_for(t, c)

            return self.cls()(G, params=predict, **kw)
        raise ValueError(holder)

    def params_for(self, t, ver: int) -> torch.Tensor:
        """Parameters meaning the constant WORLD displacement (ver * DELTA, 0) on t's current grid."""
        from deepali.core.grid import Axes

        g = t.grid()
        D = g.ndim
        w = torch.zeros(1, D)
        w[0, 0] = ver * DELTA
        c = g.transform_vectors(w, axes=Axes.WORLD, to_axes=t.axes())[0]
        shape = tuple(t.data_shape)
        out = torch.zeros((1,) + shape)
        for i in range(D):
            out[0, i] = c[i]
        return out

    # ------------------------------------------------------------ observation
    def decode(self, t, vec: torch.Tensor) -> int:
        from deepali.core.grid import Axes

        w = t.grid().transform_vectors(vec.reshape(1, -1).to(torch.float32), axes=t.axes(), to_axes=Axes.WORLD)[0]
        v = float(w[0]) / DELTA / (2.0 if self.kind == "SEQ" else 1.0)  # SEQ: two equal members add up
        if not math.isfinite(v) or abs(v - round(v)) > 0.02 or float(w[1:].abs().max()) > 0.02 * DELTA:
            return GARBAGE
        return int(round(v))

    def observe_call(self, t) -> int:
        x = torch.zeros(1, 1, t.ndim)
        y = t(x)
        return self.decode(t, (y - x)[0, 0])

    def observe_disp(self, t) -> int:
        u = t.disp()
        idx = (0, slice(None)) + tuple(s // 2 for s in u.shape[2:])
        return self.decode(t, u[idx])

    # ------------------------------------------------------------ actions
    def do(self, step: Dict[str, Any]) -> Optional[int]:
        a, o, arg, new = step["a"], step["o"], step["arg"], step["new"]
        t = self.objs[o]
        self.current[0] = t
        if a == "update":
            t.update()
        elif a == "call":
            return self.observe_call(t)
        elif a == "disp":
            return self.observe_disp(t)
        elif a == "data_":
            if self.use_fit and self.kind == "DDF":
                from deepali.core.grid import Axes
                from deepali.data.flow import FlowFields

                g_ = t.grid()
                w_ = torch.zeros(1, g_.ndim, *g_.shape)
                w_[0, 0] = arg * DELTA
                t.fit(FlowFields(w_, g_, Axes.WORLD))
            else:
                t.data_(self.params_for(t, arg))
        elif a == "inplace":
            with torch.no_grad():
                t.params.copy_(self.params_for(t, arg))
        elif a == "reset":
            t.reset_parameters()
        elif a == "grid_":
            t.grid_(self.grids[arg])
        elif a == "condition_":
            if step.get("kw"):
                t.condition_(c=arg)
            else:
                t.condition_(arg)
        elif a == "clear_buffers":
            t.clear_buffers()
        elif a == "inverse":
            link = arg.startswith("link")
            ub = arg.endswith("ub")
            if link and ub and arg == "link+ub" and step.get("via_inv", False):
                self.objs[new] = t.inv
            else:
                self.objs[new] = t.inverse(link=link, update_buffers=ub)
        elif a == "data":
            self.objs[new] = t.data(self.params_for(t, arg))
        elif a == "grid":
            self.objs[new] = t.grid(self.grids[arg])
        elif a == "condition":
            self.objs[new] = t.condition(c=arg) if step.get("kw") else t.condition(arg)
        elif a == "deepcopy":
            self.objs[new] = _copy.deepcopy(t)
        else:
            raise ValueError(f"unknown action {a}")
        if new and not isinstance(self.objs.get(new), type(t)):
            got = type(self.objs.get(new)).__name__
            del self.objs[new]
            raise TypeError(f"{a}() returned a {got} instead of a new {type(t).__name__}")
        return None

    def check_grid(self, step: Dict[str, Any]) -> Optional[str]:
        """After grid_/grid the object must report the requested grid (incl. align_corners)."""
        if step["a"] == "grid_":
            t = self.objs[step["o"]]
        elif step["a"] == "grid":
            t = self.objs[step["new"]]
        else:
            return None
        g = self.grids[step["arg"]]
        if not (t.grid() == g and t.grid().align_corners() == g.align_corners()):
            return f"after {step['a']}({step['arg']}) the transform reports grid {t.grid()!r}"
        return None
