"""Affine vector fields on sample lattices (shared by C10, C11, C13)."""
from __future__ import annotations

import math
from typing import Any, Dict, List

import torch

from .rat import F, fl

FLOW_CFG = """SPECIFICATION Spec
CONSTANTS
  Shapes <- {T}Shapes
  Fields <- {T}Fields
  Scales <- QScales
  Steps <- QSteps
  Terms <- QTerms
  RepGrids <- {T}RepGrids
  WorldVecs <- {T}WorldVecs
  EmitCases = {emit}
{inv}CONSTRAINT Emit
"""


def lattice(n: List[int], ac: bool, dtype=torch.float64) -> torch.Tensor:
    """Cube coordinates of the samples of a grid with size n = (nx, ny[, nz]); shape (..., Y, X, D)."""
    from deepali.core.grid import Grid

    return Grid(size=n, align_corners=ac).coords(align_corners=ac, dtype=dtype)


def affine_field(n: List[int], ac: bool, A, t, dtype=torch.float64) -> torch.Tensor:
    """Samples of v(x) = A x + t as tensor (1, D, ..., X)."""
    co = lattice(n, ac, dtype)
    D = len(n)
    A = torch.tensor(fl(F(A)) if not isinstance(A, torch.Tensor) else A, dtype=dtype)
    t = torch.tensor(fl(F(t)) if not isinstance(t, torch.Tensor) else t, dtype=dtype)
    v = co.reshape(-1, D) @ A.T + t
    return v.reshape(co.shape).movedim(-1, 0).unsqueeze(0).contiguous()


def oriented_grid(n: List[int], ac: bool):
    from deepali.core.grid import Grid

    D = len(n)
    a = math.radians(25)
    R = [[math.cos(a), -math.sin(a)], [math.sin(a), math.cos(a)]] if D == 2 else [[math.cos(a), -math.sin(a), 0], [math.sin(a), math.cos(a), 0], [0, 0, 1]]
    return Grid(size=n, spacing=[1.5, 0.75, 2.0][:D], center=[3.0, -2.0, 1.0][:D], direction=R, align_corners=ac)


def interior(n: List[int], margin: int) -> tuple:
    """Index tuple selecting samples at least `margin` away from the border (tensor layout (..., Y, X))."""
    return tuple(slice(margin, s - margin) for s in reversed(n))
