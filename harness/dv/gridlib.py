"""Build deepali objects from the records the Grid specifications emit."""
from __future__ import annotations

import warnings
from fractions import Fraction
from typing import Any, Dict, List

warnings.filterwarnings("ignore")

import torch  # noqa: E402

from .rat import F, fl  # noqa: E402

GRID_CFG_COMMON = """SPECIFICATION Spec
CONSTANTS
  Dims = {dims}
  RotsOf <- {t}RotsOf
  SizesOf <- {t}SizesOf
  SpacingsOf <- {t}SpacingsOf
  CentersOf <- {t}CentersOf
  OthersOf <- {t}OthersOf
  ProbesOf <- ProbesDef
  Pairs <- AllPairs
  EmitCases = {emit}
"""


def mk_grid(rec: Dict[str, Any]):
    """deepali Grid from a spec grid record [n, h, c, R, ac] (rationals as [num, den])."""
    from deepali.core.grid import Grid

    return Grid(
        size=rec["n"],
        spacing=fl(F(rec["h"])),
        center=fl(F(rec["c"])),
        direction=fl(F(rec["R"])),
        align_corners=bool(rec["ac"]),
    )


def grid_sig(rec: Dict[str, Any]) -> Dict[str, Any]:
    R = F(rec["R"])
    D = len(rec["n"])
    ident = all(R[i][j] == (1 if i == j else 0) for i in range(D) for j in range(D))
    return dict(D=D, ac=bool(rec["ac"]), rotated=not ident)


def frac_mat_vec(M: List[List[Fraction]], v: List[Fraction]) -> List[Fraction]:
    return [sum((M[i][j] * v[j] for j in range(len(v))), Fraction(0)) for i in range(len(M))]
