"""dv - deepali verification harness (TLA+/TLC model-based verification).

Binds the TLA+ specifications under /verif/spec to the implementation in /repo/src.
"""
