"""Check context: verdicts, known findings, replay files, evidence."""
from __future__ import annotations

import hashlib
import json
import os
import sys
import time
import traceback
from fractions import Fraction
from pathlib import Path
from typing import Any, Dict, List, Optional

from . import tlc as _tlc
from .tlc import MachineryError, TLCResult, VERIF

EVIDENCE_DIR = VERIF / "evidence"
REPLAY_DIR = VERIF / "replay"
FINDINGS_FILE = VERIF / "known_findings.json"
EVIDENCE_SCHEMA = Path("/root/.vp/EVIDENCE.schema.json")


def load_findings(prop: str) -> List[dict]:
    if not FINDINGS_FILE.exists():
        return []
    data = json.loads(FINDINGS_FILE.read_text())
    return [f for f in data.get("findings", []) if f.get("property") == prop and f.get("status") == "finding"]


def _match(sig: dict, pattern: dict) -> bool:
    for k, v in pattern.items():
        if k.endswith("__contains"):  # the signature's list-valued key must contain the given element
            lst = sig.get(k[: -len("__contains")])
            if not isinstance(lst, list) or v not in lst:
                return False
            continue
        if k not in sig:
            return False
        sv = sig[k]
        if isinstance(v, list) and not isinstance(sv, list):
            if sv not in v:
                return False
        elif sv != v:
            return False
    return True


def jsonable(x: Any) -> Any:
    import numbers

    if isinstance(x, Fraction):
        return [x.numerator, x.denominator]
    if isinstance(x, dict):
        return {str(k): jsonable(v) for k, v in x.items()}
    if isinstance(x, (list, tuple)):
        return [jsonable(v) for v in x]
    if isinstance(x, (str, bool)) or x is None:
        return x
    if isinstance(x, numbers.Integral):
        return int(x)
    if isinstance(x, numbers.Real):
        return float(x)
    try:
        import torch

        if isinstance(x, torch.Tensor):
            return x.detach().cpu().tolist()
    except Exception:
        pass
    return repr(x)


class Ctx:
    def __init__(self, prop: str, tier: str, seed: int):
        self.prop = prop
        self.tier = tier
        self.seed = seed
        self.t0 = time.time()
        self.findings = load_findings(prop)
        self.violations: List[dict] = []
        self.known: Dict[str, int] = {}
        self.states = 0
        self.transitions = 0
        self.traces = 0
        self.evaluations = 0
        self.distinct: set = set()
        self.samples: List[Any] = []
        self.notes: Dict[str, Any] = {}
        self.assumptions: List[str] = []
        self.tlc_runs: List[dict] = []
        self.exhaustive = False
        self.rule = ""
        self.max_reported = 25

    # ------------------------------------------------------------------ TLC
    def tlc(self, module: str, cfg: str, *, label: str = "", must_pass: bool = True, **kw) -> TLCResult:
        kw.setdefault("seed", self.seed)
        res = _tlc.run_tlc(module, cfg, **kw)
        self.states += res.distinct
        self.transitions += res.generated
        self.tlc_runs.append(
            dict(module=module, label=label, distinct=res.distinct, generated=res.generated,
                 depth=res.depth, wall_s=round(res.wall_s, 2), ok=res.ok)
        )
        if must_pass and not res.ok:
            raise MachineryError(
                f"TLC reports an error on the MODEL {module} [{label}] (a law fails on the specification "
                f"or the specification is broken):\n{res.error}"
            )
        return res

    # ------------------------------------------------------------ accounting
    def count(self, key: Any = None, nontrivial: bool = True, n: int = 1) -> None:
        self.evaluations += n
        if key is not None and nontrivial:
            self.distinct.add(key if isinstance(key, (str, int, tuple)) else json.dumps(jsonable(key), sort_keys=True))

    def sample(self, s: Any, limit: int = 6) -> None:
        if len(self.samples) < limit:
            self.samples.append(jsonable(s))

    # -------------------------------------------------------------- verdicts
    def violation(self, signature: dict, what: str, case: Any = None) -> None:
        """Report that the implementation disagrees with the specification."""
        signature = jsonable(signature)
        for f in self.findings:
            if _match(signature, f.get("match", {})):
                key = f.get("id") or json.dumps(f["match"], sort_keys=True)
                self.known[key] = self.known.get(key, 0) + 1
                if self.known[key] == 1:
                    f["_hit"] = True
                return
        self.violations.append(dict(signature=signature, what=what, case=jsonable(case)))

    def check_close(self, got: float, exp: Fraction | float, tol: float) -> bool:
        return abs(float(got) - float(exp)) <= tol

    # ---------------------------------------------------------------- finish
    def finish(self) -> int:
        wall = time.time() - self.t0
        for f in self.findings:
            if f.get("_hit"):
                key = f.get("id") or json.dumps(f["match"], sort_keys=True)
                print(f"KNOWN-FINDING: property={self.prop} {f.get('what', key)} [{key}; {self.known.get(key, 0)} case(s)]")
        stale = [f.get("id") for f in self.findings if not f.get("_hit") and self.tier_applies(f)]
        if stale:
            self.notes["findings_not_reproduced_this_run"] = stale
        nv = len(self.violations)
        if nv:
            REPLAY_DIR.mkdir(exist_ok=True)
            # group by signature
            seen = set()
            shown = 0
            for v in self.violations:
                sk = json.dumps(v["signature"], sort_keys=True)
                if sk in seen:
                    continue
                seen.add(sk)
                if shown >= self.max_reported:
                    continue
                shown += 1
                h = hashlib.sha1(sk.encode()).hexdigest()[:10]
                path = REPLAY_DIR / f"{self.prop}-{h}.json"
                path.write_text(json.dumps(dict(property=self.prop, tier=self.tier, seed=self.seed, **v), indent=1))
                print(f"VIOLATION property={self.prop} replay={path}")
                print(f"  what: {v['what']}")
                print(f"  signature: {sk}")
            if len(seen) > shown:
                print(f"  ... and {len(seen) - shown} more distinct signatures")
        self.write_evidence(wall, nv)
        return 1 if nv else 0

    def tier_applies(self, f: dict) -> bool:
        t = f.get("tiers")
        return t is None or self.tier in t

    def write_evidence(self, wall: float, nv: int) -> None:
        EVIDENCE_DIR.mkdir(exist_ok=True)
        cov = dict(
            states=max(self.states, 0),
            transitions=max(self.transitions, 0),
            traces_validated_against_impl=self.traces,
            samples=self.samples or [{"note": "no sample recorded"}],
            evaluations=self.evaluations,
            distinct_nontrivial=len(self.distinct),
            rule=self.rule,
            exhaustive=self.exhaustive,
            tlc_runs=self.tlc_runs,
            known_findings_hit=self.known,
        )
        cov.update(self.notes)
        ev = dict(
            property_id=self.prop,
            tier=self.tier,
            seed=self.seed,
            level="model_checking",
            coverage=cov,
            assumptions=self.assumptions,
            wall_s=round(wall, 2),
            violations=nv,
        )
        path = EVIDENCE_DIR / f"{self.prop}.json"
        path.write_text(json.dumps(ev, indent=1))
        validate_evidence(path)


def validate_evidence(path: Path) -> None:
    """Validate with jsonschema from the tooling venv (not installed in /venv)."""
    import shutil
    import subprocess

    exe = shutil.which("python3-vt")
    if exe is None or not EVIDENCE_SCHEMA.exists():
        return
    code = (
        "import json,sys,jsonschema;"
        "jsonschema.validate(json.load(open(sys.argv[1])), json.load(open(sys.argv[2])))"
    )
    p = subprocess.run([exe, "-c", code, str(path), str(EVIDENCE_SCHEMA)], capture_output=True, text=True)
    if p.returncode != 0:
        raise MachineryError(f"evidence file {path} does not validate: {p.stderr[-800:]}")


def run_check(prop: str, tier: str, seed: int, fn) -> int:
    ctx = Ctx(prop, tier, seed)
    try:
        fn(ctx)
        rc = ctx.finish()
    except MachineryError as ex:
        print(f"MACHINERY-ERROR property={prop}: {ex}", file=sys.stderr)
        return 2
    except Exception:
        traceback.print_exc()
        print(f"MACHINERY-ERROR property={prop}: unexpected exception in harness", file=sys.stderr)
        return 2
    print(f"{prop} {tier}: exit {rc}; states={ctx.states} transitions={ctx.transitions} "
          f"cases={ctx.evaluations} distinct={len(ctx.distinct)} traces={ctx.traces} "
          f"known={sum(ctx.known.values())} wall={time.time() - ctx.t0:.1f}s")
    return rc
