"""Exact rationals <-> the JSON the specifications emit ([num, den])."""
from __future__ import annotations

from fractions import Fraction
from typing import Any


def is_rat(x: Any) -> bool:
    return isinstance(x, list) and len(x) == 2 and all(isinstance(v, int) and not isinstance(v, bool) for v in x)


def F(x: Any) -> Any:
    """Convert nested lists of [num, den] into nested lists of Fraction.

    A list of exactly two ints is read as a rational; the specifications never emit bare integer
    pairs in positions that go through this function.
    """
    if is_rat(x):
        return Fraction(x[0], x[1])
    if isinstance(x, list):
        return [F(v) for v in x]
    if isinstance(x, dict):
        return {k: F(v) for k, v in x.items()}
    return x


def fl(x: Any) -> Any:
    """Nested Fractions -> nested floats (correctly rounded division)."""
    if isinstance(x, Fraction):
        return x.numerator / x.denominator
    if isinstance(x, (list, tuple)):
        return [fl(v) for v in x]
    return x


def J(x: Any) -> Any:
    """Nested Fractions -> JSON [num, den]."""
    if isinstance(x, Fraction):
        return [x.numerator, x.denominator]
    if isinstance(x, (list, tuple)):
        return [J(v) for v in x]
    if isinstance(x, dict):
        return {k: J(v) for k, v in x.items()}
    return x


def maxabs(x: Any) -> float:
    if isinstance(x, Fraction):
        return abs(float(x))
    if isinstance(x, (int, float)):
        return abs(float(x))
    if isinstance(x, (list, tuple)):
        return max([maxabs(v) for v in x] or [0.0])
    return 0.0
