"""Validate recorded traces (code -> spec) with a Trace_*.tla specification."""
from __future__ import annotations

import json
import re
import shutil
import tempfile
from pathlib import Path
from typing import Any, Dict, List, Tuple

from .core import Ctx
from .tlc import MachineryError


def micro(x: float) -> int:
    v = int(round(float(x) * 1_000_000))
    if abs(v) >= 2_000_000_000:
        raise OverflowError("value too large for micro-units")
    return v


def validate(ctx: Ctx, module: str, cfg: str, traces: List[List[dict]], *, label: str = "trace",
             max_retries: int = 12, timeout: int = 1800, all_rejections: bool = False) -> Tuple[Dict[int, Any], int]:
    """Run the trace spec over `traces` (each a list of events, first event 'start').

    Returns ({tid: (line, clause)} for rejected traces, number of traces actually validated).
    TLC arithmetic overflow (32-bit) never produces a verdict: the trace being processed is dropped
    and validation is re-run; dropped traces are reported in the evidence.
    """
    active = {i: t for i, t in enumerate(traces)}
    dropped: List[int] = []
    for attempt in range(max_retries):
        scratch = Path(tempfile.mkdtemp(prefix="dvtrace_"))
        try:
            f = scratch / "trace.ndjson"
            line_tid: List[int] = []
            with f.open("w") as fh:
                for tid, t in active.items():
                    for ev in t:
                        ev = dict(ev)
                        ev["tid"] = tid
                        fh.write(json.dumps(ev) + "\n")
                        line_tid.append(tid)
            if not line_tid:
                return {}, 0
            res = ctx.tlc(module, cfg, label=f"{label}#{attempt}", must_pass=False, workers=1,
                          env={"TRACE_FILE": str(f)}, timeout=timeout)
            if res.ok:
                rej = {}
                rep = [json.loads(s) for s in res.lines if s.startswith("{") and '"rejected"' in s]
                if not rep:
                    raise MachineryError(f"{module}: trace validation produced no report")
                for r in rep[-1]["rejected"]:
                    if all_rejections:
                        rej.setdefault(int(r[0]), []).append((int(r[1]), r[2]))
                    else:
                        rej[int(r[0])] = (int(r[1]), r[2])
                if rep[-1]["lines"] != len(line_tid):
                    raise MachineryError(f"{module}: trace spec consumed {rep[-1]['lines']} of {len(line_tid)} lines")
                ctx.notes.setdefault("traces_dropped_for_overflow", 0)
                ctx.notes["traces_dropped_for_overflow"] += len(dropped)
                return rej, len(active)
            err = res.error or ""
            if "verflow" in err or "out of range" in err.lower():
                # find the line being processed: the error prints the state with l = <n>
                m = re.findall(r"\bl = (\d+)", res.stdout)
                if not m:
                    raise MachineryError(f"{module}: overflow without a position:\n{err[:800]}")
                lno = int(m[-1])
                tid = line_tid[min(lno, len(line_tid)) - 1]
                dropped.append(tid)
                del active[tid]
                continue
            raise MachineryError(f"{module}: trace validation failed to run:\n{err[:1500]}")
        finally:
            shutil.rmtree(scratch, ignore_errors=True)
    raise MachineryError(f"{module}: too many arithmetic overflows in trace validation ({len(dropped)} traces dropped)")
