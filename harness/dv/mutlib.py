"""Method-surface sweep for C15: call every deepali-defined public method of the object classes with generated arguments
and compare a full projection of the receiver (and of every tensor argument) before and after."""
from __future__ import annotations

import inspect
import itertools
from typing import Any, Callable, Dict, List, Tuple

import torch
from torch import Tensor

MUTATORS = {"reset_parameters", "update", "clear_buffers", "register_update_hook", "remove_update_hook", "fit", "load_state_dict", "train", "eval",
            "requires_grad_", "zero_grad"}
SKIP = {"write", "to_uri", "read", "from_uri", "from_file", "from_reader", "from_sitk", "sitk", "extra_repr", "forward", "fit"}


def gstate(g) -> tuple:
    return (tuple(g.size()), tuple(round(float(x), 6) for x in g.numpy().reshape(-1)), bool(g.align_corners()))


def project(o) -> Dict[str, Any]:
    """Observable state of a receiver as {field: comparable}."""
    from deepali.core.cube import Cube
    from deepali.core.grid import Grid
    from deepali.data.flow import FlowField, FlowFields
    from deepali.data.image import Image, ImageBatch

    if isinstance(o, Grid):
        return {"grid": gstate(o)}
    if isinstance(o, Cube):
        return {"cube": tuple(round(float(x), 6) for x in o.numpy().reshape(-1))}
    if isinstance(o, (Image, ImageBatch)):
        t = o.tensor()
        st = {"data": (t.detach().clone(), t._version), "requires_grad": t.requires_grad, "dtype": str(t.dtype)}
        st["grid"] = tuple(gstate(g) for g in o.grids()) if isinstance(o, ImageBatch) else gstate(o.grid())
        if isinstance(o, (FlowField, FlowFields)):
            st["axes"] = str(o.axes())
        return st
    if isinstance(o, torch.nn.Module):
        st: Dict[str, Any] = {}
        for n, p in o.named_parameters():
            st[f"param:{n}"] = (p.detach().clone(), p._version, id(p), p.requires_grad)
        for n, b in o.named_buffers():
            st[f"buffer:{n}"] = (b.detach().clone(), b._version)
        st["modules"] = tuple((n, id(m)) for n, m in o.named_modules())
        st["training"] = o.training
        # plain configuration attributes (flags, numbers, strings) of the receiver and of its submodules: a submodule may be SHARED with a copy, so a
        # setter that writes such an attribute in place changes the receiver too (e.g. the align_corners flag of an exponential-map module)
        for mn, m in o.named_modules():
            for an, av in vars(m).items():
                if an.startswith("_") and an not in ("_align_corners", "_stride", "_resize"):
                    continue
                if isinstance(av, (bool, int, float, str)) and an != "training":
                    st[f"attr:{mn}.{an}" if mn else f"attr:{an}"] = av
        if hasattr(o, "grid"):
            st["grid"] = gstate(o.grid())
        if hasattr(o, "condition"):
            try:
                c = o.condition()
                st["condition"] = repr(c)
            except Exception:
                pass
        for n in ("params",):
            if hasattr(o, n):
                p = getattr(o, n)
                st["params_kind"] = (type(p).__name__, id(p) if isinstance(p, Tensor) else repr(p)[:40])
        return st
    raise TypeError(type(o))


def same(a, b) -> bool:
    if isinstance(a, tuple) and isinstance(b, tuple) and len(a) == len(b):
        return all(same(x, y) for x, y in zip(a, b))
    if isinstance(a, Tensor) and isinstance(b, Tensor):
        return a.shape == b.shape and a.dtype == b.dtype and bool(torch.equal(a, b) or ((a == b) | (torch.isnan(a) & torch.isnan(b))).all())
    return type(a) == type(b) and a == b


def diff(before: Dict[str, Any], after: Dict[str, Any]) -> List[str]:
    # a derived buffer that was only DROPPED is a cleared cache (recomputed on demand by update()); whether behaviour is
    # unaffected is decided by the 'behaviour' probe (disp() before/after), not by the presence of the cache entry
    out = [k for k in before if (k not in after and not k.startswith("buffer:")) or (k in after and not same(before[k], after[k]))]
    out += [k for k in after if k not in before]
    return sorted(out)


def behaviour(o):
    """Behaviour probe of a transform: its displacement field on its own grid (None for other receivers)."""
    if isinstance(o, torch.nn.Module) and hasattr(o, "disp"):
        try:
            with torch.no_grad():
                return o.disp().detach().clone()
        except Exception:
            return None
    return None


# ------------------------------------------------------------------------------------------------ receivers
def receivers(D: int) -> Dict[str, Callable[[], Any]]:
    import deepali.spatial as S
    from deepali.core.cube import Cube
    from deepali.core.grid import Axes
    from deepali.core.grid import Grid
    from deepali.data.flow import FlowField, FlowFields
    from deepali.data.image import Image, ImageBatch

    size = (6, 5) if D == 2 else (6, 5, 4)
    sp = tuple(reversed(size))

    def G(ac=True):
        return Grid(size=size, spacing=(1.0, 0.5, 2.0)[:D], center=(1.0, -2.0, 0.5)[:D], align_corners=ac)

    def data(c, seed=0):
        return torch.rand(c, *sp, generator=torch.Generator().manual_seed(seed + D)) + 0.25

    def tf(cls, **kw):
        def make():
            t = cls(G(), **kw)
            with torch.no_grad():
                for i, p in enumerate(t.parameters()):
                    p.add_(0.01 * (1 + i) * torch.arange(p.numel(), dtype=p.dtype).reshape(p.shape) / max(1, p.numel()))
            return t
        return make

    out: Dict[str, Callable[[], Any]] = {
        "Grid": G, "Grid:ac0": lambda: G(False), "Cube": lambda: Cube(extent=(4.0, 3.0, 2.0)[:D], center=(1.0, -2.0, 0.5)[:D]),
        "Image": lambda: Image(data(2), G()), "ImageBatch": lambda: ImageBatch(data(2).unsqueeze(0).repeat(2, 1, 1, *([1] * (D - 1))), [G(), G().center(0)]),
        "FlowField:world": lambda: FlowField(data(D) * 0.1, G(), Axes.WORLD), "FlowField:cube": lambda: FlowField(data(D) * 0.1, G(), Axes.CUBE_CORNERS),
        "FlowField:grid": lambda: FlowField(data(D) * 0.1, G(), Axes.GRID), "FlowField:cube0": lambda: FlowField(data(D) * 0.1, G(False), Axes.CUBE),
        "FlowFields:cube": lambda: FlowFields(data(D).unsqueeze(0) * 0.1, G(), Axes.CUBE_CORNERS),
    }
    for name in ("Translation", "EulerRotation", "IsotropicScaling", "AnisotropicScaling", "Shearing", "RigidTransform", "AffineTransform",
                 "HomogeneousTransform", "DisplacementFieldTransform", "StationaryVelocityFieldTransform", "FreeFormDeformation",
                 "StationaryVelocityFreeFormDeformation", "QuaternionRotation", "RigidQuaternionTransform", "FullAffineTransform", "SimilarityTransform"):
        cls = getattr(S, name, None)
        if cls is None or (D == 2 and "Quaternion" in name):
            continue
        out[name] = tf(cls)
    out["Translation:tensor"] = tf(S.Translation, params=False)

    def seq():
        a, b = tf(S.Translation)(), tf(S.DisplacementFieldTransform)()
        return S.SequentialTransform(a, b)
    out["SequentialTransform"] = seq

    def linked():
        a = tf(S.DisplacementFieldTransform)()
        b = S.DisplacementFieldTransform(G()).link_(a)
        b._keepalive = a
        return b
    out["DisplacementFieldTransform:linked"] = linked
    return out


def arg_candidates(kind: str, meth: str, pname: str, D: int, recv) -> List[Any]:
    from deepali.core.cube import Cube
    from deepali.core.grid import Axes
    from deepali.core.grid import Grid
    from deepali.data.flow import FlowFields
    from deepali.data.image import Image

    g = torch.Generator().manual_seed(len(meth) * 7 + len(pname) + D)
    base = kind.split(":")[0]
    size = (6, 5) if D == 2 else (6, 5, 4)
    sp = tuple(reversed(size))
    G2 = Grid(size=tuple(s + 1 for s in size), spacing=(0.5, 1.0, 1.0)[:D], center=(0.0, 1.0, 0.5)[:D])
    vec = torch.rand(D, generator=g) + 0.5
    pts = torch.rand(1, 4, D, generator=g) - 0.5
    if pname == "arg":
        if meth.startswith(("center", "origin")):
            return [vec.clone(), tuple(float(x) for x in vec)]
        if meth.startswith(("spacing", "extent")):
            return [vec.clone(), 0.75]
        if meth.startswith("direction"):
            m = torch.eye(D)
            m[0, 0] = -1.0
            return [m]
        if meth.startswith("align_corners"):
            return [not recv.align_corners()]
        if meth.startswith("data"):
            return [recv.data().detach().clone() + 0.5] if hasattr(recv, "data") and callable(recv.data) else []
        if meth.startswith("matrix"):
            return [recv.matrix().detach().clone()]
        if meth.startswith("offset"):
            return [recv.offset().detach().clone() + 0.5]
        if meth == "sample":
            return [G2, G2.coords().unsqueeze(0)]
        if meth == "apply_transform":
            return [pts]
        return [vec.clone()]
    if pname == "other":
        if base == "Grid":
            return [G2]
        if base in ("Image",):
            return [Image(torch.zeros(1, *sp), recv.grid())]
        if isinstance(recv, torch.nn.Module):
            return [receivers(D)[kind.split(":")[0]]()]
    table = {
        "grid": [G2, G2.align_corners(not G2.align_corners())], "to_grid": [G2], "to_cube": [Cube(extent=(2.0, 3.0, 4.0)[:D])], "size": [tuple(s + 2 for s in size), 4], "shape": [tuple(s + 1 for s in sp)],
        "spacing": [0.75, vec.clone()], "levels": [1, 2], "dims": [(0,)], "margin": [1], "num": [1], "kernel_size": [2], "stride": [2], "padding": [1, "border", 0.5],
        "mode": ["nearest", "linear", "replicate", "unit", "center", "forward_central_differences"], "value": [0.5], "min": [0.1], "max": [0.9],
        "kernel": [torch.tensor([0.25, 0.5, 0.25])], "sigma": [1.0], "points": [pts], "vectors": [pts.clone()], "coords": [pts.clone()], "indices": [pts.clone() + 2],
        "input": [pts.clone()], "axes": list(Axes), "to_axes": list(Axes), "image": [Image(torch.rand(1, *sp, generator=g), Grid(size=size))],
        "link": [True], "update_buffers": [True], "dim": [0, 1, 2], "start": [1, torch.ones(D, dtype=torch.int)], "length": [2], "i": [0], "decimals": [2, None],
        "align_corners": [True, False], "channels_last": [False], "flip": [True], "center": [True], "normalize": [False], "scale": [0.5], "steps": [2],
        "sampling": ["nearest"], "name": [0], "min_size": [2], "ceil_mode": [True], "count_include_pad": [False], "vectors_": [], "resize": [True, False],
        "data_min": [0.0], "data_max": [2.0], "dtype": [torch.float64], "device": ["cpu"], "which": ["forward"], "inverse": [True], "dilation": [1],
        "flow": [FlowFields(torch.zeros(1, D, *sp), Grid(size=size))], "origin": [True], "sdim": [0],
    }
    if pname == "vectors" and meth in ("transform", "inverse_transform", "apply_transform"):
        return [True]
    return table.get(pname, [])


def method_catalogue(cls) -> List[Tuple[str, Any]]:
    out = []
    for n in dir(cls):
        if n.startswith("_") or n in SKIP:
            continue
        f = inspect.getattr_static(cls, n)
        if isinstance(f, (staticmethod, classmethod)):
            continue
        if isinstance(f, property):
            mod = getattr(f.fget, "__module__", "") or ""
            if mod.startswith("deepali"):
                out.append((n, None))
            continue
        mod = getattr(f, "__module__", "") or ""
        if not mod.startswith("deepali") or not callable(f):
            continue
        try:
            out.append((n, inspect.signature(f)))
        except (TypeError, ValueError):
            pass
    return out


def plans(kind: str, meth: str, sig, D: int, recv) -> List[Tuple[tuple, dict, str]]:
    """Argument plans: required-only call, then each optional parameter alone with each candidate value."""
    if sig is None:
        return [((), {}, "property")]
    ps = list(sig.parameters.values())[1:]
    req = [p for p in ps if p.default is inspect._empty and p.kind in (p.POSITIONAL_OR_KEYWORD, p.POSITIONAL_ONLY)]
    opt = [p for p in ps if p.default is not inspect._empty and p.kind in (p.POSITIONAL_OR_KEYWORD, p.KEYWORD_ONLY)]
    var = [p for p in ps if p.kind == p.VAR_POSITIONAL]
    out: List[Tuple[tuple, dict, str]] = []
    vecf = tuple(float(x) for x in (1.5, -0.5, 2.0)[:D])
    if var and not req:
        special = {"center": [(), vecf, (torch.tensor(vecf),)], "origin": [(), vecf], "extent": [(), vecf], "direction": [(), (torch.eye(D).flip(0),)],
                   "crop": [(1,) * D, (1,) * (2 * D)], "pad": [(1,) * D], "condition": [(), (torch.ones(1, 2),)], "condition_": [(torch.ones(1, 2),)],
                   "region_of_interest": [((1,) * D, (3,) * D)]}
        for a in special.get(meth, [()]):
            out.append((tuple(a), {}, f"args={len(a)}"))
        if meth in ("crop", "pad"):
            out += [((), {"margin": 1}, "margin"), ((), {"num": 1}, "num")]
        return out
    cands = [arg_candidates(kind, meth, p.name, D, recv) for p in req]
    if any(len(c) == 0 for c in cands):
        return []
    for combo in itertools.islice(itertools.product(*cands), 6):
        out.append((tuple(combo), {}, "required"))
        if req and combo and var and isinstance(combo[0], (int, float)) and meth in ("center_crop", "center_pad", "resize", "reshape", "resample"):
            pass
    first = tuple(c[0] for c in cands)
    for p in opt:
        for v in arg_candidates(kind, meth, p.name, D, recv)[:4]:
            if v is p.default or (isinstance(v, (bool, int, float, str)) and v == p.default):
                continue
            out.append((first, {p.name: v}, f"{p.name}={str(v)[:20]}"))
    return out


def snapshot_args(args: tuple, kwargs: dict) -> Dict[str, Any]:
    snap = {}
    for k, v in list(enumerate(args)) + list(kwargs.items()):
        if isinstance(v, Tensor):
            snap[f"arg:{k}"] = (v.detach().clone(), v._version)
        elif hasattr(v, "numpy") and hasattr(v, "align_corners"):
            snap[f"arg:{k}"] = gstate(v)
    return snap


def current_args(args: tuple, kwargs: dict) -> Dict[str, Any]:
    return snapshot_args(args, kwargs)


def sweep(Ds=(2, 3), kinds=None) -> Tuple[List[dict], Dict[str, int]]:
    """Events {call, recv, D, plan, written, allowed} for every executed method call."""
    events: List[dict] = []
    stats = {"methods": 0, "executed_methods": 0, "calls": 0, "failed_calls": 0}
    for D in Ds:
        rec = receivers(D)
        for kind, make in rec.items():
            if kinds and kind.split(":")[0] not in kinds:
                continue
            proto = make()
            for meth, sig in method_catalogue(type(proto)):
                stats["methods"] += 1
                ok = False
                for args, kwargs, label in plans(kind, meth, sig, D, proto):
                    o = make()
                    try:  # warm up lazily computed buffers so that only the call under test is observed
                        if isinstance(o, torch.nn.Module) and hasattr(o, "update"):
                            o.update()
                    except Exception:
                        pass
                    before = project(o)
                    probe0 = behaviour(o)
                    abefore = snapshot_args(args, kwargs)
                    try:
                        if sig is None:
                            getattr(o, meth)
                        else:
                            getattr(o, meth)(*args, **kwargs)
                    except Exception:
                        stats["failed_calls"] += 1
                        continue
                    ok = True
                    stats["calls"] += 1
                    mut = meth.endswith("_") or meth in MUTATORS or meth.startswith(("register_", "remove_"))
                    written = ["self." + k for k in diff(before, project(o))] + diff(abefore, current_args(args, kwargs))
                    if not mut and probe0 is not None:
                        probe1 = behaviour(o)
                        if probe1 is None or not same(probe0, probe1):
                            written.append("self.behaviour")
                    allowed = sorted({w for w in written if w.startswith("self.")}) if mut else []
                    events.append(dict(call=f"{type(o).__name__}.{meth}", recv=kind, D=D, plan=label, written=written, allowed=allowed))
                stats["executed_methods"] += int(ok)
    return events, stats
