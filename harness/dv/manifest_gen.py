"""Regenerate /verif/MANIFEST.json from the table below (keeps it valid at all times)."""
from __future__ import annotations

import json
from pathlib import Path

VERIF = Path(__file__).resolve().parents[2]

# coverage added by the coverage-guided pass (DESIGN.md 10.5) and after round 5 of the seeded changes (10.3)
ADDED5 = {
    "C15": "mask / weight tensors of four dtypes in the write-set sweep",
    "C14": "subdivision along named axes",
    "C01": "cube-to-cube maps, module-level grid_*/cube_* functions, Grid/Cube equality, Cube constructors, anchor laws incl. one-sample axes, matrix-level path independence, argument-less transform()/inverse_transform()",
    "C02": "integer index arrays through GridAttrs against ITK's integer-index API, varargs setters",
    "C03": "argument forms of resample (min/max, positional), pad/crop (sequence, margin=int, zero)",
    "C04": "convolution (four kernel forms, same / explicit-margin padding), argument forms of the image operations, selections along the batch dimension",
    "C05": "dict / data= / mask= input forms and align_centers of the sampling modules, nearest mode named in every way",
    "C06": "transformer defaults, DisplacementFieldTransform.fit, generic transform with dict / predicted parameters",
    "C08": "operand chains of length 3 and 4, Euler angles of integer dtype / Python numbers",
    "C09": "coarse-parameter displacement fields with fit() bound to the set-data action; scripted inverse histories of the generic transform with predicted parameters",
    "C10": "broadcasting forms of warp_image / sample_flow / warp_grid, default axes follow the grid's flag",
    "C11": "tensor-valued scale and module re-use after inverse",
    "C12": "Curl module, integer-typed fields",
    "C13": "one spacing row per field",
    "C16": "LCC/WLCC/NCC/MI/NMI modules against the functional forms, target / weight forms of the Tversky family, absent classes, explicit norm with images",
    "C17": "inverse consistency with masks of any non-zero values / integer margin / sum, GradLoss(q=None), default grid of inverse_consistency_loss",
    "C18": "reader argument forms (Path, bytes, open file)",
    "C19": "from_images / append / inner ellipsis, item-and-channel selection in one index (selchan), one-item from_images",
    "C20": "rotation-representation conversions, point set distances w.r.t. every point set, coarse dense fields with resize=False",
}

# coverage added after round 4 of the seeded changes (DESIGN.md 10.3), appended to the level text
ADDED4 = {
    "C01": "Cube.from_grid with either align_corners argument; the homogeneous point matrix applied to points and vectors through core.linalg / core.affine",
    "C02": "caller-owned tensor/array arguments (unchanged, reusable), Image/ImageBatch accessors, Image.read of NIfTI files tilted out of the axial plane",
    "C03": "every resize also through Grid.cube().grid(size=/shape=)",
    "C04": "constant paddings of either sign on the sampling route; flow fields of every axes kind sampled on the derived grids",
    "C05": "negative constant padding; TransformImage/AlignImage without transform; own-grid sampling through SampleImage for every axes",
    "C06": "PointSetTransformer given only input grid/axes; data(arg) copies of evaluated transforms",
    "C08": "homogeneous_matrix with offsets for every operand form; small rotation angles around the series-expansion switch (Rodrigues oracle in the harness)",
    "C10": "normalize/denormalize_flow size forms and two-sample axes; FlowField.sitk/from_sitk/write/read with explicit axes",
    "C11": "exponential of fields stored with any axes; SVF inverse displacement buffers by four routes; expv leaves its input unchanged",
    "C12": "B-spline derivatives between the coefficients (stride > 1)",
    "C13": "every finite-difference / Gaussian scheme in the bracket (unit covariance, interior exactness); logv with exp_steps=0; inputs unchanged",
    "C14": "2-D derivative orders up to 2 per axis; spatial_derivatives(mode='bspline') with every spacing form",
    "C15": "tensor-valued options, dimension subsets and ignore_index in the write-set sweep",
    "C16": "Huber/smooth-L1 module norms; patch-wise losses with masks of every dtype",
    "C17": "gradient norms with p in {0,1,3,4} and q in {None,0,1/2,1,2} (CubGrad/QuartGrad/SumGrad in the spec); loss classes with every option on the 'none' map",
    "C18": "chains in which sitk()/from_sitk()/write()/read() name a vector representation",
    "C19": "empty selections along the batch dimension; collation of flow fields with mixed axes",
    "C20": "transforms with predicted parameters; expv(steps=0); gradients w.r.t. the target; the source/logits/data-named losses (NCC, LCC, WLCC, *_with_logits, bspline_bending_loss)",
}

# property -> (engine modules, technique, level text, level note, design ref)
CLAIMED = {
    "C01": (
        "spec/GridDefs.tla, spec/Grid.tla, spec/MC_Grid.tla, spec/GridCoords.tla",
        "TLA+ model of the four coordinate systems in exact rationals; TLC checks the laws on the model and enumerates the "
        "configuration tree; every leaf is replayed into Grid/Cube (spec->code) and random call chains recorded from the code "
        "are validated against Trace_Grid (code->spec)",
        "TLC checks anchors, round trips, path independence, vector = linear part and the sample lattice exactly on the model "
        "(all n in 1..4096 for the per-axis lattice in the thorough tier); the implementation is bound to the model by executing "
        "one test per reachable spec state on every point/vector API of Grid and Cube",
        "trusted: TLC, Rat/RatLA modules, the ~100-line projection in harness/dv/props/c01.py, fixed tolerance policy; rotations "
        "limited to the rational sub-family",
        "DESIGN.md 3 C01",
    ),
    "C02": (
        "spec/GridDefs.tla (section ITK convention), spec/Grid.tla, spec/MC_Grid.tla",
        "TLA+ statement of ITK's index<->physical formulas in exact rationals, independent of the centre-based grid model; TLC checks "
        "they coincide with the grid maps on the lattice; each lattice grid is evaluated three-way: spec / deepali / SimpleITK",
        "every lattice grid (sizes incl. 1, proper rotations, flips, permutations, both construction routes) is checked against the "
        "spec on Grid(origin=|center=), from_seq/from_numpy, from_sitk, Image.sitk/from_sitk, GridAttrs and file headers; SimpleITK "
        "must agree with the spec on every case or the check fails as machinery error also Grid.from_numpy(origin=True) and directly constructed GridAttrs (flat / matrix / nested direction)",
        "trusted: TLC, SimpleITK as the independent reference for the spec, float32 tolerance policy; rational rotations only",
        "DESIGN.md 3 C02",
    ),
    "C03": (
        "spec/GridOps.tla, spec/MC_GridOps.tla, spec/Trace_GridOps.tla",
        "TLA+ state machine of derived-grid operations (constructive definition + world-geometry post-condition per action); "
        "TLC checks all chains up to the depth bound; every chain is replayed on real Grid objects; random recorded call chains "
        "(incl. pyramid, accepted by post-condition) are validated by Trace_GridOps with the hidden float size inferred by the spec",
        "exhaustive over the op lattice for chains up to length 2 (3 in thorough by simulation) from oriented anisotropic base grids "
        "incl. rounding-sensitive ones; an exception on an enabled action is a violation",
        "trusted: TLC, GridOps transcription of the documented semantics (cross-checked by its own post-conditions), projection "
        "(size, spacing, center, origin, direction, align_corners, cube_extent), float32 tolerance policy",
        "DESIGN.md 3 C03",
    ),
    "C04": (
        "spec/Image.tla, spec/MC_Image.tla (on GridOps, GridDefs)",
        "TLA+ image model = GridOps grid + world-linear ramp; lock-step law checked by TLC; every chain of image operations from the state "
        "machine is executed on Image / ImageBatch / batch with two differently placed grids; result grid vs specification, grid shape vs "
        "data shape, data vs ramp at the returned grid's world positions (with a contamination-aware notion of 'inside the field of view'), "
        "plus exact probe values computed by TLC",
        "chains up to length 2 over resize/resample/down/upsample/crop/pad/center crop/pad/narrow/ROI/avg_pool on oriented anisotropic "
        "grids with either align_corners; an exception on an enabled operation is a violation; downsampling also through upsample(-levels); the original image sampled on every derived grid and batches sampled on a shared grid must obey the same ramp law",
        "trusted: TLC, GridOps (bound by C03), ramp exactness under linear interpolation/averaging; pyramid pre-smoothing switched off; "
        "flow-field variants and conv are not exercised here",
        "DESIGN.md 3 C04",
    ),
    "C05": (
        "spec/Resample.tla, spec/MC_Resample.tla (on GridDefs)",
        "TLA+ semantics of resampling with the identity transform in exact rationals (target sample -> continuous source index via the "
        "grid maps, multilinear interpolation, nearest neighbour with open tie rule, zeros/border/constant padding); TLC checks the laws and "
        "emits every target sample's expected value; three-way comparison spec / deepali / SimpleITK.Resample",
        "every sample of every (source image, target grid, padding) case is compared on Image.sample, ImageBatch.sample (shared grid, per-image "
        "grids, mixed source grids, explicit coordinates), sample_image, grid_sample, SampleImage with target points given in each of the four axes; SimpleITK must agree with the spec inside the source hull "
        "or the check fails as machinery error",
        "trusted: TLC, GridDefs (C01/C02), SimpleITK as independent reference; small integer images, rational rotations",
        "DESIGN.md 3 C05",
    ),
    "C06": (
        "spec/Transform.tla, spec/MC_Transform.tla (on GridDefs, Rotations0)",
        "TLA+ meaning function of every linear model and composite as an exact affine map of the cube, its world-space conjugate W and "
        "its expression in any other grid's coordinates; TLC checks the consistency laws and enumerates model x parameter x grid cases; "
        "each case is evaluated through every view of the real object and all views must show the same W",
        "18 model variants (elementary, rigid/similarity/affine/full-affine, generic configurable, explicit sequential, multi-level with 2, 3 and 4 members incl. tensor()) on "
        "oriented anisotropic grids with either align_corners; views: tensor/matrix, call/forward, points() in world and other-grid "
        "coordinates, PointSetTransformer, disp()/flow() on own and other grid, ImageTransformer on two targets, default identity",
        "trusted: TLC, GridDefs (bound by C01), Rotations0 (bound by C08), harness/dv/tform.py; non-rigid models are bound on their exact "
        "families by C09/C11/C14",
        "DESIGN.md 3 C06",
    ),
    "C07": (
        "spec/Transform.tla, spec/TransformState.tla",
        "exact inverse map M^-1 from Transform.tla for every linear model/composite; the real inverse (link x update_buffers x .inv x holder) "
        "must have that matrix, both round trips must be the identity, also after in-place and replacing parameter changes; velocity-field "
        "models through the TransformState histories that create inverses (InverseStaysInverse checked by TLC, histories replayed)",
        "all invertible linear classes and composites on the C06 lattice; SVF/SVFFD histories with inverse(link, update_buffers) up to the "
        "bound plus simulated longer ones; inverse of the inverse and sequences starting with an inverted member",
        "trusted: as C06/C09; the accuracy clause for smooth non-affine velocity fields is not decided (DESIGN section 4)",
        "DESIGN.md 3 C07",
    ),
    "C08": (
        "spec/HForms.tla, spec/MC_HForms.tla, spec/Rotations.tla, spec/MC_Rotations.tla",
        "TLA+ models of the three operand forms of homogeneous transforms (composition = 'apply b then a', result form, batch "
        "broadcasting, vectors ignore translation) and of Euler / quaternion / axis-angle rotations over exact rational cos/sin; TLC "
        "checks the laws and enumerates operand/angle lattices; every case is executed on linalg/affine/_kornia functions and the "
        "rotation transforms' getters and setters, conversions judged in rotation-matrix space",
        "all 9 form pairs x 9 batch-shape pairs x D in {2,3}; the 12 proper orders (27 in thorough) x angle triples from quarter turns "
        "and Pythagorean angles in three order notations, unbatched/batched/homogeneous call forms; axis-angle and quaternions on "
        "rational axes; an exception on a documented form is a violation; EulerRotation getters/setters with tensor, trainable and frozen Parameter holders",
        "trusted: TLC, Rat/RatLA/Rot, float64 atan2 of the rational (cos, sin) pairs in the harness",
        "DESIGN.md 3 C08",
    ),
    "C09": (
        "spec/TransformState.tla, spec/MC_TransformState.tla",
        "TLA+ state machine of buffered transform state (parameter holders, shared parameter tensors of shallow copies, p-buffer "
        "aliasing of links, cached displacement buffers, grid, conditioning, inverse/link creation); TLC checks CallFresh, "
        "DispFreshAfterReplace, InverseStaysInverse, CopiesIndependent on all histories up to the bound and emits each history with the "
        "admissible observations; every history is stepped through real DDF/SVF/FFD/SVFFD objects (versions realised as constant world "
        "displacements); deeper histories from TLC -simulate",
        "exhaustive histories of the 14 public operations up to length 3 (4 thorough) for each kind x holder, plus simulated histories "
        "of length up to 9 (12); an observation outside the admissible set, a wrong grid after grid_/grid, or an exception on an enabled "
        "operation is a violation; the composite kind also with predicted linear members (call observations)",
        "trusted: TLC, the version<->constant-world-displacement encoding (exact for these models), harness/dv/tstate.py; composites "
        "covered by C06/C07",
        "DESIGN.md 3 C09, Appendix A.1",
    ),
    "C10": (
        "spec/Flow.tla (section C10), spec/GridDefs.tla (VecMap), spec/MC_Flow.tla",
        "a flow field is specified by its WORLD vector field; TLC computes its components in the four representations on two grids and "
        "checks invertibility / path independence; the real FlowFields/FlowField objects must convert (16 pairs), resample, warp a ramp image "
        "and exponentiate identically in every representation",
        "world-constant fields on oriented anisotropic 2-D/3-D grids for axes()/sample()/warp_image()/normalize_flow/denormalize_flow and "
        "per-field-grid batches; hull-invariant affine velocity fields for exp() in each representation; batches sampled on per-field target grids",
        "trusted: TLC, GridDefs (C01), the exactness of constant/affine fields under linear interpolation",
        "DESIGN.md 3 C10",
    ),
    "C11": (
        "spec/Flow.tla (section C11), spec/MC_Flow.tla",
        "scaling and squaring as exact affine recursion d -> d + d o (id + d); TLC proves the closed form (I + sH/2^k)^(2^k) and the invariance "
        "of the sample hull in every step for each admitted case, and emits the exact result; expv / ExpFlow / SVF transform / FlowFields.exp "
        "compared at every grid point in float64 and float32; inverse flag decided relationally",
        "all hull-invariant cases of the lattice (2-D/3-D shapes, both align_corners, 5+3 generators (8+5 thorough), scales, steps 0..2); the SVF transform also reached through grid_() from the grid with the other align_corners convention",
        "trusted: TLC, exactness of linear interpolation on affine fields inside the hull; convergence for large k not decided",
        "DESIGN.md 3 C11",
    ),
    "C12": (
        "spec/Deriv.tla, spec/MC_Deriv.tla",
        "polynomial vector fields of degree <= 2 with exact analytic Jacobian, Hessian, divergence, curl and det(I+J) in TLA+; TLC checks that "
        "every finite-difference stencil is exact on its exact index set; flow_derivatives in all 7 schemes, key subsets, mixed-derivative "
        "symmetry, jacobian_dict/matrix/det, divergence and curl are compared with the analytic values",
        "2-D/3-D shapes, isotropic and anisotropic spacing given as scalar / per axis / per batch item (items with different spacing), affine and quadratic fields, batch of 2; B-spline mode with a different stride per axis (a derivative must not depend on the other keys requested); "
        "first derivatives on the full exact set of each scheme, second derivatives and assembled quantities at interior probes",
        "trusted: TLC; border samples of the one-sided schemes are exempt as the property says",
        "DESIGN.md 3 C12",
    ),
    "C13": (
        "spec/Flow.tla (section C13), spec/MC_Flow.tla",
        "exact affine algebra: composition (A+B+BA, a+b+Ba), Lie bracket with explicit derivative units, BCH truncations 0..5 (Jacobi "
        "identity checked by TLC), exact first logv iterates; compose_flows, lie_bracket, compose_svfs, logv compared at every grid point for "
        "both align_corners conventions",
        "all ordered pairs of the field lattice (incl. non-commuting pairs) x 6 BCH orders; commuting pairs reduce to the sum (TLC law); antisymmetry with Gaussian pre-smoothing; covariance of bracket and BCH series under a change of units",
        "trusted: TLC; approximation-error clauses for smooth non-affine fields are not decided (DESIGN section 4)",
        "DESIGN.md 3 C13",
    ),
    "C14": (
        "spec/BSpline.tla, spec/MC_BSpline.tla",
        "analytic cubic B-spline basis in exact rationals; TLC proves partition of unity, derivative weights summing to zero, linear "
        "precision, agreement of the two evaluation algorithms, control grid coverage for ALL image sizes in range and invariance of the "
        "function under subdivision, and emits weight tables, grid sizes and evaluated splines; compared with the weight/kernels functions, "
        "evaluate_cubic_bspline (both algorithms, 1-D/2-D, derivative orders 0..3), control grid size, subdivision and FreeFormDeformation",
        "strides {1,2,3,4,5,7,16} (1..16 thorough) x derivative orders 0..3; image sizes 1..512 (4096 thorough) exhaustively per stride; "
        "integer coefficient tensors incl. impulses and linear functions; FFD linear precision and n -> 2n-1 refinement in 2-D and 3-D",
        "trusted: TLC; the right-continuous convention for the discontinuous third derivative at knots",
        "DESIGN.md 3 C14",
    ),
    "C15": (
        "spec/Heap.tla, spec/Trace_Heap.tla",
        "heap-of-cells model in which every public call is an action with an explicit write set; TLC checks the frame law and the independence of "
        "accessor copies and deep copies over all histories up to the bound and emits every history, each replayed on real grids, cubes, images, "
        "flow fields and transforms (spec->code); the write set observed for every call of the functional API, the losses and every deepali-defined "
        "method of the object classes is recorded and validated against Trace_Heap (code->spec)",
        "all histories of {accessor copy, deep copy, underscore mutation of either side (incl. in-place edits of the held Grid), observation} up to length 4 (5 thorough) on 10 object kinds incl. batches; "
        "all 152 public functions of core.functional / losses.functional for which an argument recipe exists (listed otherwise) in 2-D/3-D with plain, "
        "non-contiguous, requires_grad (and integer) arguments plus each optional parameter alone and all pairs of boolean options; ~1900 "
        "(class, method) pairs of Grid, Cube, Image(Batch), FlowField(s) and 20 transform kinds with full receiver projection and behaviour probe",
        "trusted: TLC; receiver projection (state_dict, grids, axes, condition, disp() probe); dropped derived buffers count as cleared caches; "
        "argument recipes by parameter name, so unusual argument forms are not reached",
        "DESIGN.md 3 C15",
    ),
    "C16": (
        "spec/Loss.tla, spec/MC_Loss.tla, spec/Trace_Loss.tla",
        "layer 1: exact rational values of pointwise losses (mask-aware mean, normalisation), global NCC, Dice and Tversky on small integer "
        "images, with the axioms checked on the model by TLC; layer 2: the axioms (identical inputs, range, symmetry, intensity invariance, mask "
        "handling, reductions, documented argument forms) as TLA+ predicates over recorded evaluations of EVERY loss incl. LCC/WLCC/MI/NMI, "
        "validated by Trace_Loss",
        "all (pair, mask, loss, reduction, norm) cases of the lattice for layer 1 incl. loss modules and target/weight forms; layer 2 on random "
        "integer images in 2-D/3-D with N, C in {1, 2} and three mask shapes per loss, WLCC with distinct source/target masks, loss modules with implicit normalisation from source / target / both",
        "trusted: TLC, micro-unit encoding of recorded values (tolerance 3e-5); MI/NMI only relational",
        "DESIGN.md 3 C16",
    ),
    "C17": (
        "spec/Regulariser.tla, spec/MC_Regulariser.tla (on Deriv)",
        "energies (bending, curvature, diffusion, divergence, total variation, gradient, elasticity) as exact expressions of the analytic "
        "derivatives of polynomial fields; conversion laws between all pairs of elastic constants and inverse-consistency of affine pairs "
        "checked by TLC; the implementation's 'none' output is compared at interior probes, reductions/scaling/spacing/affine-invariance as "
        "relations between evaluations; B-spline bending against the analytic spline energy",
        "2-D/3-D polynomial fields x 4 derivative modes x 3 reductions, default spacing = cube spacing for every term; 7 parameter pairs x 4 materials; inverse consistency for exact and "
        "non-inverse pairs x {cube, voxel, world} x both align_corners x {matrix, flow} arguments",
        "trusted: TLC, Deriv (bound by C12); 'random smooth fields' only via the relational laws",
        "DESIGN.md 3 C17",
    ),
    "C18": (
        "spec/FileStore.tla, spec/MC_FileStore.tla",
        "TLA+ specification of what a file of each format contains in exact rationals (MetaImage header fields, NIfTI RAS voxel-to-world matrix with "
        "dim/intent fields, NRRD space directions, linear payload position of every element, world vectors stored for a flow field) with decode laws "
        "checked by TLC, and a store state machine (write / read / holder conversion / axes change, two holders: library and SimpleITK) whose invariant "
        "is that the object in memory is the original; files the library writes are parsed independently and compared with the specification, every "
        "chain TLC generates is replayed through real files with the content compared after each step",
        "160 (grid, channels) leaves x dtypes x compress x 5 formats x 2 writers x 2 readers (all 5 dtypes in the thorough tier, 2 per leaf quick); every "
        "chain of length 2 exhaustively, 2500 (40000 thorough) seeded chains of length 3 (4); oriented anisotropic 2-D/3-D grids incl. size-1 axes, "
        "flips, rational rotations; flows in all four axes; to_uri/from_uri entry points; single-slice volumes",
        "trusted: TLC; SimpleITK/nibabel as installed (files SimpleITK writes are themselves checked against the specification; disagreement stops "
        "the check as a machinery error); tolerance 2e-6 relative on geometry, exact on voxels",
        "DESIGN.md 3 C18",
    ),
    "C19": (
        "spec/Batch.tla, spec/MC_Batch.tla, spec/Trace_Batch.tla",
        "TLA+ state machine over programs of torch operations: each operation is given by its mathematical effect on the item "
        "sequence, the admissible answers are 'plain' or a well-described typed value; TLC enumerates all programs up to length 2 "
        "(with every admissible answer), each is executed on real ImageBatch/FlowFields/Image/FlowField objects with distinct "
        "per-item grids; longer random programs are recorded and validated by Trace_Batch; collate_samples as concatenation",
        "exhaustive over an alphabet of ~80 concrete torch calls for programs of length <= 2; the invariant WellDescribed (one grid "
        "per entry, shape match, entry i carries the grid of the item whose data it holds, axes kept) is checked on the model and "
        "the implementation's answer must be one the model admits; a dispatcher exception on an op torch accepts is a violation; splits into three sections",
        "trusted: TLC, the effect table in MC_Batch.tla, the projection (constant-filled items identify data, unique centres identify "
        "grids); operations that mix data of several items are outside the statement and not constrained",
        "DESIGN.md 3 C19",
    ),
    "C20": (
        "spec/Grad.tla, spec/MC_Grad.tla, spec/Trace_Grad.tla",
        "layer 1: exact rational derivatives of the operations whose restriction to a line has degree <= 2 (bilinear sampling w.r.t. coordinates and image, "
        "affine maps of points, sums of squares, cubic B-spline coefficients) and of the Dice overlap; TLC proves that on this class the central difference "
        "quotient equals the derivative for every in-cell step, and emits every leaf, compared with torch.autograd to 1e-9; layer 2: directional "
        "derivatives of every transform (points, disp, inverse, image/point-set transformer), functional operation and loss recorded with two central "
        "difference quotients and judged by the acceptance rule written in Trace_Grad (Richardson estimate, kink exclusion, round-off allowance)",
        "31 exact leaves x 4 sampling APIs; ~430 scalar functions (16 transform kinds and 7 user-composed composites x 8 modes, 13 functional operations, every loss of losses.functional) "
        "in 2-D and 3-D x all parameter tensors x 2 (6 thorough) random directions on a 5-level step ladder",
        "trusted: TLC; torch.autograd as the quantity under test; float64 inputs, float32 sampling grids inside the library (3 % allowance for operations "
        "summed over a sampling grid, 5e-4 otherwise); MI/NMI evaluated with an explicit histogram range",
        "DESIGN.md 3 C20",
    ),
}

PENDING_REASON = "check not built yet in this revision (planned, see DESIGN.md section 9); not claimed until it runs clean"


def build() -> dict:
    props = [json.loads(l) for l in (VERIF / "properties.jsonl").read_text().splitlines() if l.strip()]
    checks = []
    na = []
    for p in props:
        pid = p["id"]
        if pid in CLAIMED:
            eng, tech, text, note, ref = CLAIMED[pid]
            if pid in ADDED4:
                text = text + "; since round 4 of the seeded changes also: " + ADDED4[pid]
            if pid in ADDED5:
                text = text + "; since the coverage-guided pass and round 5 also: " + ADDED5[pid]
            checks.append(
                dict(
                    property_id=pid,
                    quick_cmd=f"./check {pid} --tier quick",
                    thorough_cmd=f"./check {pid} --tier thorough",
                    evidence_file=f"/verif/evidence/{pid}.json",
                    replay_cmd_template=f"./check {pid} --replay {{path}}",
                    engine=eng,
                    level_claimed=dict(category="model_checking", text=text, design_ref=ref),
                    level_note=note,
                    technique=tech,
                )
            )
        else:
            na.append(dict(property_id=pid, reason=NOT_APPLICABLE.get(pid, PENDING_REASON)))
    return dict(
        version=1,
        setup_cmd="./setup.sh",
        hooks=dict(
            guard="DEEPALI_VERIF",
            enable="environment variable DEEPALI_VERIF=1 (set by ./check); no source hooks are needed so far",
            baseline_off_cmd="cd /repo && env -u DEEPALI_VERIF /venv/bin/python -m pytest -ra -q -p no:cacheprovider --timeout=900 --continue-on-collection-errors",
            source_commits=[],
            add_only=True,
        ),
        engines=[
            dict(name="tlc", path="/opt/veriftools/tla/tla2tools.jar", serves_properties=sorted(CLAIMED),
                 kind_free_text="TLC model checker on explicit TLA+ specifications under /verif/spec; Python harness under /verif/harness binds them to /repo/src"),
        ],
        checks=checks,
        notes="Model-based verification with explicit TLA+ specifications; see DESIGN.md. exit 2 = machinery failure (never a violation).",
        not_applicable=na,
    )


NOT_APPLICABLE: dict = {}

if __name__ == "__main__":
    (VERIF / "MANIFEST.json").write_text(json.dumps(build(), indent=1) + "\n")
    print("MANIFEST.json written:", len(build()["checks"]), "checks")
