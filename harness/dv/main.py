"""CLI:  python -m dv.main C01 --tier quick|thorough   |   --replay <file>"""
from __future__ import annotations

import argparse
import importlib
import json
import os
import sys


def main() -> int:
    ap = argparse.ArgumentParser()
    ap.add_argument("prop")
    ap.add_argument("--tier", default=os.environ.get("VERIF_TIER") or "quick", choices=["quick", "thorough"])
    ap.add_argument("--replay", default=None)
    args = ap.parse_args()
    tier = os.environ.get("VERIF_TIER") or args.tier
    seed = int(os.environ.get("VERIF_SEED", "0") or 0)
    from .core import Ctx, run_check

    prop = args.prop.upper()
    mod = importlib.import_module(f"dv.props.{prop.lower()}")
    if args.replay:
        data = json.load(open(args.replay))
        ctx = Ctx(prop, tier, seed)
        ctx.findings = []
        mod.replay(ctx, data)
        for v in ctx.violations:
            print("REPRODUCED:", v["what"])
        print("replay:", "violation reproduced" if ctx.violations else "no violation")
        return 1 if ctx.violations else 0
    return run_check(prop, tier, seed, mod.run)


if __name__ == "__main__":
    sys.exit(main())
