"""Fixed tolerance policy (DESIGN 2.5): |impl - exp| <= atol + rtol * scale."""
from __future__ import annotations

import math
from typing import Any, Optional, Tuple

F32 = (2e-5, 2e-6)  # (rtol, atol) float32 paths
F64 = (1e-9, 1e-11)  # float64 paths


def bound(scale: float, kind: Tuple[float, float] = F32, extra: float = 0.0) -> float:
    rtol, atol = kind
    return atol + rtol * max(scale, 1.0) + extra


def max_err(got: Any, exp: Any) -> float:
    """Maximum absolute difference between nested float structures / tensors (nan -> inf)."""
    import torch

    g = torch.as_tensor(got, dtype=torch.float64).reshape(-1)
    e = torch.as_tensor(exp, dtype=torch.float64).reshape(-1)
    if g.shape != e.shape:
        return math.inf
    if g.numel() == 0:
        return 0.0
    d = (g - e).abs()
    if not torch.isfinite(d).all():
        return math.inf
    return float(d.max())
