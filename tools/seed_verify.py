#!/usr/bin/env python3
"""Confirm a seeded change (from a sub-agent) in its scratch worktree and file it under /verif/seeded.

usage: tools/seed_verify.py C01 1 [--no-suite]
  - resets /tmp/wt/<prop>, runs demo.py (must exit 0), applies patch.diff, runs demo.py (must exit != 0),
    runs the repository test suite with the patch (must pass like the baseline), resets the worktree
  - copies patch.diff, demo.py, meta.json (extended with what was run) to /verif/seeded/<prop>-<n>/
"""
import json
import shutil
import subprocess
import sys
from pathlib import Path


def sh(cmd, cwd, env=None, timeout=1800):
    p = subprocess.run(cmd, shell=True, cwd=cwd, capture_output=True, text=True, timeout=timeout, env=env)
    return p.returncode, (p.stdout + p.stderr)[-1500:]


def main():
    prop, n = sys.argv[1], sys.argv[2]
    suite = "--no-suite" not in sys.argv
    wt = Path(f"/tmp/wt/{prop}")
    src = Path(f"/tmp/seed/{prop}/{n}")
    py = f"PYTHONPATH={wt}/src /venv/bin/python -W ignore"
    sh("git checkout -- . && git clean -fdq", wt)
    rc0, out0 = sh(f"{py} {src}/demo.py", wt)
    rca, outa = sh(f"git apply {src}/patch.diff", wt)
    if rca != 0:
        print("patch does not apply:", outa)
        return 1
    rc1, out1 = sh(f"{py} {src}/demo.py", wt)
    ok_suite, tail = None, ""
    if suite:
        rcs, tail = sh(f"{py} -m pytest -q -p no:cacheprovider --timeout=900 2>&1 | tail -3", wt)
        ok_suite = ("88 passed" in tail) and ("failed" not in tail)
    sh("git checkout -- . && git clean -fdq", wt)
    print(f"{prop}/{n}: demo clean rc={rc0}, demo patched rc={rc1}, suite ok={ok_suite} [{tail.strip().splitlines()[-1] if tail.strip() else ''}]")
    good = rc0 == 0 and rc1 != 0 and (ok_suite or not suite)
    if not good:
        print(out0[-500:], "\n---\n", out1[-500:])
        return 1
    dst = Path(f"/verif/seeded/{prop}-{n}")
    dst.mkdir(parents=True, exist_ok=True)
    shutil.copy(src / "patch.diff", dst / "patch.diff")
    shutil.copy(src / "demo.py", dst / "demo.py")
    meta = json.loads((src / "meta.json").read_text())
    meta["confirmed"] = dict(
        demo_on_clean_tree_rc=rc0, demo_with_patch_rc=rc1, suite_with_patch="88 passed" if ok_suite else "not run",
        how=f"scratch worktree /tmp/wt/{prop}: demo.py on HEAD, git apply patch.diff, demo.py, full pytest suite, git checkout -- .",
    )
    (dst / "meta.json").write_text(json.dumps(meta, indent=1))
    return 0


if __name__ == "__main__":
    sys.exit(main())
