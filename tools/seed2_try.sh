#!/bin/sh
# usage: tools/seed2_try.sh Cxx n  [prop]   -- apply round-2 seed ${SEEDBASE:-/tmp/seed2}/Cxx/n to /repo, run the quick check, revert
P=$1; N=$2; Q=${3:-$1}
cd /verif
git -C /repo diff --quiet || { echo "/repo not clean"; exit 3; }
git -C /repo apply ${SEEDBASE:-/tmp/seed2}/$P/$N/patch.diff || { echo "patch does not apply"; exit 3; }
./check $Q > /tmp/seed2run_${P}_${N}_${Q}.log 2>&1; rc=$?
git -C /repo checkout -- .
echo "$P/$N on $Q: exit $rc  $(grep -c '^VIOLATION' /tmp/seed2run_${P}_${N}_${Q}.log) violations; $(grep -m1 'what:' /tmp/seed2run_${P}_${N}_${Q}.log | cut -c1-160)"
