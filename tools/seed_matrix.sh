#!/bin/sh
# usage: tools/seed_matrix.sh [extra "<seed>:<prop>" cross pairs...]
# Applies every seeded change in turn (never concurrently with other checks: /repo is patched), runs the check of its own property
# (quick tier) and writes seeded/MATRIX.md.  Cross pairs (e.g. C04-1:C05) are run in addition.
cd /verif
git -C /repo diff --quiet || { echo "/repo not clean"; exit 3; }
out=seeded/MATRIX.md
{
  echo "# Detection matrix of the seeded changes (quick tier)"
  echo
  echo "Each row: the seeded change applied to /repo, the check run, exit code (1 = detected), number of VIOLATION lines, first report."
  echo
  echo "| seed | check | exit | violations | first report |"
  echo "|---|---|---|---|---|"
} > $out
run() {
  S=$1; P=$2
  tools/seed_run.sh "$S" "$P" quick > /dev/null 2>&1; rc=$?
  log=/tmp/seedrun_${S}_${P}.log
  n=$(grep -c '^VIOLATION' $log)
  first=$(grep -m1 'what:' $log | sed 's/^ *what: //' | cut -c1-160 | tr '|' '/')
  echo "| $S | $P | $rc | $n | $first |" >> $out
}
for d in $(ls -d seeded/C??-* | sort); do
  S=$(basename $d); run $S ${S%%-*}
done
for pair in "$@"; do run "${pair%%:*}" "${pair##*:}"; done
git -C /repo diff --quiet || { echo "/repo not clean after sweep"; exit 3; }
echo "written $out"
