#!/bin/sh
# usage: tools/seed_run.sh <seed dir name e.g. C01-1> [prop to check, default from name] [tier]
# applies the seeded patch to /repo, runs the check, ALWAYS reverts /repo afterwards.
S="$1"; P="${2:-${S%%-*}}"; T="${3:-quick}"
cd /verif
git -C /repo diff --quiet || { echo "/repo not clean"; exit 3; }
git -C /repo apply "/verif/seeded/$S/patch.diff" || exit 3
./check "$P" --tier "$T" > "/tmp/seedrun_${S}_${P}.log" 2>&1; rc=$?
git -C /repo checkout -- .
echo "$S on $P ($T): exit $rc  $(grep -c '^VIOLATION' /tmp/seedrun_${S}_${P}.log) violation lines; $(tail -1 /tmp/seedrun_${S}_${P}.log)"
exit $rc
