#!/bin/sh
# usage: tools/seed_matrix_wt.sh [extra "<seed>:<prop>" cross pairs...]
# Like seed_matrix.sh, but every seeded change is applied to the scratch worktree of its property (/tmp/wt/Cxx, at /repo's HEAD) and the
# check is pointed at that worktree with DEEPALI_SRC, so /repo is never touched and the properties run in parallel lanes.
# Writes seeded/MATRIX.md.  (Evidence files are overwritten by these runs: re-run the clean checks afterwards.)
cd /verif
H=$(git -C /repo rev-parse HEAD)
tmp=$(mktemp -d /tmp/matrix.XXXXXX)
pairs="$*"
one() {  # seed prop
  S=$1; Q=$2; P=${S%%-*}; WT=/tmp/wt/$P
  log=/tmp/seedrun_${S}_${Q}.log
  git -C $WT apply /verif/seeded/$S/patch.diff || { echo "| $S | $Q | 3 | 0 | patch does not apply |" >> $tmp/$P.md; return; }
  DEEPALI_SRC=$WT/src ./check $Q > $log 2>&1; rc=$?
  git -C $WT checkout -- .
  n=$(grep -c '^VIOLATION' $log)
  first=$(grep -m1 'what:' $log | sed 's/^ *what: //' | cut -c1-160 | tr '|' '/')
  echo "| $S | $Q | $rc | $n | $first |" >> $tmp/$P.md
}
lane() {
  for P in "$@"; do
    WT=/tmp/wt/$P
    [ -d $WT ] || git -C /repo worktree add -q --detach $WT $H
    git -C $WT checkout -q --detach $H; git -C $WT checkout -- .
    : > $tmp/$P.md
    for d in $(ls -d seeded/$P-* | sort -t- -k2 -n); do one $(basename $d) $P; done
    for pair in $pairs; do S=${pair%%:*}; [ "${S%%-*}" = "$P" ] && one $S ${pair##*:}; done
  done
}
lane C03 C08 C13 C20 &
lane C18 C11 C12 C16 &
lane C01 C02 C06 C14 C17 &
lane C04 C05 C10 C15 &
lane C07 C09 C19 &
wait
out=seeded/MATRIX.md
{
  echo "# Detection matrix of the seeded changes (quick tier)"
  echo
  echo "Each row: the seeded change applied to a scratch worktree of /repo's HEAD, the check run against it, exit code (1 = detected),"
  echo "number of VIOLATION lines, first report.  Rows whose check differs from the seed's property are cross checks."
  echo
  echo "| seed | check | exit | violations | first report |"
  echo "|---|---|---|---|---|"
  for P in C01 C02 C03 C04 C05 C06 C07 C08 C09 C10 C11 C12 C13 C14 C15 C16 C17 C18 C19 C20; do cat $tmp/$P.md; done
} > $out
rm -rf $tmp
echo "written $out"
