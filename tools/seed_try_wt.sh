#!/bin/sh
# usage: tools/seed_try_wt.sh Cxx n [prop]  -- apply ${SEEDBASE:-/tmp/seed4}/Cxx/n to the scratch worktree /tmp/wt/Cxx (NOT /repo),
# run the quick check of prop against that worktree, revert.  Different Cxx can run in parallel; /repo is never touched.
P=$1; N=$2; Q=${3:-$1}; WT=/tmp/wt/$P
cd /verif
[ -d $WT ] || git -C /repo worktree add -q --detach $WT $(git -C /repo rev-parse HEAD)   # remove again with: git -C /repo worktree remove --force $WT
git -C $WT diff --quiet || { echo "$WT not clean"; exit 3; }
git -C $WT apply ${SEEDBASE:-/tmp/seed4}/$P/$N/patch.diff || { echo "$P/$N patch does not apply"; exit 3; }
DEEPALI_SRC=$WT/src ./check $Q > /tmp/seedwt_${P}_${N}_${Q}.log 2>&1; rc=$?
git -C $WT checkout -- .
echo "$P/$N on $Q: exit $rc  $(grep -c '^VIOLATION' /tmp/seedwt_${P}_${N}_${Q}.log) violations; $(grep -m1 'what:' /tmp/seedwt_${P}_${N}_${Q}.log | cut -c1-160)"
