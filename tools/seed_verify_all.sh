#!/bin/sh
# verify (with the full test suite) every delivered seed that is not yet confirmed with the suite
for d in /tmp/seed/C*/[0-9]; do
  p=$(basename $(dirname $d)); n=$(basename $d)
  [ -f "$d/patch.diff" ] || continue
  if [ -f "/verif/seeded/$p-$n/meta.json" ] && grep -q '"suite_with_patch": "88 passed"' "/verif/seeded/$p-$n/meta.json"; then continue; fi
  # do not touch worktrees whose agent may still be running: require a meta.json for all 3 seeds
  [ -f "/tmp/seed/$p/3/meta.json" ] || [ -f "/tmp/seed/$p/done" ] || continue
  python3 /verif/tools/seed_verify.py $p $n
done
