#!/bin/sh
# Offline setup: verify tools and parse every specification.  Builds nothing outside /verif.
set -e
cd "$(dirname "$0")"
command -v java >/dev/null
test -f /opt/veriftools/tla/tla2tools.jar
/venv/bin/python -W ignore -c "import torch, SimpleITK, nibabel; import sys; sys.path.insert(0, '/repo/src'); import deepali.core"
for f in spec/*.tla; do
  case "$f" in spec/Trace_*) ;; esac
  java -DTLA-Library=spec/common:spec -cp /opt/veriftools/tla/tla2tools.jar:/opt/veriftools/tla/CommunityModules-deps.jar tla2sany.SANY "$f" > /tmp/.dv_sany.$$ 2>&1 || { cat /tmp/.dv_sany.$$; rm -f /tmp/.dv_sany.$$; exit 1; }
  if grep -q "Semantic errors\|Parse Error\|Fatal errors" /tmp/.dv_sany.$$; then cat /tmp/.dv_sany.$$; rm -f /tmp/.dv_sany.$$; exit 1; fi
  rm -f /tmp/.dv_sany.$$
done
mkdir -p evidence
echo "setup ok"
