--------------------------- MODULE Trace_Sampler ---------------------------
(* Recorded runs of the real DistributedWeightedRandomSampler (code -> spec).  One event per configuration: weights, num, R,  *)
(* drop_last, replacement, and what every rank iterated in two epochs (or the fact that the constructor refused).             *)
EXTENDS Integers, Sequences, FiniteSets, TLC, Json, IOUtils
CeilDiv(a, b) == (a + b - 1) \div b
PerRank(num, R, dropLast) == IF dropLast /\ num % R # 0 THEN CeilDiv(num - R, R) ELSE CeilDiv(num, R)
Total(num, R, dropLast) == PerRank(num, R, dropLast) * R
Accepts(nIdx, num, R, dropLast, repl) == repl \/ Total(num, R, dropLast) <= nIdx
Flat(ranks) == [k \in 1..(Len(ranks) * Len(ranks[1])) |-> ranks[((k - 1) % Len(ranks)) + 1][((k - 1) \div Len(ranks)) + 1]]
Distinct(s) == \A i, j \in 1..Len(s) : i # j => s[i] # s[j]
EpochOK(ev, ranks) ==
    /\ Len(ranks) = ev.R
    /\ \A r \in 1..ev.R : Len(ranks[r]) = PerRank(ev.num, ev.R, ev.drop_last)
    /\ \A r \in 1..ev.R : \A i \in 1..Len(ranks[r]) : ranks[r][i] + 1 \in 1..Len(ev.weights) /\ ev.weights[ranks[r][i] + 1] > 0
    /\ (~ev.replacement /\ PerRank(ev.num, ev.R, ev.drop_last) > 0 => Distinct(Flat(ranks)))
Clause(ev) ==
    IF ev.refused /\ Accepts(Len(ev.weights), ev.num, ev.R, ev.drop_last, ev.replacement) THEN "refused-a-legal-configuration"
    ELSE IF ~ev.refused /\ ~Accepts(Len(ev.weights), ev.num, ev.R, ev.drop_last, ev.replacement) THEN "accepted-an-impossible-draw"
    ELSE IF ev.refused THEN "ok"
    ELSE IF ~EpochOK(ev, ev.epoch0) \/ ~EpochOK(ev, ev.epoch1) THEN "slices"
    \* without shuffling the epoch must not matter
    ELSE IF ~ev.shuffle /\ ev.epoch0 # ev.epoch1 THEN "epoch-matters-without-shuffle"
    \* the same epoch drawn again gives the same indices (all ranks must agree on the master sequence)
    ELSE IF ev.epoch0 # ev.epoch0again THEN "not-reproducible"
    ELSE "ok"
Tr == ndJsonDeserialize(IOEnv.TRACE_FILE)
VARIABLES l, bad
tvars == <<l, bad>>
TInit == l = 1 /\ bad = {}
Consume == /\ l <= Len(Tr) /\ l' = l + 1
           /\ bad' = IF Tr[l].k = 0 \/ Clause(Tr[l]) = "ok" THEN bad ELSE bad \cup {<<Tr[l].tid, Tr[l].k, Clause(Tr[l])>>}
TSpec == TInit /\ [][Consume]_tvars
Done == l = Len(Tr) + 1
Report == Done => PrintT(ToJson([rejected |-> bad, lines |-> Len(Tr)]))
Consumed == TLCGet("stats").diameter = Len(Tr) + 1
=============================================================================
