---------------------------- MODULE SamplerProof ----------------------------
(***************************************************************************)
(* Unbounded proof (TLAPS) of the padding half of the size rule of          *)
(* Sampler.tla: for EVERY number of requested samples and EVERY number of   *)
(* replicas the padded total is at least the request and exceeds it by less *)
(* than one round.  (The drop_last half needs uniqueness of Euclidean       *)
(* division, which the SMT back ends did not discharge within the time box; *)
(* TLC checks both halves for all num <= 400, R <= 32: SizeRuleAll.)        *)
(* The only assumption is the defining property of integer division, which  *)
(* is how Integers.tla defines \div and %.                                  *)
(***************************************************************************)
EXTENDS Integers, TLAPS
CeilDiv(a, b) == (a + b - 1) \div b
PerRank(num, R, dropLast) == IF dropLast /\ num % R # 0 THEN CeilDiv(num - R, R) ELSE CeilDiv(num, R)
Total(num, R, dropLast) == PerRank(num, R, dropLast) * R

AXIOM DivMod == \A a \in Int, b \in Nat \ {0} : a = b * (a \div b) + (a % b) /\ 0 <= a % b /\ a % b < b /\ (a \div b) \in Int /\ (a % b) \in Int

THEOREM PadRule == \A num \in Nat, R \in Nat \ {0} :
    /\ Total(num, R, FALSE) >= num
    /\ Total(num, R, FALSE) - num < R
<1> SUFFICES ASSUME NEW num \in Nat, NEW R \in Nat \ {0}
             PROVE Total(num, R, FALSE) >= num /\ Total(num, R, FALSE) - num < R
    OBVIOUS
<1> DEFINE a == num + R - 1
<1> DEFINE q == a \div R
<1> DEFINE r == a % R
<1> DEFINE P == R * q
<1>0. a \in Int
    OBVIOUS
<1>1. a = R * q + r /\ 0 <= r /\ r < R /\ q \in Int /\ r \in Int
    BY <1>0, DivMod
<1>2. Total(num, R, FALSE) = q * R
    BY DEF Total, PerRank, CeilDiv
<1>3. q * R = P
    BY <1>1, Z3
<1>4. num + R - 1 = P + r /\ P \in Int
    BY <1>1, Z3
<1>5. Total(num, R, FALSE) = P
    BY <1>2, <1>3
<1>7. r \in Int /\ 0 <= r /\ r < R
    BY <1>1
<1> HIDE DEF a, q, r, P
<1>6. P >= num /\ P - num < R
    BY <1>4, <1>7, SMT
<1> QED BY <1>5, <1>6
=============================================================================
