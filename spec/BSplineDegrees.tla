--------------------------- MODULE BSplineDegrees ---------------------------
(***************************************************************************)
(* Interpolation weight tables of centred cardinal B-splines of ANY degree *)
(* (core/bspline.py: bspline_interpolation_weights), from the Cox-de Boor  *)
(* recursion in exact rationals - not from the closed forms of the code:   *)
(*    B_0(x) = 1 on [-1/2, 1/2), else 0                                     *)
(*    B_n(x) = ((x + (n+1)/2) B_{n-1}(x + 1/2)                              *)
(*              + ((n+1)/2 - x) B_{n-1}(x - 1/2)) / n                       *)
(* Row i of the table for stride s holds the n+1 weights of the support     *)
(* points of a sample at offset i/s: odd degrees count the offset from the  *)
(* support point to the left (t = i/s), even degrees from the NEAREST one   *)
(* (t = i/s - round(i/s), ties to the even integer, i.e. 1/2 -> 0).         *)
(* Beyond the listed properties (extension X10; C14 is about degree 3).     *)
(***************************************************************************)
EXTENDS RatLA, TLC, Json

RECURSIVE BN(_, _)
BN(n, x) ==
    IF n = 0 THEN (IF RLe(R(-1, 2), x) /\ RLt(x, Half) THEN One ELSE Zero)
    ELSE LET h == R(n + 1, 2) IN
         RDiv(RAdd(RMul(RAdd(x, h), BN(n - 1, RAdd(x, Half))), RMul(RSub(h, x), BN(n - 1, RSub(x, Half)))), RI(n))

\* offset of row i (0-based) for stride s and degree n
Offs(n, s, i) == IF n % 2 = 1 THEN R(i, s)
                 ELSE IF 2 * i < s \/ (2 * i = s) THEN R(i, s)     \* round(1/2) = 0 (ties to even)
                 ELSE RSub(R(i, s), One)
WRowN(n, s, i) == E([k \in 1..(n + 1) |-> BN(n, RSub(RAdd(Offs(n, s, i), RI(n \div 2)), RI(k - 1)))])
WTableN(n, s) == E([i \in 1..s |-> WRowN(n, s, i - 1)])

\* ---- laws
PartitionOfUnity(n, s) == \A i \in 0..(s - 1) : RSumSeq(WRowN(n, s, i)) = One
NonNegative(n, s) == \A i \in 0..(s - 1) : \A k \in 1..(n + 1) : RLe(Zero, WRowN(n, s, i)[k])
\* first moment: the weighted mean of the support positions is the sample position (linear precision)
LinearPrecision(n, s) == \A i \in 0..(s - 1) :
    RSumSeq(E([k \in 1..(n + 1) |-> RMul(WRowN(n, s, i)[k], RI(k - 1 - (n \div 2)))])) = Offs(n, s, i)
\* the cubic case is the table of BSpline.tla (closed form): beta(x) = B_3(x)
CubicClosedForm(x) == LET t == RAbs(x) IN
    IF RLe(Two, t) THEN Zero
    ELSE IF RLt(t, One) THEN RAdd(RSub(R(2, 3), RSq(t)), RDiv(RMul(t, RSq(t)), Two))
    ELSE RDiv(RMul(RSub(Two, t), RSq(RSub(Two, t))), RI(6))
CubicAgrees == \A q \in -10..10 : BN(3, R(q, 4)) = CubicClosedForm(R(q, 4))

CONSTANTS Degrees, Strides, EmitCases
VARIABLES st, ca
vars == <<st, ca>>
Init == st = 0 /\ ca = [n |-> 0, s |-> 0]
Pick == st = 0 /\ \E n \in Degrees, s \in Strides : ca' = [n |-> n, s |-> s] /\ st' = 1
Spec == Init /\ [][Pick]_vars
Laws == /\ CubicAgrees
        /\ st = 1 => PartitionOfUnity(ca.n, ca.s) /\ NonNegative(ca.n, ca.s) /\ LinearPrecision(ca.n, ca.s)
Emit == (EmitCases /\ st = 1) => PrintT(ToJson([n |-> ca.n, s |-> ca.s, W |-> WTableN(ca.n, ca.s)]))
=============================================================================
