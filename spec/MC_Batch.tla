----------------------------- MODULE MC_Batch -----------------------------
(* Operation alphabet for Batch.tla: name (bound to a torch call in the harness) and its      *)
(* mathematical effect on the item sequence.  Batches have N = 3 items (ids 1,2,3), a second  *)
(* batch used by cat has items 4,5.                                                            *)
EXTENDS Batch

O(n, e, a) == [name |-> n, eff |-> e, a |-> a]

SameOps == {O(n, "same", <<0>>) : n \in {"neg", "mul2", "add_plain", "add_self", "abs", "clone", "torch_clone", "contiguous", "double",
            "to_int", "detach", "flip_x", "roll_x", "copy", "deepcopy", "pickle", "where", "clamp", "ellipsis", "full_slices",
            "sub_scalar", "type_float", "squeeze_noop"}}

BatchOps ==
    SameOps \cup
    { O("slice_1_3", "select", <<1, 2>>), O("slice_step2", "select", <<0, 2>>), O("slice_0_1", "select", <<0>>),
      O("list_2_0", "select", <<2, 0>>), O("tensor_idx_201", "select", <<2, 0, 1>>), O("bool_mask_101", "select", <<0, 2>>),
      O("tuple_slice_1", "select", <<1, 2>>), O("narrow_0_1_2", "select", <<1, 2>>), O("torch_narrow_0_0_2", "select", <<0, 1>>),
      O("index_select_201", "select", <<2, 0, 1>>), O("index_select_11", "select", <<1, 1>>),
      O("chunk2_0", "select", <<0, 1>>), O("chunk2_1", "select", <<2>>),
      O("split2_0", "select", <<0, 1>>), O("split2_1", "select", <<2>>), O("split2_kwdim_1", "select", <<2>>),
      O("split_sizes_12_1", "select", <<1, 2>>), O("split_sizes_12_0", "select", <<0>>),
      O("split_sizes_111_2", "select", <<2>>), O("split_sizes_111_1", "select", <<1>>), O("split_with_sizes_111_2", "select", <<2>>),
      O("tensor_split2_0", "select", <<0, 1>>), O("tensor_split2_1", "select", <<2>>), O("tensor_split_idx1_1", "select", <<1, 2>>),
      O("repeat_interleave_0", "select", <<0, 0, 1, 1, 2, 2>>),
      \* EMPTY selections: zero entries, hence zero grids (or a plain tensor)
      O("slice_0_0", "select", <<>>), O("slice_from_end", "select", <<>>), O("list_empty", "select", <<>>), O("bool_mask_000", "select", <<>>),
      O("narrow_0_1_0", "select", <<>>), O("cat_empty_front", "same", <<0>>),
      \* the classes' own batch constructors / combinators
      O("from_images_20", "select", <<2, 0>>), O("from_images_1", "select", <<1>>), O("append_self", "concat_self", <<0>>), O("append_other", "concat_other", <<4, 5>>),
      O("ellipsis_mid", "select", <<1, 2>>),
      O("slice_1_3_chan_0_1", "selchan", <<1, 1, 2>>), O("list_20_chan_0_1", "selchan", <<1, 2, 0>>), O("mask_101_chan_0_1", "selchan", <<1, 0, 2>>),
      O("slice_step2_chan_ellipsis", "selchan", <<1, 0, 2>>),
      O("int_1", "item", <<1>>), O("int_neg1", "item", <<2>>), O("select_0_2", "item", <<2>>), O("unbind_1", "item", <<1>>), O("iter_0", "item", <<0>>),
      O("tuple_int_0", "item", <<0>>),
      O("flip_0", "reverse", <<0>>), O("torch_flip_0", "reverse", <<0>>), O("roll_0_1", "roll", <<1>>), O("roll_0_2", "roll", <<2>>),
      O("repeat_2", "tile", <<2>>),
      O("cat_self", "concat_self", <<0>>), O("cat_self_kwdim", "concat_self", <<0>>), O("cat_other", "concat_other", <<4, 5>>),
      O("mean_c_keep", "chan", <<1>>), O("chan_slice_0_1", "chan", <<1>>), O("narrow_c", "chan", <<1>>), O("cat_chan", "chan_mul", <<2>>),
      O("split_c_0", "chan", <<1>>),
      O("interpolate", "spatial", <<0>>), O("avg_pool", "spatial", <<0>>), O("max_pool", "spatial", <<0>>), O("pad", "spatial", <<0>>),
      O("spatial_slice", "spatial", <<0>>),
      O("sum_0_keep", "mixed", <<1>>),
      O("stack", "other", <<0>>), O("sum_all", "other", <<0>>), O("mean_0", "other", <<0>>), O("permute_1023", "swap_nc", <<0>>),
      O("transpose_0_1", "swap_nc", <<0>>), O("flatten", "other", <<0>>), O("unsqueeze_0", "other", <<0>>), O("drop_channel", "other", <<0>>),
      O("argmax_c", "other", <<0>>) }

SingleOps ==
    {O(n, "same", <<0>>) : n \in {"neg", "mul2", "clone", "double", "flip_x", "copy", "deepcopy", "pickle", "add_plain", "abs",
                                 "s_batch_0", "s_narrow_full", "s_batch_iter"}} \cup
    { O("s_chan_slice", "chan", <<1>>), O("s_mean_c_keep", "chan", <<1>>), O("s_cat_chan", "chan_mul", <<2>>), O("s_split_c_0", "chan", <<1>>),
      O("s_spatial_slice", "spatial", <<0>>), O("s_pad", "spatial", <<0>>),
      O("s_unsqueeze_0", "other", <<0>>), O("s_drop_channel", "other", <<0>>), O("sum_all", "other", <<0>>), O("s_permute", "other", <<0>>) }

PlainOps == {O("neg", "same", <<0>>), O("clone", "same", <<0>>)}

OpsDef(layout) == IF layout = "NCS" THEN BatchOps ELSE IF layout = "CS" THEN SingleOps ELSE PlainOps

QInits == {[t |-> "ImageBatch", N |-> 3, C |-> 2, D |-> 2, axes |-> ""],
           [t |-> "FlowFields", N |-> 3, C |-> 2, D |-> 2, axes |-> "world"],
           [t |-> "Image", N |-> 1, C |-> 2, D |-> 2, axes |-> ""],
           [t |-> "FlowField", N |-> 1, C |-> 2, D |-> 2, axes |-> "grid"]}
TInits == QInits \cup
          {[t |-> "ImageBatch", N |-> 3, C |-> 1, D |-> 3, axes |-> ""],
           [t |-> "FlowFields", N |-> 3, C |-> 3, D |-> 3, axes |-> "cube"],
           [t |-> "ImageBatch", N |-> 2, C |-> 2, D |-> 2, axes |-> ""]}
=============================================================================
