------------------------------ MODULE Resample ------------------------------
(***************************************************************************)
(* Resampling an image given on an oriented source grid onto any oriented  *)
(* target grid (data/image.py sample(), core/image.py grid_sample /        *)
(* sample_image, modules/sample.py), in exact rationals.  The semantics    *)
(* are those of an independent resampler with the identity transform       *)
(* (ITK): target sample j lies at world point P_t(j); its value is the     *)
(* source image interpolated at continuous source index P_s^-1(P_t(j)).    *)
(* Property C05 (and the data side of C04).                                *)
(***************************************************************************)
EXTENDS GridDefs

\* an image: grid g and integer samples v, x fastest:  index (i1, .., iD) -> v[1 + i1 + n1 * (i2 + n2 * i3)]
Flat(n, idx) == IF Len(n) = 2 THEN 1 + idx[1] + n[1] * idx[2] ELSE 1 + idx[1] + n[1] * (idx[2] + n[2] * idx[3])
InRange(n, idx) == \A k \in 1..Len(n) : 0 <= idx[k] /\ idx[k] < n[k]
Clamp(n, idx) == E([k \in 1..Len(n) |-> IMax(0, IMin(n[k] - 1, idx[k]))])
\* sample value at an integer index under a padding rule: <<"zeros", 0>> | <<"border", 0>> | <<"constant", c>>
At(img, idx, pad) ==
    IF InRange(img.g.n, idx) THEN RI(img.v[Flat(img.g.n, idx)])
    ELSE IF pad[1] = "border" THEN RI(img.v[Flat(img.g.n, Clamp(img.g.n, idx))])
    ELSE IF pad[1] = "zeros" THEN Zero ELSE RI(pad[2])

\* continuous source index of target sample j
SrcIndex(gs, gt, j) == AffApply(Map(gt, "grid", gs, "grid"), VInt(j))

Corners(D) == IF D = 2 THEN << <<0, 0>>, <<1, 0>>, <<0, 1>>, <<1, 1>> >>
              ELSE << <<0, 0, 0>>, <<1, 0, 0>>, <<0, 1, 0>>, <<1, 1, 0>>, <<0, 0, 1>>, <<1, 0, 1>>, <<0, 1, 1>>, <<1, 1, 1>> >>
\* multilinear interpolation at rational index i
Linear(img, i, pad) ==
    LET D == Len(i)
        f == E([k \in 1..D |-> RFloor(i[k])])
        t == E([k \in 1..D |-> RSub(i[k], RI(f[k]))])
        W(c) == LET w == E([k \in 1..D |-> IF c[k] = 1 THEN t[k] ELSE RSub(One, t[k])])
                IN  IF D = 2 THEN RMul(w[1], w[2]) ELSE RMul(w[1], RMul(w[2], w[3]))
        Term(c) == RMul(W(c), At(img, E([k \in 1..D |-> f[k] + c[k]]), pad))
    IN  RSumSeq(E([k \in 1..Len(Corners(D)) |-> Term(Corners(D)[k])]))

\* nearest neighbour: the set of admissible values (several at ties: the property leaves the tie rule open)
NearestIdx(i) ==   \* set of nearest integer index vectors
    LET D == Len(i)
        C(k) == IF RIsInt(RMul(Two, i[k])) /\ ~RIsInt(i[k]) THEN {RFloor(i[k]), RFloor(i[k]) + 1}
                ELSE {RFloor(RAdd(i[k], Half))}
    IN  IF D = 2 THEN {<<a, b>> : a \in C(1), b \in C(2)} ELSE {<<a, b, c>> : a \in C(1), b \in C(2), c \in C(3)}
Nearest(img, i, pad) == {At(img, idx, pad) : idx \in NearestIdx(i)}
IsTie(i) == \E k \in 1..Len(i) : RIsInt(RMul(Two, i[k])) /\ ~RIsInt(i[k])

\* inside the hull of the source sample centres: independent of the padding rule
InHull(n, i) == \A k \in 1..Len(n) : RLe(Zero, i[k]) /\ RLe(i[k], RI(n[k] - 1))

TargetIdx(n) == IF Len(n) = 2 THEN {<<a, b>> : a \in 0..(n[1] - 1), b \in 0..(n[2] - 1)}
                ELSE {<<a, b, c>> : a \in 0..(n[1] - 1), b \in 0..(n[2] - 1), c \in 0..(n[3] - 1)}
\* target index list in storage order (x fastest)
RECURSIVE IdxSeq(_, _)
IdxSeq(n, k) ==
    LET total == IF Len(n) = 2 THEN n[1] * n[2] ELSE n[1] * n[2] * n[3] IN
    IF k > total THEN <<>>
    ELSE LET m == k - 1
             idx == IF Len(n) = 2 THEN <<m % n[1], m \div n[1]>>
                    ELSE <<m % n[1], (m \div n[1]) % n[2], m \div (n[1] * n[2])>>
         IN  <<idx>> \o IdxSeq(n, k + 1)

CONSTANTS Sources, TargetsOf(_), Pads, EmitCases
VARIABLES st, ca
vars == <<st, ca>>
NoCase == [src |-> <<>>, gt |-> <<>>, pad |-> <<"zeros", 0>>]
Init == st = 0 /\ ca = NoCase
Pick == st = 0 /\ \E s \in Sources : \E gt \in TargetsOf(Len(s.g.n)), p \in Pads :
            ca' = [src |-> s, gt |-> gt, pad |-> p] /\ st' = 1
Next == Pick
Spec == Init /\ [][Next]_vars

Laws ==
    st = 1 =>
        /\ \A j \in TargetIdx(ca.gt.n) :
              LET i == SrcIndex(ca.src.g, ca.gt, j) IN
              \* inside the hull the result does not depend on the padding rule
              /\ InHull(ca.src.g.n, i) => /\ Linear(ca.src, i, <<"zeros", 0>>) = Linear(ca.src, i, <<"border", 0>>)
                                          /\ Linear(ca.src, i, ca.pad) = Linear(ca.src, i, <<"zeros", 0>>)
              \* at sample positions interpolation reproduces the sample
              /\ (InHull(ca.src.g.n, i) /\ \A k \in 1..Len(i) : RIsInt(i[k])) =>
                    Linear(ca.src, i, ca.pad) = RI(ca.src.v[Flat(ca.src.g.n, E([k \in 1..Len(i) |-> i[k][1]]))])
        \* sampling an image on its own grid returns it unchanged
        /\ \A j \in TargetIdx(ca.src.g.n) :
              /\ SrcIndex(ca.src.g, ca.src.g, j) = VInt(j)
              /\ Linear(ca.src, VInt(j), ca.pad) = RI(ca.src.v[Flat(ca.src.g.n, j)])
              /\ Nearest(ca.src, VInt(j), ca.pad) = {RI(ca.src.v[Flat(ca.src.g.n, j)])}

Emit == (EmitCases /\ st = 1) =>
    LET J == IdxSeq(ca.gt.n, 1)
        I == E([k \in 1..Len(J) |-> SrcIndex(ca.src.g, ca.gt, J[k])]) IN
    PrintT(ToJson([src |-> ca.src, gt |-> ca.gt, pad |-> ca.pad,
                   src_origin |-> Origin(ca.src.g), gt_origin |-> Origin(ca.gt),
                   index |-> I,
                   linear |-> E([k \in 1..Len(J) |-> Linear(ca.src, I[k], ca.pad)]),
                   nearest |-> E([k \in 1..Len(J) |-> Nearest(ca.src, I[k], ca.pad)]),
                   inhull |-> E([k \in 1..Len(J) |-> InHull(ca.src.g.n, I[k])]),
                   tie |-> E([k \in 1..Len(J) |-> IsTie(I[k])])]))
=============================================================================
