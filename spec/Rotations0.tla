---------------------------- MODULE Rotations0 ----------------------------
(***************************************************************************)
(* Rotation algebra (core/affine.py, core/_kornia.py, spatial/linear.py):  *)
(* Euler-angle matrices as the product of elementary rotations in the      *)
(* stated order for every order string, quaternions (w, x, y, z), and      *)
(* axis-angle vectors, all over exact rational (cos, sin) pairs.  C08.     *)
(***************************************************************************)
EXTENDS Rot, TLC, Json

Elem(ch, cs) == CASE ch = "X" -> RotX(cs) [] ch = "Y" -> RotY(cs) [] ch = "Z" -> RotZ(cs)
\* order = <<c1, c2, c3>> letters; angles given as (cos, sin) pairs: R = R_c1(a1) . R_c2(a2) . R_c3(a3)
Euler(order, css) == MMul(MMul(Elem(order[1], css[1]), Elem(order[2], css[2])), Elem(order[3], css[3]))
Letters == {"X", "Y", "Z"}
AllOrders == {<<a, b, c>> : a \in Letters, b \in Letters, c \in Letters}
\* proper Euler (first = third, middle differs) and Tait-Bryan (all different): the 12 claimed orders
ProperOrders == {o \in AllOrders : o[1] # o[2] /\ o[2] # o[3]}

\* Rodrigues' formula for a rational unit axis k and rational (cos, sin)
Skew(k) == << <<Zero, RNeg(k[3]), k[2]>>, <<k[3], Zero, RNeg(k[1])>>, <<RNeg(k[2]), k[1], Zero>> >>
Outer(k) == E([i \in 1..3 |-> E([j \in 1..3 |-> RMul(k[i], k[j])])])
AxisAngleMat(k, cs) ==
    MAdd(MAdd(MScale(cs[1], MId(3)), MScale(cs[2], Skew(k))), MScale(RSub(One, cs[1]), Outer(k)))
\* every coordinate is the dominant one for some axis (conversion code branches on the largest diagonal entry)
UnitAxes == {<<One, Zero, Zero>>, <<Zero, One, Zero>>, <<Zero, Zero, One>>, <<R(1,3), R(2,3), R(2,3)>>, <<R(2,7), R(-3,7), R(6,7)>>,
             <<R(-2,3), R(1,3), R(2,3)>>, <<R(2,7), R(6,7), R(3,7)>>, <<R(6,7), R(-2,7), R(3,7)>>, <<R(-3,7), R(-6,7), R(2,7)>>}

\* quaternion (w, x, y, z) of a rotation about rational unit axis k by an angle whose HALF angle has rational (cos, sin)
QuatOf(k, hcs) == <<hcs[1], RMul(hcs[2], k[1]), RMul(hcs[2], k[2]), RMul(hcs[2], k[3])>>
\* rotation matrix of a unit quaternion given as rationals
QMat(q) ==
    LET w == q[1]  x == q[2]  y == q[3]  z == q[4]
        T(a, b) == RMul(Two, RMul(a, b)) IN
    << <<RSub(One, RAdd(T(y, y), T(z, z))), RSub(T(x, y), T(w, z)), RAdd(T(x, z), T(w, y))>>,
       <<RAdd(T(x, y), T(w, z)), RSub(One, RAdd(T(x, x), T(z, z))), RSub(T(y, z), T(w, x))>>,
       <<RSub(T(x, z), T(w, y)), RAdd(T(y, z), T(w, x)), RSub(One, RAdd(T(x, x), T(y, y)))>> >>
\* double-angle: (cos 2a, sin 2a) from (cos a, sin a)
Dbl(cs) == <<RSub(RSq(cs[1]), RSq(cs[2])), RMul(Two, RMul(cs[1], cs[2]))>>

=============================================================================
