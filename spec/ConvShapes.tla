---------------------------- MODULE ConvShapes ----------------------------
(***************************************************************************)
(* Output sizes of convolution, transposed convolution, pooling, padding    *)
(* and the padding rules built on them (core/nnutils.py) - beyond the 20   *)
(* listed properties.  Everything is defined from first principles by      *)
(* COUNTING: the output size of a convolution is the number of kernel      *)
(* placements that fit into the padded input; a transposed convolution      *)
(* covers the span of all scattered kernels.  The closed formulas the      *)
(* library (and torch) use are laws checked by TLC against the counting    *)
(* definitions for every parameter combination in the lattice, and every   *)
(* leaf is compared with the library functions AND with the shapes the     *)
(* real torch operators produce.                                           *)
(***************************************************************************)
EXTENDS Integers, FiniteSets, TLC, Json

CONSTANTS MaxIn, Kernels, Strides, Dilations, Paddings, EmitCases

Span(k, d) == (k - 1) * d + 1                     \* extent of a dilated kernel
\* convolution: placements i = 0, 1, ... with i*s + Span <= m + 2p
ConvPlacements(m, k, s, d, p) == {i \in 0..(m + 2 * p) : i * s + Span(k, d) <= m + 2 * p}
ConvOut(m, k, s, d, p) == Cardinality(ConvPlacements(m, k, s, d, p))
ConvFormula(m, k, s, d, p) == IF m + 2 * p < Span(k, d) THEN 0 ELSE (m + 2 * p - Span(k, d)) \div s + 1
\* pooling with ceil_mode: a last, partial window is allowed if it starts inside the input or the left padding
PoolOut(m, k, s, d, p, ceil) ==
    IF ~ceil \/ m + 2 * p < Span(k, d) THEN ConvOut(m, k, s, d, p)
    ELSE LET n == (m + 2 * p - Span(k, d) + s - 1) \div s + 1
         IN  IF (n - 1) * s >= m + p THEN n - 1 ELSE n
\* transposed convolution: input sample j scatters a kernel at offset j*s; the result spans the union, minus padding, plus output padding
ConvTCovered(m, k, s, d) == UNION {{j * s + t * d : t \in 0..(k - 1)} : j \in 0..(m - 1)}
ConvTOut(m, k, s, d, p, o) == (m - 1) * s + Span(k, d) - 2 * p + o
PadOut(m, lo, hi) == m + lo + hi
\* padding that keeps the size for stride 1 (defined for odd dilated kernels)
SamePad(k, d) == ((k - 1) * d) \div 2
SameDefined(k, d) == ((k - 1) * d) % 2 = 0
\* transposed convolution used for upsampling by an integer factor s with kernel k
UpPad(k, s) == (k - s + 1) \div 2
UpOutPad(k, s) == 2 * UpPad(k, s) - k + s

VARIABLES st, ca
vars == <<st, ca>>
Init == st = 0 /\ ca = [kind |-> ""]
PickConv == st = 0 /\ \E m \in 1..MaxIn, k \in Kernels, s \in Strides, d \in Dilations, p \in Paddings :
              ca' = [kind |-> "conv", m |-> m, k |-> k, s |-> s, d |-> d, p |-> p] /\ st' = 1
PickUp   == st = 0 /\ \E m \in 1..MaxIn, k \in Kernels, s \in Strides :
              k >= s /\ ca' = [kind |-> "up", m |-> m, k |-> k, s |-> s, d |-> 1, p |-> 0] /\ st' = 1
Next == PickConv \/ PickUp
Spec == Init /\ [][Next]_vars

Laws == st = 1 =>
    IF ca.kind = "conv" THEN
        LET m == ca.m  k == ca.k  s == ca.s  d == ca.d  p == ca.p IN
        /\ ConvOut(m, k, s, d, p) = ConvFormula(m, k, s, d, p)
        \* stride 1 with the "same" padding keeps the size
        /\ (SameDefined(k, d) /\ s = 1) => ConvOut(m, k, 1, d, SamePad(k, d)) = m
        \* the transposed convolution spans exactly what its formula says (no padding), and a convolution with the same
        \* parameters maps its output size back to the input size
        /\ Cardinality(0..(ConvTOut(m, k, s, d, 0, 0) - 1)) >= Cardinality(ConvTCovered(m, k, s, d))
        /\ \A x \in ConvTCovered(m, k, s, d) : x < ConvTOut(m, k, s, d, 0, 0)
        /\ (ConvTOut(m, k, s, d, 0, 0) - 1) \in ConvTCovered(m, k, s, d)
        /\ (ConvTOut(m, k, s, d, p, 0) >= 1) => ConvOut(ConvTOut(m, k, s, d, p, 0), k, s, d, p) = m
        \* ceil_mode never loses a window and adds at most one
        \* (torch requires pad <= kernel/2 for pooling)
        /\ (2 * p <= k) => PoolOut(m, k, s, d, p, TRUE) \in {ConvOut(m, k, s, d, p), ConvOut(m, k, s, d, p) + 1}
        /\ (2 * p <= k /\ ConvOut(m, k, s, d, p) >= 1) => (PoolOut(m, k, s, d, p, TRUE) - 1) * s < m + p   \* every window starts inside
    ELSE
        LET m == ca.m  k == ca.k  s == ca.s IN
        \* upsampling by transposed convolution: exactly m * s samples
        /\ UpPad(k, s) >= 0 /\ UpOutPad(k, s) \in {0, 1}
        /\ ConvTOut(m, k, s, 1, UpPad(k, s), UpOutPad(k, s)) = m * s

Emit == (EmitCases /\ st = 1) =>
    IF ca.kind = "conv" THEN
        PrintT(ToJson([kind |-> "conv", m |-> ca.m, k |-> ca.k, s |-> ca.s, d |-> ca.d, p |-> ca.p,
                       conv |-> ConvOut(ca.m, ca.k, ca.s, ca.d, ca.p),
                       pool |-> PoolOut(ca.m, ca.k, ca.s, ca.d, ca.p, FALSE), pool_ceil |-> PoolOut(ca.m, ca.k, ca.s, ca.d, ca.p, TRUE),
                       convt |-> ConvTOut(ca.m, ca.k, ca.s, ca.d, ca.p, 0), convt_op |-> ConvTOut(ca.m, ca.k, ca.s, ca.d, ca.p, ca.s - 1),
                       same |-> IF SameDefined(ca.k, ca.d) THEN SamePad(ca.k, ca.d) ELSE -1,
                       pad |-> PadOut(ca.m, ca.p, ca.k)]))
    ELSE PrintT(ToJson([kind |-> "up", m |-> ca.m, k |-> ca.k, s |-> ca.s, pad |-> UpPad(ca.k, ca.s), outpad |-> UpOutPad(ca.k, ca.s),
                        out |-> ca.m * ca.s]))
=============================================================================
