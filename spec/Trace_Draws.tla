---------------------------- MODULE Trace_Draws ----------------------------
(***************************************************************************)
(* Random draws (core/random.py: multinomial, _multinomial; core/image.py:   *)
(* rand_sample) - beyond the listed properties.  As in Sampler.tla a draw    *)
(* is nondeterministic in the specification: ANY sequence of indices is      *)
(* legal that has the requested length, takes only indices of positive       *)
(* weight and does not repeat an index when replacement is off; refusing is  *)
(* legal exactly when such a sequence does not exist for the documented      *)
(* reason (more samples than categories).  rand_sample must return, for      *)
(* every input tensor, the values AT THE SAME drawn positions.  Recorded     *)
(* calls are judged by this module (code -> spec).                           *)
(***************************************************************************)
EXTENDS Integers, Sequences, FiniteSets, TLC, Json, IOUtils
Distinct(s) == \A i, j \in 1..Len(s) : i # j => s[i] # s[j]
LegalRow(row, w, n, repl) ==
    /\ Len(row) = n
    /\ \A k \in 1..n : row[k] + 1 \in 1..Len(w) /\ w[row[k] + 1] > 0
    /\ (~repl => Distinct(row))
Positive(w) == Cardinality({i \in 1..Len(w) : w[i] > 0})
Clause(ev) ==
    IF ev.kind = "draw" THEN
        IF ev.refused THEN (IF ~ev.replacement /\ Len(ev.weights[1]) < ev.n THEN "ok" ELSE "refused-a-legal-request")
        ELSE IF ~ev.replacement /\ Len(ev.weights[1]) < ev.n THEN "accepted-an-impossible-request"
        ELSE IF Len(ev.rows) # Len(ev.weights) THEN "shape"
        ELSE IF \E m \in 1..Len(ev.rows) : ~LegalRow(ev.rows[m], ev.weights[m], ev.n, ev.replacement) THEN "illegal-draw"
        ELSE "ok"
    ELSE \* "sample": values of two channels/tensors at the drawn positions; v1[k] and v2[k] must come from ONE position p with a[p] = v1[k], b[p] = v2[k]
        IF ev.refused THEN (IF ~ev.replacement /\ Len(ev.a) < ev.n THEN "ok" ELSE "refused-a-legal-request")
        ELSE IF Len(ev.v1) # ev.n \/ Len(ev.v2) # ev.n THEN "shape"
        ELSE IF \E k \in 1..ev.n : ~\E p \in 1..Len(ev.a) : ev.a[p] = ev.v1[k] /\ ev.b[p] = ev.v2[k] /\ ev.mask[p] > 0 THEN "values-from-different-or-masked-positions"
        ELSE IF ~ev.replacement /\ ~Distinct(ev.v1) THEN "repeated-position"      \* the harness makes all values of a distinct
        ELSE "ok"
Tr == ndJsonDeserialize(IOEnv.TRACE_FILE)
VARIABLES l, bad
tvars == <<l, bad>>
TInit == l = 1 /\ bad = {}
Consume == /\ l <= Len(Tr) /\ l' = l + 1
           /\ bad' = IF Tr[l].k = 0 \/ Clause(Tr[l]) = "ok" THEN bad ELSE bad \cup {<<Tr[l].tid, Tr[l].k, Clause(Tr[l])>>}
TSpec == TInit /\ [][Consume]_tvars
Done == l = Len(Tr) + 1
Report == Done => PrintT(ToJson([rejected |-> bad, lines |-> Len(Tr)]))
Consumed == TLCGet("stats").diameter = Len(Tr) + 1
=============================================================================
