------------------------------ MODULE Indexing ------------------------------
(***************************************************************************)
(* Index and sequence helpers (core/tensor.py, core/itertools.py) - beyond   *)
(* the listed properties: flat index <-> grid coordinates in both orders,    *)
(* moving a tensor dimension, parity of permutations, repeat_last /          *)
(* zip_longest_repeat_last, one-hot encoding with an ignore label and        *)
(* batched index selection, as exact integer definitions with their laws.    *)
(***************************************************************************)
EXTENDS Integers, Sequences, FiniteSets, TLC, Json

RECURSIVE Prod(_)
Prod(s) == IF s = <<>> THEN 1 ELSE Head(s) * Prod(Tail(s))
Rev(s) == [i \in 1..Len(s) |-> s[Len(s) + 1 - i]]
\* grid coordinates of flat index i for a grid of size (X, Y, ...): x runs fastest
RECURSIVE UnravelCoords(_, _)
UnravelCoords(i, size) == IF size = <<>> THEN <<>> ELSE <<i % Head(size)>> \o UnravelCoords(i \div Head(size), Tail(size))
RECURSIVE RavelCoords(_, _)
RavelCoords(c, size) == IF size = <<>> THEN 0 ELSE Head(c) + Head(size) * RavelCoords(Tail(c), Tail(size))
\* numpy order: coordinates in the order of the shape, LAST dimension fastest
UnravelIndex(i, shape) == Rev(UnravelCoords(i, Rev(shape)))

\* order of the dimensions after moving dimension d to position p (0-based, like numpy.moveaxis)
Without(s, d) == [i \in 1..(Len(s) - 1) |-> IF i <= d THEN s[i] ELSE s[i + 1]]                   \* d 0-based
InsertAt(s, p, v) == [i \in 1..(Len(s) + 1) |-> IF i <= p THEN s[i] ELSE IF i = p + 1 THEN v ELSE s[i - 1]]
MoveDim(order, d, p) == InsertAt(Without(order, d), p, order[d + 1])
Norm(k, n) == IF k < 0 THEN n + k ELSE k

Inversions(pi) == Cardinality({<<i, j>> \in (1..Len(pi)) \X (1..Len(pi)) : i < j /\ pi[i] > pi[j]})
IsEven(pi) == Inversions(pi) % 2 = 0
Compose(p, q) == [i \in 1..Len(p) |-> p[q[i] + 1]]           \* permutations of 0..n-1 as sequences

RepeatLast(s, n) == [i \in 1..n |-> IF i <= Len(s) THEN s[i] ELSE s[Len(s)]]
MaxLen(ss) == CHOOSE m \in {Len(ss[k]) : k \in 1..Len(ss)} : \A k \in 1..Len(ss) : Len(ss[k]) <= m
ZipLongest(ss) == [i \in 1..MaxLen(ss) |-> [k \in 1..Len(ss) |-> RepeatLast(ss[k], MaxLen(ss))[i]]]

\* one-hot encoding of a label sequence with C classes; ig = -1 means no ignore label
OneHot(labels, C, ig) == [c \in 1..C |-> [i \in 1..Len(labels) |-> IF labels[i] = ig THEN ig ELSE IF labels[i] = c - 1 THEN 1 ELSE 0]]

CONSTANTS Sizes, Perms, SeqSets, LabelSeqs, EmitCases
VARIABLES st, ca
vars == <<st, ca>>
Init == st = 0 /\ ca = [kind |-> ""]
PickSize == st = 0 /\ \E s \in Sizes : ca' = [kind |-> "unravel", size |-> s] /\ st' = 1
PickMove == st = 0 /\ \E n \in 2..5, d \in -5..4, p \in -5..4 : d \in -n..(n - 1) /\ p \in -n..(n - 1) /\ ca' = [kind |-> "move", n |-> n, d |-> d, p |-> p] /\ st' = 1
PickPerm == st = 0 /\ \E p \in Perms, q \in Perms : Len(p) = Len(q) /\ ca' = [kind |-> "perm", p |-> p, q |-> q] /\ st' = 1
PickZip == st = 0 /\ \E ss \in SeqSets : ca' = [kind |-> "zip", ss |-> ss] /\ st' = 1
PickHot == st = 0 /\ \E l \in LabelSeqs, ig \in {-1, 2} : ca' = [kind |-> "onehot", labels |-> l, C |-> 3, ig |-> ig] /\ st' = 1
Next == PickSize \/ PickMove \/ PickPerm \/ PickZip \/ PickHot
Spec == Init /\ [][Next]_vars

Laws == st = 1 =>
    CASE ca.kind = "unravel" ->
            LET s == ca.size  N == Prod(s) IN
            /\ \A i \in 0..(N - 1) : RavelCoords(UnravelCoords(i, s), s) = i
            /\ \A i \in 0..(N - 1) : \A d \in 1..Len(s) : UnravelCoords(i, s)[d] \in 0..(s[d] - 1)
            /\ Cardinality({UnravelCoords(i, s) : i \in 0..(N - 1)}) = N                 \* bijection
            /\ \A i \in 0..(N - 2) : UnravelCoords(i + 1, s)[1] = (UnravelCoords(i, s)[1] + 1) % s[1]   \* x runs fastest
            /\ \A i \in 0..(N - 1) : UnravelIndex(i, Rev(s)) = Rev(UnravelCoords(i, s))
      [] ca.kind = "move" ->
            LET n == ca.n  id == [i \in 1..n |-> i - 1]  d == Norm(ca.d, n)  p == Norm(ca.p, n)  m == MoveDim(id, d, p) IN
            /\ m[p + 1] = d                                                                  \* the moved dimension sits at the position
            /\ {m[i] : i \in 1..n} = 0..(n - 1)
            /\ \A i, j \in 1..n : (i < j /\ m[i] # d /\ m[j] # d) => m[i] < m[j]           \* the others keep their order
            /\ MoveDim(m, p, d) = id                                                         \* moving back restores
      [] ca.kind = "perm" ->
            /\ IsEven(Compose(ca.p, ca.q)) = (IsEven(ca.p) = IsEven(ca.q))                  \* the sign is multiplicative
            /\ IsEven([i \in 1..Len(ca.p) |-> i - 1])
      [] ca.kind = "zip" ->
            LET z == ZipLongest(ca.ss) IN
            /\ Len(z) = MaxLen(ca.ss)
            /\ \A k \in 1..Len(ca.ss) : \A i \in 1..Len(ca.ss[k]) : z[i][k] = ca.ss[k][i]
      [] ca.kind = "onehot" ->
            LET h == OneHot(ca.labels, ca.C, ca.ig) IN
            \A i \in 1..Len(ca.labels) : IF ca.labels[i] = ca.ig THEN \A c \in 1..ca.C : h[c][i] = ca.ig
                                         ELSE h[ca.labels[i] + 1][i] = 1 /\ Cardinality({c \in 1..ca.C : h[c][i] = 1}) = 1

Emit == (EmitCases /\ st = 1) =>
    CASE ca.kind = "unravel" -> PrintT(ToJson([kind |-> "unravel", size |-> ca.size, coords |-> [i \in 1..Prod(ca.size) |-> UnravelCoords(i - 1, ca.size)],
                                               index |-> [i \in 1..Prod(ca.size) |-> UnravelIndex(i - 1, Rev(ca.size))]]))
      [] ca.kind = "move" -> PrintT(ToJson([kind |-> "move", n |-> ca.n, d |-> ca.d, p |-> ca.p,
                                            order |-> MoveDim([i \in 1..ca.n |-> i - 1], Norm(ca.d, ca.n), Norm(ca.p, ca.n))]))
      [] ca.kind = "perm" -> PrintT(ToJson([kind |-> "perm", p |-> ca.p, even |-> IsEven(ca.p), inversions |-> Inversions(ca.p)]))
      [] ca.kind = "zip" -> PrintT(ToJson([kind |-> "zip", ss |-> ca.ss, out |-> ZipLongest(ca.ss), n |-> MaxLen(ca.ss),
                                           rl |-> [k \in 1..Len(ca.ss) |-> RepeatLast(ca.ss[k], MaxLen(ca.ss) + 1)]]))
      [] ca.kind = "onehot" -> PrintT(ToJson([kind |-> "onehot", labels |-> ca.labels, C |-> ca.C, ig |-> ca.ig, out |-> OneHot(ca.labels, ca.C, ca.ig)]))
=============================================================================
