----------------------------- MODULE Rotations -----------------------------
(* Enumeration of rotation cases over the definitions of Rotations0 (property C08). *)
EXTENDS Rotations0

CONSTANTS Angles,      \* set of (cos, sin) pairs
          HalfAngles,  \* (cos, sin) of HALF the rotation angle for axis-angle / quaternion cases
          Orders,      \* set of order triples
          EmitCases
VARIABLES st, ca
vars == <<st, ca>>
NoCase == [kind |-> "", order |-> <<>>, cs |-> <<>>, axis |-> <<>>]
Init == st = 0 /\ ca = NoCase
PickEuler == st = 0 /\ \E o \in Orders, a \in Angles, b \in Angles, c \in Angles :
                 ca' = [kind |-> "euler", order |-> o, cs |-> <<a, b, c>>, axis |-> <<>>] /\ st' = 1
PickAxis  == st = 0 /\ \E k \in UnitAxes, a \in HalfAngles :
                 ca' = [kind |-> "axis", order |-> <<>>, cs |-> <<a>>, axis |-> k] /\ st' = 1
Pick2D    == st = 0 /\ \E a \in Angles : ca' = [kind |-> "planar", order |-> <<>>, cs |-> <<a>>, axis |-> <<>>] /\ st' = 1
Next == PickEuler \/ PickAxis \/ Pick2D
Spec == Init /\ [][Next]_vars

Mat(c) == CASE c.kind = "euler" -> Euler(c.order, c.cs)
            [] c.kind = "axis"  -> AxisAngleMat(c.axis, Dbl(c.cs[1]))    \* angle = twice the lattice angle
            [] c.kind = "planar" -> Rot2Of(c.cs[1])
Laws ==
    st = 1 =>
        /\ IsProper(Mat(ca))
        /\ ca.kind = "axis" =>
              /\ QMat(QuatOf(ca.axis, ca.cs[1])) = Mat(ca)                       \* quaternion and axis-angle agree
              /\ QMat([i \in 1..4 |-> RNeg(QuatOf(ca.axis, ca.cs[1])[i])]) = Mat(ca)  \* q and -q are the same rotation
              /\ MVec(Mat(ca), ca.axis) = ca.axis                                \* the axis is fixed
        /\ ca.kind = "euler" =>
              \* every Euler matrix is a product of three elementary rotations, each about a coordinate axis
              /\ Euler(ca.order, <<CS_Id, CS_Id, CS_Id>>) = MId(3)
              /\ Euler(ca.order, <<ca.cs[1], CS_Id, CS_Id>>) = Elem(ca.order[1], ca.cs[1])
Emit == (EmitCases /\ st = 1) =>
    PrintT(ToJson([kind |-> ca.kind, order |-> ca.order, cs |-> ca.cs, axis |-> ca.axis, M |-> Mat(ca),
                   quat |-> IF ca.kind = "axis" THEN QuatOf(ca.axis, ca.cs[1]) ELSE <<>>,
                   cs2 |-> IF ca.kind = "axis" THEN Dbl(ca.cs[1]) ELSE <<>>]))
=============================================================================
