------------------------------ MODULE MC_Image ------------------------------
EXTENDS Image
G(n, h, c, RR, ac) == WithS([n |-> n, h |-> h, c |-> c, R |-> RR, ac |-> ac])
Both(S) == {[gg EXCEPT !.ac = a] : gg \in S, a \in BOOLEAN}
IBases == Both({
    G(<<7, 4>>, <<R(3,2), R(1,2)>>, <<RI(-3), R(7,4)>>, Rot2Of(CS_3_5), TRUE),
    G(<<8, 6>>, <<One, R(3,4)>>, <<One, Zero>>, Rot2Of(CS_Id), TRUE),
    G(<<4, 6, 5>>, <<One, R(5,4), R(1,2)>>, <<R(1,2), RI(-3), R(7,4)>>, QuatMat(<<2,1,0,0>>), TRUE)})
AcArgs == {-1, 0, 1}
Sizes(D)  == IF D = 2 THEN {<<5, 3>>, <<9, 8>>, <<7, 4>>} ELSE {<<5, 8, 4>>, <<3, 4, 6>>}
\* (the third 2-D spacing is a few percent off the spacing of the second base grid: the resampled image keeps its SHAPE but not its spacing)
Hs(D)     == IF D = 2 THEN {<<One, One>>, <<R(3,4), R(1,2)>>, <<R(33,32), R(25,32)>>} ELSE {<<R(3,4), Two, R(1,2)>>}
DimSets(D) == IF D = 2 THEN {<<>>, <<0>>, <<1>>} ELSE {<<>>, <<0, 2>>}
Margins(D) == IF D = 2 THEN {<<<<1, 0>>, <<2, 1>>>>, <<<<-2, 1>>, <<0, -1>>>>, <<<<1, 1>>, <<1, 1>>>>}
              ELSE {<<<<1, 0, 1>>, <<2, 1, 0>>>>, <<<<-1, 2, 0>>, <<0, -2, 1>>>>}
Rois(D) == IF D = 2 THEN {<<<<1, 1>>, <<3, 2>>>>, <<<<-1, 0>>, <<4, 6>>>>} ELSE {<<<<1, 2, 0>>, <<2, 3, 2>>>>, <<<<0, -1, 1>>, <<5, 4, 3>>>>}
ConvReach(D) == IF D = 2 THEN {<<1, 1>>, <<2, 1>>, <<0, 1>>} ELSE {<<1, 1, 1>>, <<1, 2, 0>>}
IOpsOf(D) ==
    {[op |-> "resize", n |-> n, ac |-> a] : n \in Sizes(D), a \in AcArgs}
    \cup {[op |-> "resample", h |-> h, min |-> 1] : h \in Hs(D)}
    \cup {[op |-> "downsample", levels |-> l, dims |-> d, min |-> m, ac |-> a] : l \in {1}, d \in DimSets(D), m \in {1, 3}, a \in AcArgs}
    \cup {[op |-> "upsample", levels |-> 1, dims |-> d, ac |-> a] : d \in DimSets(D), a \in AcArgs}
    \cup {[op |-> "crop", lo |-> m[1], hi |-> m[2]] : m \in Margins(D)}
    \cup {[op |-> "pad", lo |-> m[1], hi |-> m[2]] : m \in Margins(D)}
    \cup {[op |-> "center_crop", n |-> n] : n \in Sizes(D)}
    \cup {[op |-> "center_pad", n |-> n] : n \in Sizes(D)}
    \cup {[op |-> "narrow", dim |-> d, start |-> 1, len |-> 2] : d \in 0..(D - 1)}
    \cup {[op |-> "roi", start |-> r[1], n |-> r[2]] : r \in Rois(D)}
    \cup {[op |-> "pool", k |-> k, ceil |-> cm] : k \in {2, 3}, cm \in BOOLEAN}
    \cup {[op |-> "conv", r |-> r, valid |-> v] : r \in ConvReach(D), v \in BOOLEAN}
=============================================================================
