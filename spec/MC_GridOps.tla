---------------------------- MODULE MC_GridOps ----------------------------
EXTENDS GridOps

G(n, h, c, RR, ac) == WithS([n |-> n, h |-> h, c |-> c, R |-> RR, ac |-> ac])
Both(S) == {[gg EXCEPT !.ac = a] : gg \in S, a \in BOOLEAN}

QBases == Both({
    G(<<7, 4>>, <<R(3,2), R(1,2)>>, <<RI(-3), R(7,4)>>, Rot2Of(CS_3_5), TRUE),
    G(<<8, 5>>, <<One, One>>, <<Zero, Zero>>, Rot2Of(CS_Id), TRUE),
    G(<<4, 7, 3>>, <<One, R(5,4), R(1,2)>>, <<R(1,2), RI(-3), R(7,4)>>, QuatMat(<<1,2,2,4>>), TRUE)})
TBases == QBases \cup Both({
    G(<<9, 6>>, <<R(5,4), R(3,4)>>, <<RI(10), R(-1,2)>>, FlipX(Rot2Of(CS_5_13)), TRUE),
    G(<<5, 12>>, <<Two, R(1,4)>>, <<One, One>>, Rot2Of(CS_90), TRUE),
    G(<<8, 6, 5>>, <<R(3,2), R(1,2), Two>>, <<Zero, RI(5), RI(-1)>>, QuatMat(<<1,1,1,1>>), TRUE),
    G(<<3, 4, 9>>, <<One, One, One>>, <<Zero, Zero, Zero>>, QuatMat(<<2,3,6,0>>), TRUE)})

\* rounding-sensitive grids: sample 0 exactly at the world origin, non-dyadic spacing, larger sizes, far-away centres
AtOrigin(n, h, RR, ac) == LET A == MMul(RR, MDiag(h)) IN G(n, h, MVec(A, E([i \in 1..Len(n) |-> R(n[i] - 1, 2)])), RR, ac)
RBases == Both({AtOrigin(<<10, 7>>, <<R(3,10), R(7,10)>>, Rot2Of(CS_Id), TRUE),
                AtOrigin(<<33, 20>>, <<R(1,10), R(1,20)>>, Rot2Of(CS_3_5), TRUE),
                AtOrigin(<<17, 9, 12>>, <<R(7,10), R(3,10), R(1,10)>>, QuatMat(<<1,0,0,0>>), TRUE),
                G(<<12, 15>>, <<R(3,10), R(1,10)>>, <<RI(500), RI(-480)>>, Rot2Of(CS_5_13), TRUE)})
RBasesT == RBases \cup Both({AtOrigin(<<100, 61>>, <<R(3,10), R(7,10)>>, Rot2Of(CS_Id), TRUE),
                AtOrigin(<<300, 7>>, <<R(1,20), R(9,10)>>, Rot2Of(CS_12_13n), TRUE),
                AtOrigin(<<41, 29, 30>>, <<R(1,10), R(7,10), R(3,10)>>, QuatMat(<<1,2,2,4>>), TRUE),
                G(<<64, 50>>, <<R(7,10), R(7,10)>>, <<RI(-500), RI(1000)>>, Rot2Of(CS_90), TRUE)})
AcArgs == {-1, 0, 1}
Sizes(D)  == IF D = 2 THEN {<<2, 2>>, <<5, 3>>, <<9, 8>>, <<7, 4>>} ELSE {<<2, 3, 2>>, <<5, 8, 4>>}
Hs(D)     == IF D = 2 THEN {<<One, One>>, <<R(3,4), R(1,2)>>, <<Two, R(3,2)>>} ELSE {<<One, One, One>>, <<R(3,4), Two, R(1,2)>>}
DimSets(D) == IF D = 2 THEN {<<>>, <<0>>, <<1>>} ELSE {<<>>, <<0, 2>>, <<1>>}
Margins(D) == IF D = 2 THEN {<<<<1, 0>>, <<2, 1>>>>, <<<<-2, 1>>, <<0, -1>>>>, <<<<0, 3>>, <<0, 0>>>>, <<<<1, 1>>, <<1, 1>>>>}
              ELSE {<<<<1, 0, 1>>, <<2, 1, 0>>>>, <<<<-1, 2, 0>>, <<0, -2, 1>>>>}
Rois(D) == IF D = 2 THEN {<<<<1, 1>>, <<3, 2>>>>, <<<<-1, 0>>, <<4, 6>>>>, <<<<2, 0>>, <<9, 2>>>>}
           ELSE {<<<<1, 2, 0>>, <<2, 3, 2>>>>, <<<<0, -1, 1>>, <<5, 4, 3>>>>}

QOpsOf(D) ==
    {[op |-> "resize", n |-> n, ac |-> a] : n \in Sizes(D), a \in AcArgs}
    \cup {[op |-> "reshape", n |-> n, ac |-> a] : n \in {CHOOSE x \in Sizes(D) : x[1] # x[D]}, a \in {-1}}
    \cup {[op |-> "resample", h |-> h, min |-> m] : h \in Hs(D), m \in {1, 4}}
    \cup {[op |-> "downsample", levels |-> l, dims |-> d, min |-> m, ac |-> a] : l \in {1, 2}, d \in DimSets(D), m \in {1, 3}, a \in AcArgs}
    \cup {[op |-> "upsample", levels |-> l, dims |-> d, ac |-> a] : l \in {1, 2}, d \in DimSets(D), a \in AcArgs}
    \cup {[op |-> "crop", lo |-> m[1], hi |-> m[2]] : m \in Margins(D)}
    \cup {[op |-> "pad", lo |-> m[1], hi |-> m[2]] : m \in Margins(D)}
    \cup {[op |-> "center_crop", n |-> n] : n \in Sizes(D)}
    \cup {[op |-> "center_pad", n |-> n] : n \in Sizes(D)}
    \cup {[op |-> "narrow", dim |-> d, start |-> st, len |-> l] : d \in 0..(D - 1), st \in {0, 1}, l \in {1, 2}}
    \cup {[op |-> "roi", start |-> r[1], n |-> r[2]] : r \in Rois(D)}
    \cup {[op |-> "pool", k |-> k, ceil |-> cm] : k \in {2, 3}, cm \in BOOLEAN}
=============================================================================
