-------------------------------- MODULE Image --------------------------------
(***************************************************************************)
(* Images = sampling grid + data (data/image.py, core/image.py).  Every    *)
(* spatial operation of an image acts on BOTH: the grid changes as in      *)
(* GridOps, and the data must afterwards lie where the new grid says.      *)
(* With an image whose intensity is the world-linear ramp a.x + b, "in     *)
(* lock-step" becomes checkable exactly: sample j of the result must hold  *)
(* a.World(g', j) + b wherever World(g', j) lies inside the sample hull of *)
(* the original image and of every intermediate result.  Property C04.     *)
(***************************************************************************)
EXTENDS GridOps

Ramp(a, b, x) == RAdd(Dot(a, x), b)
\* grids after 0..k operations
RECURSIVE GridsAlong(_, _)
GridsAlong(g, ops) == IF ops = <<>> THEN <<g>> ELSE <<g>> \o GridsAlong(Apply(g, Head(ops)), Tail(ops))
InHullOf(gg, x) == LET i == AffApply(AffInv(IndexToWorld(gg)), x) IN
                   \A k \in 1..GDim(gg) : RLe(Zero, i[k]) /\ RLe(i[k], RI(gg.n[k] - 1))
\* probe indices of a grid: all corners and the (rounded-down) centre
CornerIdx(n) == IF Len(n) = 2 THEN << <<0, 0>>, <<n[1] - 1, 0>>, <<0, n[2] - 1>>, <<n[1] - 1, n[2] - 1>>, <<(n[1] - 1) \div 2, (n[2] - 1) \div 2>>, <<n[1] \div 2, (n[2] - 1) \div 2>> >>
                ELSE << <<0, 0, 0>>, <<n[1] - 1, 0, 0>>, <<0, n[2] - 1, 0>>, <<0, 0, n[3] - 1>>, <<n[1] - 1, n[2] - 1, n[3] - 1>>,
                        <<(n[1] - 1) \div 2, (n[2] - 1) \div 2, (n[3] - 1) \div 2>> >>
\* Is the value of sample j of the final grid fully determined by the ramp?  It is when every input sample that
\* contributed to it carries a ramp value: padding (pad, center_pad, overhanging ROI, extrapolating resize, partial
\* pooling windows) introduces samples that do not, and a later interpolating / averaging step spreads them.
IndexOnly == {"crop", "pad", "center_crop", "center_pad", "narrow", "roi"}
PureCrop == {"crop", "center_crop", "narrow"}
PoolWindowOK(gp, o, j) == o.op = "pool" => \A k \in 1..Len(j) : o.k * j[k] + o.k - 1 <= gp.n[k] - 1
\* a symmetric unit-sum kernel reproduces the ramp at output sample j iff its whole support lies on samples of the input grid gp
ConvWindowOK(gp, o, j) == o.op = "conv" =>
    \A k \in 1..Len(j) : LET jj == IF o.valid THEN j[k] + o.r[k] ELSE j[k] IN jj - o.r[k] >= 0 /\ jj + o.r[k] <= gp.n[k] - 1
Clean(gs, ops, j, x) ==
    IF Len(ops) = 1 THEN InHullOf(gs[1], x) /\ PoolWindowOK(gs[1], ops[1], j) /\ ConvWindowOK(gs[1], ops[1], j)
    ELSE IF ops[2].op \in IndexOnly
         THEN /\ InHullOf(gs[1], x) /\ InHullOf(gs[2], x)
              /\ ops[1].op \notin {"pool", "conv"}
         ELSE /\ ops[1].op \in PureCrop /\ (ops[1].op = "crop" => \A k \in 1..Len(j) : ops[1].lo[k] >= 0 /\ ops[1].hi[k] >= 0)
              /\ InHullOf(gs[2], x) /\ PoolWindowOK(gs[2], ops[2], j) /\ ConvWindowOK(gs[2], ops[2], j)
ProbesOfChain(b, ops, a, bb) ==
    LET gs == GridsAlong(b, ops)
        gf == gs[Len(gs)]
        J  == CornerIdx(gf.n) IN
    E([k \in 1..Len(J) |->
        LET x == AffApply(IndexToWorld(gf), VInt(J[k])) IN
        [j |-> J[k], x |-> x, val |-> Ramp(a, bb, x),
         inside |-> Len(ops) <= 2 /\ Clean(gs, ops, J[k], x)]])

RampA(D) == IF D = 2 THEN <<R(3,2), RI(-2)>> ELSE <<R(3,2), RI(-2), R(1,2)>>
RampB == RI(5)

\* lock-step law on the model: an index-only operation keeps every retained sample's world position, hence its ramp value
LockStep ==
    (hist # <<>> /\ hist[Len(hist)].op \in IndexOnly) =>
        LET o == hist[Len(hist)] IN
        \A j \in {CornerIdx(cur.n)[k] : k \in 1..Len(CornerIdx(cur.n))} :
            LET x == AffApply(IndexToWorld(cur), VInt(j))
                i == AffApply(AffInv(IndexToWorld(prev)), x) IN
            \* the world point of the new sample is an integer index of the previous grid
            \A k \in 1..GDim(cur) : RIsInt(i[k])

EmitImage == (EmitCases /\ hist # <<>>) =>
    PrintT(ToJson([base |-> base, hist |-> hist, g |-> cur, origin |-> Origin(cur), cube_extent |-> CubeExtent(cur, cur.ac),
                   a |-> RampA(GDim(base)), b |-> RampB,
                   probes |-> ProbesOfChain(base, hist, RampA(GDim(base)), RampB)]))
=============================================================================
