------------------------------- MODULE Grad -------------------------------
(***************************************************************************)
(* Exact derivatives (property C20), layer 1.  For the operations whose    *)
(* restriction to a line is a polynomial of degree <= 2 - (bi)linear       *)
(* interpolation inside a cell, affine maps of points, sums of squares,    *)
(* cubic B-spline evaluation as a function of its coefficients - the       *)
(* derivative is an exact rational AND equals the central difference       *)
(* quotient for every admissible step (law FDExact, checked by TLC): the   *)
(* statement "autograd agrees with a central finite-difference estimate"   *)
(* has an exact meaning on this class.  Also the rational-function         *)
(* gradient of the Dice overlap.  Every leaf is emitted with value and     *)
(* gradients and compared with torch.autograd on the real operations.      *)
(* Layer 2 (all other operations) is Trace_Grad.tla.                       *)
(***************************************************************************)
EXTENDS BSpline

(* ---- (bi)linear interpolation of an image I[j][i] (row j = y, column i = x, 1-based) at index coordinates (x, y) ---- *)
Cell(x, n) == IMin(RFloor(x), n - 2)                       \* index of the cell containing x in [0, n-1]
Px(I, i, j) == RI(I[j + 1][i + 1])
Bilin(I, x, y) ==
    LET nx == Len(I[1])  ny == Len(I)  i == Cell(x, nx)  j == Cell(y, ny)
        a == RSub(x, RI(i))  b == RSub(y, RI(j))  a1 == RSub(One, a)  b1 == RSub(One, b)
    IN  RAdd(RAdd(RMul(RMul(a1, b1), Px(I, i, j)), RMul(RMul(a, b1), Px(I, i + 1, j))),
             RAdd(RMul(RMul(a1, b), Px(I, i, j + 1)), RMul(RMul(a, b), Px(I, i + 1, j + 1))))
BilinDx(I, x, y) ==
    LET nx == Len(I[1])  ny == Len(I)  i == Cell(x, nx)  j == Cell(y, ny)  b == RSub(y, RI(j)) IN
    RAdd(RMul(RSub(One, b), RSub(Px(I, i + 1, j), Px(I, i, j))), RMul(b, RSub(Px(I, i + 1, j + 1), Px(I, i, j + 1))))
BilinDy(I, x, y) ==
    LET nx == Len(I[1])  ny == Len(I)  i == Cell(x, nx)  j == Cell(y, ny)  a == RSub(x, RI(i)) IN
    RAdd(RMul(RSub(One, a), RSub(Px(I, i, j + 1), Px(I, i, j))), RMul(a, RSub(Px(I, i + 1, j + 1), Px(I, i + 1, j))))
\* derivative w.r.t. the image: the interpolation weights
BilinDI(I, x, y) ==
    LET nx == Len(I[1])  ny == Len(I)  i == Cell(x, nx)  j == Cell(y, ny)
        a == RSub(x, RI(i))  b == RSub(y, RI(j))
    IN  E([jj \in 1..ny |-> E([ii \in 1..nx |->
            RMul(IF ii = i + 1 THEN RSub(One, a) ELSE IF ii = i + 2 THEN a ELSE Zero,
                 IF jj = j + 1 THEN RSub(One, b) ELSE IF jj = j + 2 THEN b ELSE Zero)])])
\* normalised coordinate -> index coordinate, and its derivative
ToIdx(u, n, ac) == IF ac THEN RMul(RDiv(RAdd(u, One), Two), RI(n - 1)) ELSE RDiv(RSub(RMul(RAdd(u, One), RI(n)), One), Two)
DIdx(n, ac) == IF ac THEN R(n - 1, 2) ELSE R(n, 2)
Interior(x, n) == RLt(Zero, x) /\ RLt(x, RI(n - 1)) /\ RI(RFloor(x)) # x      \* inside the image, not on a kink

(* ---- sums of squares and overlap ---- *)
SqDiff(x, y) == RSumSeq(E([i \in 1..Len(x) |-> RSq(RSub(x[i], y[i]))]))
MSE(x, y) == RDiv(SqDiff(x, y), RI(Len(x)))
MSEGrad(x, y) == E([i \in 1..Len(x) |-> RDiv(RMul(Two, RSub(x[i], y[i])), RI(Len(x)))])
VDot(a, b) == RSumSeq(E([i \in 1..Len(a) |-> RMul(a[i], b[i])]))
\* soft Dice = 2 <p,t> / (<p,p> + <t,t>)  (the library's dice_score); loss = 1 - Dice
DiceS(p, t) == RDiv(RMul(Two, VDot(p, t)), RAdd(VDot(p, p), VDot(t, t)))
DiceGrad(p, t) == LET N == RMul(Two, VDot(p, t))  Dn == RAdd(VDot(p, p), VDot(t, t)) IN
    E([i \in 1..Len(p) |-> RDiv(RSub(RMul(RMul(Two, t[i]), Dn), RMul(N, RMul(Two, p[i]))), RSq(Dn))])
WithAt(x, i, v) == E([k \in 1..Len(x) |-> IF k = i THEN v ELSE x[k]])

(* ---- affine map of points y = A x + t: gradient of sum_k <c_k, y_k> ---- *)
PtsGradT(cs) == E([i \in 1..Len(cs[1]) |-> RSumSeq(E([k \in 1..Len(cs) |-> cs[k][i]]))])
PtsGradA(cs, xs) == E([i \in 1..Len(cs[1]) |-> E([j \in 1..Len(xs[1]) |->
                        RSumSeq(E([k \in 1..Len(cs) |-> RMul(cs[k][i], xs[k][j])]))])])
PtsValue(A, t, cs, xs) == RSumSeq(E([k \in 1..Len(xs) |-> VDot(cs[k], VAdd(MVec(A, xs[k]), t))]))

(* ---- cubic B-spline: derivative of the value at sample p w.r.t. coefficient q is the basis weight ---- *)
SplW(s, p, q) == Beta(R(p - s * (q - 2), s), 0)
SplGrad(nc, s, a) == E([q \in 1..nc |-> RSumSeq(E([p \in 1..Len(a) |-> RMul(RI(a[p]), SplW(s, p - 1, q))]))])
SplValue(c, s, a) == RSumSeq(E([p \in 1..Len(a) |-> RMul(RI(a[p]), EvalT(c, s, p - 1))]))

(* ---- enumeration ---- *)
CONSTANTS Images, NormCoords, Steps, VecPairs, SegPairsR, PointSets, SplCases, EmitG
VARIABLES gst, gca
gvars == <<gst, gca, st, ca>>      \* st, ca: the (idle) enumeration variables of the extended BSpline module
GInit == gst = 0 /\ gca = [kind |-> ""] /\ Init
PickSample == gst = 0 /\ \E I \in Images, uv \in NormCoords, ac \in BOOLEAN :
                 /\ Interior(ToIdx(uv[1], Len(I[1]), ac), Len(I[1])) /\ Interior(ToIdx(uv[2], Len(I), ac), Len(I))
                 /\ gca' = [kind |-> "sample", I |-> I, u |-> uv[1], v |-> uv[2], ac |-> ac] /\ gst' = 1
PickMSE == gst = 0 /\ \E p \in VecPairs : gca' = [kind |-> "mse", x |-> p[1], y |-> p[2]] /\ gst' = 1
PickDice == gst = 0 /\ \E p \in SegPairsR : gca' = [kind |-> "dice", p |-> p[1], t |-> p[2]] /\ gst' = 1
PickPts == gst = 0 /\ \E ps \in PointSets : gca' = [kind |-> "points", A |-> ps.A, t |-> ps.t, xs |-> ps.xs, cs |-> ps.cs] /\ gst' = 1
PickSpl == gst = 0 /\ \E sc \in SplCases : gca' = [kind |-> "bspline", c |-> sc.c, s |-> sc.s, a |-> sc.a] /\ gst' = 1
GNext == (PickSample \/ PickMSE \/ PickDice \/ PickPts \/ PickSpl) /\ UNCHANGED <<st, ca>>
GSpec == GInit /\ [][GNext]_gvars

(* ---- law: on this class the central difference quotient IS the derivative ---- *)
InCellStep(x, e, n) == LET k == RFloor(x) IN RLt(RI(k), RSub(x, e)) /\ RLt(RAdd(x, e), RI(k + 1))
FDExact == gst = 1 =>
    CASE gca.kind = "sample" ->
            LET I == gca.I  x == ToIdx(gca.u, Len(I[1]), gca.ac)  y == ToIdx(gca.v, Len(I), gca.ac) IN
            \A e \in Steps : (InCellStep(x, e, Len(I[1])) /\ InCellStep(y, e, Len(I))) =>
                /\ RDiv(RSub(Bilin(I, RAdd(x, e), y), Bilin(I, RSub(x, e), y)), RMul(Two, e)) = BilinDx(I, x, y)
                /\ RDiv(RSub(Bilin(I, x, RAdd(y, e)), Bilin(I, x, RSub(y, e))), RMul(Two, e)) = BilinDy(I, x, y)
                \* along the diagonal the restriction is quadratic: still exact
                /\ RDiv(RSub(Bilin(I, RAdd(x, e), RAdd(y, e)), Bilin(I, RSub(x, e), RSub(y, e))), RMul(Two, e))
                     = RAdd(BilinDx(I, x, y), BilinDy(I, x, y))
                \* the value is the weighted sum of the pixels (linear in the image)
                /\ Bilin(I, x, y) = RSumSeq(E([j \in 1..Len(I) |-> RSumSeq(E([i \in 1..Len(I[1]) |->
                                        RMul(BilinDI(I, x, y)[j][i], RI(I[j][i]))]))]))
      [] gca.kind = "mse" ->
            \A e \in Steps : \A i \in 1..Len(gca.x) :
                RDiv(RSub(MSE(WithAt(gca.x, i, RAdd(gca.x[i], e)), gca.y), MSE(WithAt(gca.x, i, RSub(gca.x[i], e)), gca.y)), RMul(Two, e))
                    = MSEGrad(gca.x, gca.y)[i]
      [] gca.kind = "points" ->
            \A e \in Steps : \A i \in 1..Len(gca.t) :
                RDiv(RSub(PtsValue(gca.A, WithAt(gca.t, i, RAdd(gca.t[i], e)), gca.cs, gca.xs),
                          PtsValue(gca.A, WithAt(gca.t, i, RSub(gca.t[i], e)), gca.cs, gca.xs)), RMul(Two, e)) = PtsGradT(gca.cs)[i]
      [] gca.kind = "bspline" ->
            \A e \in Steps : \A q \in 1..Len(gca.c) :
                RDiv(RSub(SplValue(WithAt(gca.c, q, RAdd(gca.c[q], e)), gca.s, gca.a),
                          SplValue(WithAt(gca.c, q, RSub(gca.c[q], e)), gca.s, gca.a)), RMul(Two, e)) = SplGrad(Len(gca.c), gca.s, gca.a)[q]
      [] gca.kind = "dice" ->
            \* rational function, homogeneous of degree 0 in (p, t) and symmetric: Euler's identity ties the two partial gradients
            /\ RAdd(VDot(gca.p, DiceGrad(gca.p, gca.t)), VDot(gca.t, DiceGrad(gca.t, gca.p))) = Zero
            /\ DiceS(gca.p, gca.t) = DiceS(gca.t, gca.p)

EmitGrad == (EmitG /\ gst = 1) =>
    CASE gca.kind = "sample" ->
            LET I == gca.I  nx == Len(I[1])  ny == Len(I)  x == ToIdx(gca.u, nx, gca.ac)  y == ToIdx(gca.v, ny, gca.ac) IN
            PrintT(ToJson([kind |-> "sample", I |-> I, u |-> gca.u, v |-> gca.v, ac |-> gca.ac, value |-> Bilin(I, x, y),
                           du |-> RMul(BilinDx(I, x, y), DIdx(nx, gca.ac)), dv |-> RMul(BilinDy(I, x, y), DIdx(ny, gca.ac)),
                           dI |-> BilinDI(I, x, y)]))
      [] gca.kind = "mse" -> PrintT(ToJson([kind |-> "mse", x |-> gca.x, y |-> gca.y, value |-> MSE(gca.x, gca.y), grad |-> MSEGrad(gca.x, gca.y)]))
      [] gca.kind = "dice" -> PrintT(ToJson([kind |-> "dice", p |-> gca.p, t |-> gca.t, value |-> DiceS(gca.p, gca.t), grad |-> DiceGrad(gca.p, gca.t)]))
      [] gca.kind = "points" -> PrintT(ToJson([kind |-> "points", A |-> gca.A, t |-> gca.t, xs |-> gca.xs, cs |-> gca.cs,
                                              value |-> PtsValue(gca.A, gca.t, gca.cs, gca.xs), gt |-> PtsGradT(gca.cs), gA |-> PtsGradA(gca.cs, gca.xs)]))
      [] gca.kind = "bspline" -> PrintT(ToJson([kind |-> "bspline", c |-> gca.c, s |-> gca.s, a |-> gca.a,
                                               value |-> SplValue(gca.c, gca.s, gca.a), grad |-> SplGrad(Len(gca.c), gca.s, gca.a)]))
=============================================================================
