--------------------------- MODULE MC_Rotations ---------------------------
EXTENDS Rotations
QAngles == {CS_Id, CS_90, CS_3_5, CS_12_13n, CS_4_5n}
TAngles == CSAll
OrdersProper == ProperOrders
OrdersAll == AllOrders
=============================================================================
