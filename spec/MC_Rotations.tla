--------------------------- MODULE MC_Rotations ---------------------------
EXTENDS Rotations
QAngles == {CS_Id, CS_90, CS_3_5, CS_12_13n, CS_4_5n}
\* half angles for the axis-angle / quaternion cases: doubled they cover small, > 120 degree, 180 degree and negative angles
QHalfAngles == {CS_Id, CS_90, CS_3_5, CS_4_5n, CS_5_13, CS_7_25, CS_12_13n}
TAngles == CSAll
OrdersProper == ProperOrders
OrdersAll == AllOrders
=============================================================================
