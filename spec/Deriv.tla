-------------------------------- MODULE Deriv --------------------------------
(***************************************************************************)
(* Spatial derivatives of vector fields (core/flow.py flow_derivatives,    *)
(* jacobian_*, divergence, curl; core/image.py spatial_derivatives,        *)
(* finite_differences) on polynomial fields of degree <= 2, where the      *)
(* analytic answer is exact.  Component c of the field at physical         *)
(* position p = (i_1 h_1, .., i_D h_D) is                                  *)
(*     f_c(p) = k_c + sum_j L[c][j] p_j + sum_{j<=l} Q[c][j][l] p_j p_l.   *)
(* Properties C12 (derivatives) and the derivative part of C17.            *)
(***************************************************************************)
EXTENDS RatLA, TLC, Json

Pos(i, h) == E([k \in 1..Len(i) |-> RMul(RI(i[k]), h[k])])
\* symmetric quadratic coefficient lookup (stored for j <= l)
Qc(Q, j, l) == IF j <= l THEN Q[j][l] ELSE Q[l][j]
RECURSIVE SumTo(_, _, _)
SumTo(F(_), k, n) == IF k > n THEN Zero ELSE RAdd(F(k), SumTo(F, k + 1, n))
\* value of one component
Val(k0, L, Q, p) ==
    LET D == Len(p) IN
    RAdd(RAdd(k0, Dot(L, p)),
         RSumSeq(E([j \in 1..D |-> RSumSeq(E([l \in 1..D |-> IF j <= l THEN RMul(Q[j][l], RMul(p[j], p[l])) ELSE Zero]))])))
\* analytic first derivative d f / d p_j  and second derivative d2 f / dp_j dp_l
D1(L, Q, p, j) ==
    LET D == Len(p) IN
    RAdd(L[j], RSumSeq(E([l \in 1..D |-> RMul(IF l = j THEN RMul(Two, Qc(Q, j, j)) ELSE Qc(Q, j, l), p[l])])))
D2(Q, j, l) == IF j = l THEN RMul(Two, Qc(Q, j, j)) ELSE Qc(Q, j, l)

\* a vector field: per component [k, L, Q]
Jacobian(fld, p) == E([c \in 1..Len(fld) |-> E([j \in 1..Len(p) |-> D1(fld[c].L, fld[c].Q, p, j)])])
Divergence(fld, p) == RSumSeq(E([c \in 1..Len(fld) |-> D1(fld[c].L, fld[c].Q, p, c)]))
Curl(fld, p) ==
    LET J == Jacobian(fld, p) IN
    IF Len(p) = 2 THEN <<RSub(J[2][1], J[1][2])>>
    ELSE <<RSub(J[3][2], J[2][3]), RSub(J[1][3], J[3][1]), RSub(J[2][1], J[1][2])>>
DetIJ(fld, p, addI) ==
    LET J == Jacobian(fld, p)
        M == IF addI THEN MAdd(MId(Len(p)), J) ELSE J IN Det(M)

\* ---- where each finite-difference scheme is EXACT (margin along the differentiated axis, margin along the others)
\* first derivatives of affine fields / second derivatives of quadratic fields
Modes == {"forward", "backward", "central", "forward_central_backward", "prewitt", "sobel", "bspline"}
\* [lo, hi] margins along the differentiated axis for order-1 derivatives of AFFINE fields
Margin1(mode) == CASE mode = "forward" -> <<0, 1>> [] mode = "backward" -> <<1, 0>> [] mode = "central" -> <<1, 1>>
                   [] mode \in {"forward_central_backward", "prewitt", "sobel"} -> <<0, 0>>
                   [] mode = "bspline" -> <<1, 1>>

\* 1-D stencils on a sequence s (1-based), spacing h, replicate padding: what each scheme computes
Stencil(mode, s, i, h) ==
    LET n == Len(s)
        at(k) == s[IF k < 1 THEN 1 ELSE IF k > n THEN n ELSE k] IN
    CASE mode = "forward"  -> RDiv(RSub(at(i + 1), at(i)), h)
      [] mode = "backward" -> RDiv(RSub(at(i), at(i - 1)), h)
      [] mode = "central"  -> RDiv(RSub(at(i + 1), at(i - 1)), RMul(Two, h))
      [] mode = "forward_central_backward" ->
            IF i = 1 THEN RDiv(RSub(s[2], s[1]), h) ELSE IF i = n THEN RDiv(RSub(s[n], s[n - 1]), h)
            ELSE RDiv(RSub(s[i + 1], s[i - 1]), RMul(Two, h))

CONSTANTS Shapes, SpacingsOf(_), FieldsOf(_), Probes(_), EmitCases
VARIABLES st, ca
vars == <<st, ca>>
Init == st = 0 /\ ca = [n |-> <<>>]
Pick == st = 0 /\ \E n \in Shapes : \E h \in SpacingsOf(Len(n)), f \in FieldsOf(Len(n)) :
            ca' = [n |-> n, h |-> h, fld |-> f] /\ st' = 1
Next == Pick
Spec == Init /\ [][Next]_vars

Line(fld, c, n, h, ax, base) ==    \* samples of component c along axis ax through index vector base
    E([k \in 1..n[ax] |-> Val(fld[c].k, fld[c].L, fld[c].Q, Pos([base EXCEPT ![ax] = k - 1], h))])
IsAffine(fld) == \A c \in 1..Len(fld) : \A j \in 1..Len(fld) : \A l \in 1..Len(fld) : fld[c].Q[j][l] = Zero
Laws ==
    st = 1 =>
        LET D == Len(ca.n)  base == E([k \in 1..D |-> 1]) IN
        \* every scheme, applied along a line of samples, is exact on affine fields on its exact set
        /\ IsAffine(ca.fld) =>
             \A mode \in {"forward", "backward", "central", "forward_central_backward"} : \A ax \in 1..D : \A c \in 1..D :
                LET s == Line(ca.fld, c, ca.n, ca.h, ax, base) IN
                \A i \in (1 + Margin1(mode)[1])..(ca.n[ax] - Margin1(mode)[2]) :
                    Stencil(mode, s, i, ca.h[ax]) = D1(ca.fld[c].L, ca.fld[c].Q, Pos([base EXCEPT ![ax] = i - 1], ca.h), ax)
        \* central differences are exact on quadratics in the interior; second differences give the second derivative
        /\ \A ax \in 1..D : \A c \in 1..D :
              LET s == Line(ca.fld, c, ca.n, ca.h, ax, base) IN
              \A i \in 2..(ca.n[ax] - 1) :
                  /\ Stencil("central", s, i, ca.h[ax]) = D1(ca.fld[c].L, ca.fld[c].Q, Pos([base EXCEPT ![ax] = i - 1], ca.h), ax)
                  /\ RDiv(RAdd(RSub(s[i + 1], RMul(Two, s[i])), s[i - 1]), RSq(ca.h[ax])) = D2(ca.fld[c].Q, ax, ax)

Emit == (EmitCases /\ st = 1) =>
    LET D == Len(ca.n)  P == Probes(ca.n) IN
    PrintT(ToJson([n |-> ca.n, h |-> ca.h, fld |-> ca.fld, affine |-> IsAffine(ca.fld),
                   probes |-> E([k \in 1..Len(P) |->
                        LET p == Pos(P[k], ca.h) IN
                        [i |-> P[k], J |-> Jacobian(ca.fld, p), div |-> Divergence(ca.fld, p), curl |-> Curl(ca.fld, p),
                         det1 |-> DetIJ(ca.fld, p, TRUE), det0 |-> DetIJ(ca.fld, p, FALSE)]]),
                   H |-> E([c \in 1..D |-> E([j \in 1..D |-> E([l \in 1..D |-> D2(ca.fld[c].Q, j, l)])])])]))
=============================================================================
