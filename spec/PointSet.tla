----------------------------- MODULE PointSet -----------------------------
(***************************************************************************)
(* Point sets (core/pointset.py) - beyond the listed properties: pairwise   *)
(* squared distances, closest points (value and index, ties to the lowest  *)
(* index), bounding boxes, polyline directions/tangents and the            *)
(* normalisation of grid coordinates, in exact rationals.                  *)
(***************************************************************************)
EXTENDS GridDefs

SqDist(p, q) == RSumSeq(E([i \in 1..Len(p) |-> RSq(RSub(p[i], q[i]))]))
DistMatrix(X, Y) == E([i \in 1..Len(X) |-> E([j \in 1..Len(Y) |-> SqDist(X[i], Y[j])])])
\* least index among the minimisers
ClosestIdx(p, Y) == CHOOSE j \in 1..Len(Y) : /\ \A l \in 1..Len(Y) : RLe(SqDist(p, Y[j]), SqDist(p, Y[l]))
                                             /\ \A l \in 1..(j - 1) : RLt(SqDist(p, Y[j]), SqDist(p, Y[l]))
ClosestSq(p, Y) == SqDist(p, Y[ClosestIdx(p, Y)])
BBoxMin(X) == E([d \in 1..Len(X[1]) |-> LET S == {X[i][d] : i \in 1..Len(X)} IN CHOOSE a \in S : \A b \in S : RLe(a, b)])
BBoxMax(X) == E([d \in 1..Len(X[1]) |-> LET S == {X[i][d] : i \in 1..Len(X)} IN CHOOSE a \in S : \A b \in S : RLe(b, a)])
\* polyline: directions point from a vertex to the next one (last repeated); tangents from the next one back (first repeated)
Directions(X) == E([i \in 1..Len(X) |-> IF i < Len(X) THEN VSub(X[i + 1], X[i]) ELSE VSub(X[Len(X)], X[Len(X) - 1])])
Tangents(X)   == E([i \in 1..Len(X) |-> IF i > 1 THEN VSub(X[i - 1], X[i]) ELSE VSub(X[1], X[2])])
\* normalisation of an index coordinate on an axis with n samples
Norm(x, n, ac) == IF n = 1 THEN Zero ELSE RSub(RDiv(RMul(Two, x), RI(IF ac THEN n - 1 ELSE n)), One)
Denorm(u, n, ac) == IF n = 1 THEN Zero ELSE RDiv(RMul(RAdd(u, One), RI(IF ac THEN n - 1 ELSE n)), Two)

CONSTANTS PointSets, Polylines, MaxN, EmitCases
VARIABLES pst, pca
pvars == <<pst, pca>>
PInit == pst = 0 /\ pca = [kind |-> ""]
PickPair == pst = 0 /\ \E X \in PointSets, Y \in PointSets : Len(X[1]) = Len(Y[1]) /\ pca' = [kind |-> "pair", X |-> X, Y |-> Y] /\ pst' = 1
PickLine == pst = 0 /\ \E X \in Polylines : pca' = [kind |-> "polyline", X |-> X] /\ pst' = 1
PickNorm == pst = 0 /\ \E n \in 1..MaxN, ac \in BOOLEAN : pca' = [kind |-> "norm", n |-> n, ac |-> ac] /\ pst' = 1
PNext == PickPair \/ PickLine \/ PickNorm
PSpec == PInit /\ [][PNext]_pvars

PLaws == pst = 1 =>
    CASE pca.kind = "pair" ->
            LET X == pca.X  Y == pca.Y  M == DistMatrix(X, Y)  Mt == DistMatrix(Y, X) IN
            /\ \A i \in 1..Len(X), j \in 1..Len(Y) : M[i][j] = Mt[j][i] /\ RLe(Zero, M[i][j])
            /\ \A i \in 1..Len(X) : SqDist(X[i], X[i]) = Zero
            /\ \A i \in 1..Len(X) : \A j \in 1..Len(Y) : RLe(ClosestSq(X[i], Y), M[i][j])
            /\ \A i \in 1..Len(X) : M[i][ClosestIdx(X[i], Y)] = ClosestSq(X[i], Y)
            \* translating both sets changes nothing
            /\ LET t == E([d \in 1..Len(X[1]) |-> R(3, 2)])
                   Xt == E([i \in 1..Len(X) |-> VAdd(X[i], t)])  Yt == E([j \in 1..Len(Y) |-> VAdd(Y[j], t)])
               IN  DistMatrix(Xt, Yt) = M /\ \A i \in 1..Len(X) : ClosestIdx(Xt[i], Yt) = ClosestIdx(X[i], Y)
            \* every point lies in the bounding box, and the box is tight
            /\ \A i \in 1..Len(X) : \A d \in 1..Len(X[1]) : RLe(BBoxMin(X)[d], X[i][d]) /\ RLe(X[i][d], BBoxMax(X)[d])
      [] pca.kind = "polyline" ->
            LET X == pca.X IN
            /\ \A i \in 1..(Len(X) - 1) : Tangents(X)[i + 1] = VScale(RI(-1), Directions(X)[i])
            /\ \A i \in 1..(Len(X) - 1) : VAdd(X[i], Directions(X)[i]) = X[i + 1]
      [] pca.kind = "norm" ->
            LET n == pca.n  ac == pca.ac IN
            /\ \A k \in 0..(n - 1) : Denorm(Norm(RI(k), n, ac), n, ac) = (IF n = 1 THEN Zero ELSE RI(k))
            \* with align_corners=True this is the sample lattice of the grid (GridDefs.Coord)
            /\ ac => \A k \in 0..(n - 1) : Norm(RI(k), n, TRUE) = Coord(n, TRUE, k)
            \* with align_corners=False the unnormalised coordinate counts from the left EDGE of the first sample:
            \* sample centre k sits at k + 1/2
            /\ (~ac /\ n > 1) => \A k \in 0..(n - 1) : Norm(RAdd(RI(k), Half), n, FALSE) = Coord(n, FALSE, k)

PEmit == (EmitCases /\ pst = 1) =>
    CASE pca.kind = "pair" ->
            PrintT(ToJson([kind |-> "pair", X |-> pca.X, Y |-> pca.Y, M |-> DistMatrix(pca.X, pca.Y),
                           idx |-> E([i \in 1..Len(pca.X) |-> ClosestIdx(pca.X[i], pca.Y) - 1]),
                           mind |-> E([i \in 1..Len(pca.X) |-> ClosestSq(pca.X[i], pca.Y)]),
                           lo |-> BBoxMin(pca.X), hi |-> BBoxMax(pca.X)]))
      [] pca.kind = "polyline" -> PrintT(ToJson([kind |-> "polyline", X |-> pca.X, dirs |-> Directions(pca.X), tans |-> Tangents(pca.X)]))
      [] pca.kind = "norm" -> PrintT(ToJson([kind |-> "norm", n |-> pca.n, ac |-> pca.ac,
                                            u |-> E([k \in 1..pca.n |-> Norm(RI(k - 1), pca.n, pca.ac)]),
                                            probe |-> Norm(R(5, 4), pca.n, pca.ac)]))
=============================================================================
