----------------------------- MODULE Trace_Loss -----------------------------
(* Validates recorded loss evaluations (code -> spec) against the axioms of Loss.tla. *)
EXTENDS MC_Loss, IOUtils
Tr == ndJsonDeserialize(IOEnv.TRACE_FILE)
VARIABLES l, bad
tvars == <<l, bad, vars>>
TInit == l = 1 /\ bad = {} /\ Init
Consume == /\ l <= Len(Tr) /\ l' = l + 1 /\ UNCHANGED vars
           /\ bad' = IF AxiomHolds(Tr[l]) THEN bad ELSE bad \cup {<<Tr[l].tid, Tr[l].k, Tr[l].ax>>}
TSpec == TInit /\ [][Consume]_tvars
Done == l = Len(Tr) + 1
Report == Done => PrintT(ToJson([rejected |-> bad, lines |-> Len(Tr)]))
Consumed == TLCGet("stats").diameter = Len(Tr) + 1
=============================================================================
