----------------------------- MODULE FileStore -----------------------------
(***************************************************************************)
(* Image and flow-field files (property C18).                              *)
(*                                                                         *)
(* Part 1, formats: what a file of each supported format contains for a    *)
(* given sampling grid, channel count and memory layout, in exact          *)
(* rationals: MetaImage header fields, the NIfTI voxel-to-world matrix in  *)
(* RAS convention with its dim / intent fields, NRRD space directions, the *)
(* linear position of element (channel, index) in the payload, and the     *)
(* world-space vectors stored for a flow field given w.r.t. any axes.      *)
(* Laws: decoding the header returns the grid; the layouts are bijections; *)
(* flow vectors return to their representation.                            *)
(*                                                                         *)
(* Part 2, store: a state machine of one file path and one object in       *)
(* memory held either by the library or by SimpleITK; actions write, read, *)
(* convert between the two holders, and change the axes of a flow field.   *)
(* Invariant: whatever chain of writers, formats and readers is taken, the *)
(* object in memory has the grid, channel count and vector representation  *)
(* of the original.                                                        *)
(***************************************************************************)
EXTENDS GridDefs, FiniteSets

CONSTANTS Grids,      \* set of grids
          Chans,      \* set of channel counts
          Formats,    \* subset of {"mha", "mhd", "nii", "niigz", "nrrd"}
          MaxLen,     \* bound on the length of a chain
          Mode,       \* "formats" | "chains"
          EmitCases

(* ------------------------------------------------------------------ part 1: formats *)
\* MetaImage: TransformMatrix lists the direction matrix column by column
ColsFlat(M) == LET D == Len(M) IN E([k \in 1..(D * D) |-> M[((k - 1) % D) + 1][((k - 1) \div D) + 1]])
MetaHeader(g, C) == [NDims |-> GDim(g), DimSize |-> g.n, ElementSpacing |-> g.h, Offset |-> Origin(g),
                     TransformMatrix |-> ColsFlat(g.R), ElementNumberOfChannels |-> C]
MatOfCols(flat, D) == E([i \in 1..D |-> E([j \in 1..D |-> flat[(j - 1) * D + i]])])
GridOfHeader(n, h, o, Rm, ac) ==
    LET g0 == [n |-> n, h |-> h, c |-> o, R |-> Rm, ac |-> ac]
    IN  [g0 EXCEPT !.c = VAdd(o, MVec(GAff(g0), CIdx(g0)))]
GridOfMeta(hd, ac) == GridOfHeader(hd.DimSize, hd.ElementSpacing, hd.Offset, MatOfCols(hd.TransformMatrix, hd.NDims), ac)

\* NIfTI: 4x4 voxel -> world matrix in RAS: the first two world axes of the LPS geometry are negated
FlipSign(i) == IF i <= 2 THEN RI(-1) ELSE One
NiftiAffine(g) ==
    LET D == GDim(g)  A == GAff(g)  o == Origin(g) IN
    E([i \in 1..4 |-> E([j \in 1..4 |->
        IF i <= D /\ j <= D THEN RMul(FlipSign(i), A[i][j])
        ELSE IF i <= D /\ j = 4 THEN RMul(FlipSign(i), o[i])
        ELSE IF i = j THEN One ELSE Zero])])
Pad1(n, k) == E([i \in 1..k |-> IF i <= Len(n) THEN n[i] ELSE 1])
NiftiDim(g, C) == IF C = 1 THEN <<GDim(g)>> \o Pad1(g.n, 7) ELSE <<5>> \o Pad1(g.n, 4) \o <<C, 1, 1>>
NiftiHeader(g, C) == [dim |-> NiftiDim(g, C), pixdim |-> g.h, affine |-> NiftiAffine(g), intent |-> IF C = 1 THEN 0 ELSE 1007]
\* number of image dimensions ITK (and the library) derive from dim[] and the intent
NiftiRealDim(hd) ==
    IF hd.intent = 1007 THEN (IF hd.dim[5] > 1 THEN 4 ELSE IF hd.dim[4] > 1 THEN 3 ELSE IF hd.dim[3] > 1 THEN 2 ELSE 1)
    ELSE hd.dim[1]
GridOfNifti(hd, D, ac) ==
    LET o  == E([i \in 1..D |-> RMul(FlipSign(i), hd.affine[i][4])])
        Rm == E([i \in 1..D |-> E([j \in 1..D |-> RDiv(RMul(FlipSign(i), hd.affine[i][j]), hd.pixdim[j])])])
    IN  GridOfHeader(E([i \in 1..D |-> hd.dim[i + 1]]), hd.pixdim, o, Rm, ac)

\* NRRD: one "space direction" per axis = direction column times spacing
NrrdHeader(g, C) == [dimension |-> GDim(g) + (IF C = 1 THEN 0 ELSE 1), sizes |-> g.n,
                     directions |-> E([j \in 1..GDim(g) |-> MCol(GAff(g), j)]), origin |-> Origin(g)]

FileHeader(f, g, C) == CASE f \in {"mha", "mhd"} -> MetaHeader(g, C) [] f \in {"nii", "niigz"} -> NiftiHeader(g, C) [] OTHER -> NrrdHeader(g, C)
\* NRRD stores direction * spacing; the spacing is the length of a space direction (not rational in general), so decoding is
\* stated relationally: the grid of the lattice whose header this is (NrrdLaw states that there is exactly one)
GridOfNrrd(hd, C, ac) == CHOOSE g2 \in Grids : g2.ac = ac /\ NrrdHeader(g2, C) = hd
GridOf(f, hd, C, D, ac) == CASE f \in {"mha", "mhd"} -> GridOfMeta(hd, ac) [] f \in {"nii", "niigz"} -> GridOfNifti(hd, D, ac)
                             [] OTHER -> GridOfNrrd(hd, C, ac)

\* payload layouts: linear element offset of channel c (0-based) at index idx (0-based, x first)
NVox(n) == IF Len(n) = 2 THEN n[1] * n[2] ELSE n[1] * n[2] * n[3]
LinIdx(n, idx) == IF Len(n) = 2 THEN idx[1] + n[1] * idx[2] ELSE idx[1] + n[1] * (idx[2] + n[2] * idx[3])
InterleavedOffset(n, C, idx, c) == LinIdx(n, idx) * C + c           \* MetaImage, NRRD (vector axis fastest)
PlanarOffset(n, C, idx, c)      == c * NVox(n) + LinIdx(n, idx)     \* NIfTI (vector axis = 5th, slowest)
OffsetOf(f, n, C, idx, c) == IF f \in {"nii", "niigz"} THEN PlanarOffset(n, C, idx, c) ELSE InterleavedOffset(n, C, idx, c)
Indices(n) == IF Len(n) = 2 THEN {<<i, j>> : i \in 0..(n[1] - 1), j \in 0..(n[2] - 1)}
              ELSE {<<i, j, k>> : i \in 0..(n[1] - 1), j \in 0..(n[2] - 1), k \in 0..(n[3] - 1)}

\* flow fields: matrix applied to every vector given w.r.t. axes a when it is stored (world)
FileVec(g, a) == VecMap(g, a, g, "world")
BackVec(g, a) == VecMap(g, "world", g, a)

(* laws *)
MetaLaw(g, C)  == /\ GridOfMeta(MetaHeader(g, C), g.ac) = g
                  /\ MetaHeader(g, C).Offset = AffApply(IndexToWorld(g), VZero(GDim(g)))
NiftiLaw(g, C) == LET hd == NiftiHeader(g, C) IN
                  /\ NiftiRealDim(hd) = (IF C > 1 /\ GDim(g) = 3 /\ g.n[3] = 1 THEN (IF g.n[2] = 1 THEN 1 ELSE 2)
                                         ELSE IF C > 1 /\ GDim(g) = 2 /\ g.n[2] = 1 THEN 1 ELSE GDim(g))
                  /\ GridOfNifti(hd, GDim(g), g.ac) = g
                  \* the matrix maps voxel indices to RAS: negating the first two coordinates gives the LPS position of the sample
                  /\ \A v \in {VZero(GDim(g)), LastIdx(g)} :
                       LET v4 == E([i \in 1..4 |-> IF i <= GDim(g) THEN v[i] ELSE IF i = 4 THEN One ELSE Zero])
                           w  == MVec(hd.affine, v4)
                       IN  E([i \in 1..GDim(g) |-> RMul(FlipSign(i), w[i])]) = AffApply(IndexToWorld(g), v)
NrrdLaw(g, C)  == LET hd == NrrdHeader(g, C) IN
                  /\ \A j \in 1..GDim(g) : VAdd(hd.origin, hd.directions[j]) = AffApply(IndexToWorld(g), Unit(GDim(g), j, One))
                  /\ \A g2 \in Grids : (g2.ac = g.ac /\ NrrdHeader(g2, C) = hd) => g2 = g
LayoutLaw(g, C) ==
    LET keys == Indices(g.n) \X (0..(C - 1))  N == NVox(g.n) * C IN
    /\ {InterleavedOffset(g.n, C, k[1], k[2]) : k \in keys} = 0..(N - 1)
    /\ {PlanarOffset(g.n, C, k[1], k[2]) : k \in keys} = 0..(N - 1)
    /\ Cardinality(keys) = N
FlowLaw(g) == \A a \in AxesSet : /\ MMul(BackVec(g, a), FileVec(g, a)) = MId(GDim(g))
                                 /\ (a = "world" => FileVec(g, a) = MId(GDim(g)))
                                 /\ FileVec(g, "grid") = GAff(g)

(* ------------------------------------------------------------------ part 2: the store *)
VARIABLES st,       \* "pick" | "leaf" (formats mode) | "run" (chains mode)
          orig,     \* [g, C, kind, axes]: the original object
          holder,   \* "deepali" | "sitk": who holds the object in memory
          mem,      \* [g, C, kind, axes, rep]: rep = matrix taking WORLD vectors to the stored vectors
          file,     \* NoFile or [f, hd, C, D, kind, rep]
          hist
vars == <<st, orig, holder, mem, file, hist>>

NoFile == [f |-> "none"]
NoObj  == [g |-> [n |-> <<>>], C |-> 0, kind |-> "none", axes |-> "none"]
\* flow fields need a non-degenerate normalised cube: every axis has more than one sample
Kinds(g, C) == {"image"} \cup (IF C = GDim(g) /\ \A i \in 1..GDim(g) : g.n[i] > 1 THEN {"flow"} ELSE {})
Objects == UNION {UNION {UNION {{[g |-> g, C |-> C, kind |-> k, axes |-> a] : a \in (IF k = "flow" THEN AxesSet ELSE {"none"})}
                                : k \in Kinds(g, C)} : C \in Chans} : g \in Grids}
RepOf(g, kind, axes) == IF kind = "flow" THEN BackVec(g, axes) ELSE MId(GDim(g))

Init == /\ st = "pick" /\ orig = NoObj /\ holder = "deepali" /\ mem = NoObj /\ file = NoFile /\ hist = <<>>
Pick == /\ st = "pick" /\ \E o \in Objects :
            /\ orig' = o /\ mem' = [g |-> o.g, C |-> o.C, kind |-> o.kind, axes |-> o.axes, rep |-> RepOf(o.g, o.kind, o.axes)]
        /\ st' = IF Mode = "formats" THEN "leaf" ELSE "run"
        /\ UNCHANGED <<holder, file, hist>>

Room == st = "run" /\ Len(hist) < MaxLen
Log(e) == hist' = Append(hist, e)
\* writing: the library converts a flow field to world vectors first (FlowField.write, FlowField.sitk);
\* a SimpleITK image always carries world vectors
Write(f, compress) ==
    /\ Room
    /\ file' = [f |-> f, hd |-> FileHeader(f, mem.g, mem.C), C |-> mem.C, D |-> GDim(mem.g), kind |-> mem.kind,
                rep |-> IF mem.kind = "flow" THEN MMul(FileVec(mem.g, mem.axes), mem.rep) ELSE mem.rep]
    /\ Log([a |-> "write", who |-> holder, f |-> f, compress |-> compress])
    /\ UNCHANGED <<st, orig, holder, mem>>
\* reading: decode the header; flow fields arrive with world vectors
Read(who) ==
    /\ Room /\ file # NoFile
    /\ mem' = [g |-> GridOf(file.f, file.hd, file.C, file.D, orig.g.ac), C |-> file.C, kind |-> file.kind,
               axes |-> IF file.kind = "flow" THEN "world" ELSE "none", rep |-> file.rep]
    /\ holder' = who
    /\ Log([a |-> "read", who |-> who, f |-> file.f, compress |-> FALSE])
    /\ UNCHANGED <<st, orig, file>>
\* in-memory conversion between the two holders (Image.sitk / FlowField.sitk, from_sitk)
ToSitk == /\ Room /\ holder = "deepali" /\ holder' = "sitk"
          /\ mem' = IF mem.kind = "flow" THEN [mem EXCEPT !.axes = "world", !.rep = MMul(FileVec(mem.g, mem.axes), mem.rep)] ELSE mem
          /\ Log([a |-> "to_sitk", who |-> "deepali", f |-> "", compress |-> FALSE]) /\ UNCHANGED <<st, orig, file>>
FromSitk == /\ Room /\ holder = "sitk" /\ holder' = "deepali" /\ UNCHANGED mem
            /\ Log([a |-> "from_sitk", who |-> "sitk", f |-> "", compress |-> FALSE]) /\ UNCHANGED <<st, orig, file>>
\* FlowField.axes(a): re-express the vectors
ToAxes(a) == /\ Room /\ holder = "deepali" /\ mem.kind = "flow" /\ mem.axes # a
             /\ mem' = [mem EXCEPT !.axes = a, !.rep = MMul(VecMap(mem.g, mem.axes, mem.g, a), mem.rep)]
             /\ Log([a |-> "axes", who |-> a, f |-> "", compress |-> FALSE]) /\ UNCHANGED <<st, orig, holder, file>>
Next == \/ Pick
        \/ \E f \in Formats, z \in BOOLEAN : Write(f, z)
        \/ \E w \in {"deepali", "sitk"} : Read(w)
        \/ ToSitk \/ FromSitk
        \/ \E a \in AxesSet : ToAxes(a)
Spec == Init /\ [][Next]_vars

(* ---- properties *)
\* the object in memory is the original: grid (exactly), channels, kind; its vectors are the original vectors in its current axes
Preserved == st = "run" =>
    /\ mem.g = orig.g /\ mem.C = orig.C /\ mem.kind = orig.kind
    /\ mem.rep = RepOf(orig.g, orig.kind, mem.axes)
    /\ (holder = "sitk" /\ mem.kind = "flow" => mem.axes = "world")
\* a stored flow field always holds world vectors
FileWorld == (st = "run" /\ file # NoFile) => file.rep = MId(file.D)
LawMeta   == st = "leaf" => MetaLaw(orig.g, orig.C)
LawNifti  == st = "leaf" => NiftiLaw(orig.g, orig.C)
LawNrrd   == st = "leaf" => NrrdLaw(orig.g, orig.C)
LawLayout == st = "leaf" => LayoutLaw(orig.g, orig.C)
LawFlow   == (st = "leaf" /\ orig.kind = "flow") => FlowLaw(orig.g)

(* ---- emission *)
GridJson(g) == [n |-> g.n, h |-> g.h, c |-> g.c, R |-> g.R, ac |-> g.ac, o |-> Origin(g)]
Emit ==
    IF ~EmitCases THEN TRUE
    ELSE IF st = "leaf" /\ orig.kind = "image" THEN
        LET g == orig.g  C == orig.C
            last == E([i \in 1..GDim(g) |-> g.n[i] - 1])
            mid  == E([i \in 1..GDim(g) |-> g.n[i] \div 2])
            probes == <<E([i \in 1..GDim(g) |-> 0]), last, mid>>
        IN PrintT(ToJson([kind |-> "format", g |-> GridJson(g), C |-> C,
                          meta |-> MetaHeader(g, C), nifti |-> NiftiHeader(g, C), nrrd |-> NrrdHeader(g, C),
                          offsets |-> E([p \in 1..3 |-> E([c \in 1..C |->
                                [idx |-> probes[p], c |-> c - 1,
                                 interleaved |-> InterleavedOffset(g.n, C, probes[p], c - 1),
                                 planar |-> PlanarOffset(g.n, C, probes[p], c - 1)]])]),
                          filevec |-> [grid |-> FileVec(g, "grid"), cube |-> FileVec(g, "cube"),
                                       cube_corners |-> FileVec(g, "cube_corners"), world |-> FileVec(g, "world")]]))
    ELSE IF st = "run" /\ Len(hist) = MaxLen THEN
        PrintT(ToJson([kind |-> "chain", g |-> GridJson(orig.g), C |-> orig.C, okind |-> orig.kind, axes |-> orig.axes,
                       hist |-> hist, final_axes |-> mem.axes, holder |-> holder]))
    ELSE TRUE
=============================================================================
