--------------------------- MODULE Trace_GridOps ---------------------------
(***************************************************************************)
(* Trace validation for GridOps (code -> spec).  The harness drives real   *)
(* Grid objects through random chains of operations and logs one event per *)
(* public call (operation record + observed attributes of the returned     *)
(* grid in micro-units).  This spec replays the SAME actions of GridOps on *)
(* the exact model state and must explain every observation; the hidden    *)
(* internal size s is never logged - it is inferred by the specification.  *)
(* Verdicts are total: an unexplained event marks its trace as rejected    *)
(* (recording the line) and validation continues with the next trace.      *)
(***************************************************************************)
EXTENDS GridOps, IOUtils

Tr == ndJsonDeserialize(IOEnv.TRACE_FILE)
NoOps(D) == {}
TolMicro == 300      \* 3e-4 world units; convention errors are >= 1e-2 on the driver's lattice

VARIABLES l, live, bad
tvars == <<l, live, bad, vars>>

ObsMatches(out, g2) ==
    /\ out.n = g2.n
    /\ out.ac = g2.ac
    /\ \A i \in 1..Len(g2.n) :
         /\ CloseMicro(out.h[i], g2.h[i], TolMicro)
         /\ CloseMicro(out.c[i], g2.c[i], TolMicro)
         /\ CloseMicro(out.o[i], Origin(g2)[i], TolMicro)

\* pyramid: accepted by post-condition (what the name promises), sizes taken from the observation
PyramidOK(g, ev) ==
    LET L == ev.levels  out == ev.out  D == GDim(g)
        InD(i) == ev.dims = <<>> \/ \E k \in 1..Len(ev.dims) : ev.dims[k] = i - 1 IN
    /\ Len(out) = L + 1
    /\ \A k \in 1..(L + 1) :            \* every level is the source grid resized: same domain, centre, orientation
         LET lv == ResizeTo(g, VInt(out[k].n), g.ac) IN
         /\ \A i \in 1..D : out[k].n[i] >= 1
         /\ ObsMatches(out[k], lv)
         /\ CubeExtent(lv, g.ac) = CubeExtent(ResizeTo(g, VInt(out[1].n), g.ac), g.ac)
    /\ \A k \in 1..L : \A i \in 1..D :  \* consecutive levels halve (corner/extent preserving), or stay when clamped
         IF InD(i)
         THEN \/ out[k + 1].n[i] = (out[k].n[i] + 1) \div 2
              \/ (out[k + 1].n[i] = out[k].n[i] /\ (out[k].n[i] + 1) \div 2 < ev.min)
         ELSE out[k + 1].n[i] = g.n[i] /\ out[k].n[i] = g.n[i]

\* the property quantifies over levels with size / 2^levels >= 2 (and non-degenerate axes for corner alignment)
PyramidEnabled(g, ev) ==
    /\ \A i \in 1..GDim(g) :
         (ev.dims = <<>> \/ \E k \in 1..Len(ev.dims) : ev.dims[k] = i - 1) => g.n[i] >= 2 * Pow2(ev.levels)
    /\ g.ac => \A i \in 1..GDim(g) : g.n[i] >= 2

TInit == l = 1 /\ live = FALSE /\ bad = {} /\ Init

\* Every accepted event is the GridOps action Do(o) (resp. StartWith(b)) with the logged arguments.
Consume ==
    /\ l <= Len(Tr)
    /\ l' = l + 1
    /\ LET ev == Tr[l] IN
       IF ev.ev = "start"
       THEN /\ StartWith(ev.g)
            /\ live' = Valid(ev.g)
            /\ bad' = IF Valid(ev.g) THEN bad ELSE bad \cup {<<ev.tid, l, "invalid start grid">>}
       ELSE IF ~live THEN UNCHANGED <<vars, live, bad>>
       ELSE IF ev.ev = "pyramid" /\ ~PyramidEnabled(cur, ev)
       THEN live' = FALSE /\ UNCHANGED <<vars, bad>>      \* outside the quantified range: not constrained
       ELSE IF ev.ev = "pyramid"
       THEN IF ~ev.exc /\ PyramidOK(cur, ev)
            THEN UNCHANGED <<vars, live, bad>>
            ELSE bad' = bad \cup {<<ev.tid, l, "pyramid">>} /\ live' = FALSE /\ UNCHANGED vars
       ELSE IF ~Enabled(cur, ev.o)
       THEN live' = FALSE /\ UNCHANGED <<vars, bad>>      \* outside the quantified range: not constrained
       ELSE IF ~ev.exc /\ ObsMatches(ev.out, Apply(cur, ev.o))
       THEN Do(ev.o) /\ Post(cur, ev.o, cur') /\ UNCHANGED <<live, bad>>
       ELSE bad' = bad \cup {<<ev.tid, l, ev.o.op>>} /\ live' = FALSE /\ UNCHANGED vars

TNext == Consume
TSpec == TInit /\ [][TNext]_tvars

Done == l = Len(Tr) + 1
Report == Done => PrintT(ToJson([rejected |-> bad, lines |-> Len(Tr)]))
\* the behaviour must consume the whole file (a stuck trace spec is a machinery failure)
Consumed == TLCGet("stats").diameter = Len(Tr) + 1
=============================================================================
