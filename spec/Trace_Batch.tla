---------------------------- MODULE Trace_Batch ----------------------------
(***************************************************************************)
(* Trace validation for Batch.tla: each recorded event is the Batch action *)
(* Apply(o) with val' bound to the logged projection of the real result.   *)
(***************************************************************************)
EXTENDS MC_Batch, IOUtils

Tr == ndJsonDeserialize(IOEnv.TRACE_FILE)

VARIABLES l, live, bad
tvars == <<l, live, bad, vars>>

TInit == l = 1 /\ live = FALSE /\ bad = {} /\ Init

OpNamed(layout, name) == {o \in OpsDef(layout) : o.name = name}

Consume ==
    /\ l <= Len(Tr)
    /\ l' = l + 1
    /\ LET ev == Tr[l] IN
       IF ev.ev = "start"
       THEN /\ init' = ev.init /\ val' = InitVal(ev.init) /\ prog' = <<>> /\ trail' = <<>>
            /\ live' = TRUE /\ UNCHANGED bad
       ELSE IF ~live THEN UNCHANGED <<vars, live, bad>>
       ELSE LET os == OpNamed(Meaning(val).layout, ev.op) IN
            IF os = {} \/ \A o \in os : ~OpEnabled(Meaning(val), o)
            THEN live' = FALSE /\ UNCHANGED <<vars, bad>>          \* not in the alphabet for this value: unconstrained
            ELSE IF ~ev.exc /\ \E o \in os : OpEnabled(Meaning(val), o) /\ ev.val \in Allowed(Effect(Meaning(val), o), init.t, init.D, init.axes)
            THEN (\E o \in os : Apply(o) /\ val' = ev.val) /\ UNCHANGED <<live, bad>>
            ELSE bad' = bad \cup {<<ev.tid, l, ev.op>>} /\ live' = FALSE /\ UNCHANGED vars

TNext == Consume
TSpec == TInit /\ [][TNext]_tvars
Done == l = Len(Tr) + 1
Report == Done => PrintT(ToJson([rejected |-> bad, lines |-> Len(Tr)]))
Consumed == TLCGet("stats").diameter = Len(Tr) + 1
=============================================================================
