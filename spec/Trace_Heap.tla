----------------------------- MODULE Trace_Heap -----------------------------
(* Recorded calls of the real API (code -> spec): every call must be a Heap action whose observed writes  *)
(* lie inside the action's write set.                                                                      *)
EXTENDS Heap, IOUtils
Tr == ndJsonDeserialize(IOEnv.TRACE_FILE)
VARIABLES l, bad
tvars == <<l, bad, vars>>
TInit == l = 1 /\ bad = {} /\ Init
Consume == /\ l <= Len(Tr) /\ l' = l + 1 /\ UNCHANGED vars
           /\ bad' = IF WritesAllowed([written |-> {Tr[l].written[i] : i \in 1..Len(Tr[l].written)},
                                       allowed |-> {Tr[l].allowed[i] : i \in 1..Len(Tr[l].allowed)}])
                     THEN bad ELSE bad \cup {<<Tr[l].tid, Tr[l].k, Tr[l].call>>}
TSpec == TInit /\ [][Consume]_tvars
Done == l = Len(Tr) + 1
Report == Done => PrintT(ToJson([rejected |-> bad, lines |-> Len(Tr)]))
Consumed == TLCGet("stats").diameter = Len(Tr) + 1
=============================================================================
