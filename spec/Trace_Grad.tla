----------------------------- MODULE Trace_Grad -----------------------------
(***************************************************************************)
(* Property C20, layer 2 (code -> spec): recorded gradient evaluations of   *)
(* EVERY differentiable operation.  One event per (operation, input,       *)
(* direction): the directional derivative autograd returned (gd) and two   *)
(* central difference quotients with steps e and e/2 (fd1, fd2), all       *)
(* divided by a common magnitude and expressed in micro-units (1e6 = the   *)
(* magnitude), the round-off allowance of the quotient (noise), and the    *)
(* flags finite (all gradient entries finite) and reaches (autograd        *)
(* returned a gradient for the tensor at all).                             *)
(*                                                                         *)
(* The acceptance rule is part of the specification, not of the harness:   *)
(* |fd1 - fd2| estimates the discretisation error (Richardson); an input   *)
(* whose estimate exceeds 2 % is at a kink and not judged; otherwise the   *)
(* gradient must agree with the finer quotient within twice the estimate   *)
(* plus 5e-4 plus the round-off allowance.  Operations evaluated on a      *)
(* sampling grid (float32 coordinates, sums over many interpolated         *)
(* samples: piecewise smooth with dense kinks, flag pw) get 3e-2 instead   *)
(* of 5e-4: their quotients do not converge regularly at steps float32     *)
(* allows; the exact layer (Grad.tla) covers interpolation itself.         *)
(***************************************************************************)
EXTENDS Integers, Sequences, TLC, Json, IOUtils
IAbs(n) == IF n < 0 THEN -n ELSE n
Rich(ev) == IAbs(ev.fd1 - ev.fd2)
\* asym1, asym2: forward minus backward quotient at the two steps.  For a smooth function it shrinks with the step (about halves);
\* if it is above 1 % and does not shrink, the one-sided derivatives differ AT the input: the input sits on a kink
KinkAtInput(ev) == ev.asym2 > 10000 /\ 4 * ev.asym2 > 3 * ev.asym1
Kink(ev) == Rich(ev) > 20000 \/ KinkAtInput(ev)
GradOK(ev) == /\ ev.reaches
              /\ ev.finite
              /\ (Kink(ev) \/ IAbs(ev.gd - ev.fd2) <= 2 * Rich(ev) + (IF ev.pw THEN 30000 ELSE 500) + ev.noise)

Tr == ndJsonDeserialize(IOEnv.TRACE_FILE)
VARIABLES l, bad, kinks
tvars == <<l, bad, kinks>>
TInit == l = 1 /\ bad = {} /\ kinks = 0
Consume == /\ l <= Len(Tr) /\ l' = l + 1
           /\ bad' = IF Tr[l].k = 0 \/ GradOK(Tr[l]) THEN bad
                     ELSE bad \cup {<<Tr[l].tid, Tr[l].k,
                                      IF ~Tr[l].reaches THEN "no-gradient" ELSE IF ~Tr[l].finite THEN "not-finite" ELSE "differs">>}
           /\ kinks' = IF Tr[l].k > 0 /\ Tr[l].reaches /\ Tr[l].finite /\ Kink(Tr[l]) THEN kinks + 1 ELSE kinks
TSpec == TInit /\ [][Consume]_tvars
Done == l = Len(Tr) + 1
Report == Done => PrintT(ToJson([rejected |-> bad, lines |-> Len(Tr), kinks |-> kinks]))
Consumed == TLCGet("stats").diameter = Len(Tr) + 1
=============================================================================
