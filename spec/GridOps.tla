------------------------------ MODULE GridOps ------------------------------
(***************************************************************************)
(* Derived grids (core/grid.py: resize, reshape, resample, downsample,     *)
(* upsample, pyramid, crop, pad, center_crop, center_pad, narrow,          *)
(* region_of_interest, pool) as a state machine over chains of operations. *)
(* Each operation has a constructive definition from its documentation and *)
(* a WORLD-GEOMETRY post-condition (what its name promises); TLC checks    *)
(* that the two agree on every reachable transition, and every reachable   *)
(* chain is replayed on real Grid objects.  Property C03.                  *)
(*                                                                         *)
(* A grid additionally carries its rational internal size s (the library   *)
(* keeps float sizes so that halving/doubling round-trips); n = ceil(s).   *)
(***************************************************************************)
EXTENDS GridDefs

Ceil(s)  == E([i \in 1..Len(s) |-> RCeil(s[i])])
WithS(g) == [n |-> g.n, s |-> VInt(g.n), h |-> g.h, c |-> g.c, R |-> g.R, ac |-> g.ac]
Plain(g) == [n |-> g.n, h |-> g.h, c |-> g.c, R |-> g.R, ac |-> g.ac]
Valid(g) == /\ \A i \in 1..GDim(g) : g.n[i] >= 1 /\ RLt(Zero, g.h[i]) /\ RLt(Zero, g.s[i])
            /\ g.n = Ceil(g.s)
            /\ IsOrthogonal(g.R)
First(g)  == Origin(g)
LastPt(g) == AffApply(IndexToWorld(g), LastIdx(g))
Extent(g) == E([i \in 1..GDim(g) |-> RMul(RI(g.n[i]), g.h[i])])
CubeExtent(g, ac) == E([i \in 1..GDim(g) |-> RMul(RI(IF ac THEN g.n[i] - 1 ELSE g.n[i]), g.h[i])])
AcOf(g, a) == IF a = -1 THEN g.ac ELSE a = 1     \* -1 = argument not given

(* ------------------------- constructive definitions ------------------------- *)
\* new grid with internal size s2, keeping centre and orientation (Grid._resize)
ResizeTo(g, s2, ac) ==
    IF s2 = g.s THEN g
    ELSE LET n2 == Ceil(s2) IN
         [g EXCEPT !.s = s2, !.n = n2,
                   !.h = E([i \in 1..GDim(g) |->
                            IF ac THEN RDiv(RMul(g.h[i], RI(g.n[i] - 1)), RI(n2[i] - 1))
                            ELSE RDiv(RMul(g.h[i], RI(g.n[i])), RI(n2[i]))])]

\* new grid whose sample 0 is old sample `lo` (continuous index), size s2, spacing h2
Reframe(g, lo, s2, h2) ==
    LET n2 == Ceil(s2)
        o2 == AffApply(IndexToWorld(g), lo)
        A2 == MMul(g.R, MDiag(h2))
        c2 == VAdd(o2, MVec(A2, E([i \in 1..GDim(g) |-> R(n2[i] - 1, 2)])))
    IN [n |-> n2, s |-> s2, h |-> h2, c |-> c2, R |-> g.R, ac |-> g.ac]
    \* (the size argument is stored as given, so a fractional internal size survives cropping)

InDims(o, i) == o.dims = <<>> \/ \E k \in 1..Len(o.dims) : o.dims[k] = i - 1

Pow2(k) == IF k = 0 THEN 1 ELSE IF k = 1 THEN 2 ELSE IF k = 2 THEN 4 ELSE 8

CropNum(g, lo, hi) ==    \* remove lo/hi samples at the lower/upper border of each axis (negative = add)
    LET D == GDim(g)
        s2 == E([i \in 1..D |-> RMax(One, RSub(g.s[i], RI(lo[i] + hi[i])))])
    IN  IF \A i \in 1..D : lo[i] = 0 /\ hi[i] = 0 THEN g
        ELSE Reframe(g, VInt(lo), s2, g.h)

Apply(g, o) ==
    LET D == GDim(g) IN
    CASE o.op = "resize"   -> ResizeTo(g, VInt(o.n), AcOf(g, o.ac))
      [] o.op = "reshape"  -> ResizeTo(g, VInt([i \in 1..D |-> o.n[D + 1 - i]]), AcOf(g, o.ac))
      [] o.op = "resample" ->
            IF o.h = g.h THEN g
            ELSE [g EXCEPT !.s = E([i \in 1..D |-> RMax(RDiv(RMul(RI(g.n[i]), g.h[i]), o.h[i]), RI(o.min))]),
                           !.n = Ceil(E([i \in 1..D |-> RMax(RDiv(RMul(RI(g.n[i]), g.h[i]), o.h[i]), RI(o.min))])),
                           !.h = o.h]
      [] o.op = "downsample" ->
            ResizeTo(g, E([i \in 1..D |->
                          LET t == RDiv(g.s[i], RI(Pow2(o.levels))) IN
                          IF InDims(o, i) /\ RLe(RI(o.min), t) THEN t ELSE g.s[i]]), AcOf(g, o.ac))
      [] o.op = "upsample" ->
            ResizeTo(g, E([i \in 1..D |-> IF InDims(o, i) THEN RMul(g.s[i], RI(Pow2(o.levels))) ELSE g.s[i]]), AcOf(g, o.ac))
      [] o.op = "crop" -> CropNum(g, o.lo, o.hi)
      [] o.op = "pad"  -> CropNum(g, E([i \in 1..D |-> -o.lo[i]]), E([i \in 1..D |-> -o.hi[i]]))
      [] o.op = "center_crop" ->
            LET n2 == E([i \in 1..D |-> IMin(g.n[i], o.n[i])]) IN
            Reframe(g, E([i \in 1..D |-> RI((g.n[i] - n2[i]) \div 2)]), VInt(n2), g.h)
      [] o.op = "center_pad" ->
            LET n2 == E([i \in 1..D |-> IMax(g.n[i], o.n[i])]) IN
            Reframe(g, E([i \in 1..D |-> RI(-((n2[i] - g.n[i]) \div 2))]), VInt(n2), g.h)
      [] o.op = "narrow" ->
            Reframe(g, E([i \in 1..D |-> IF i = o.dim + 1 THEN RI(o.start) ELSE Zero]),
                       E([i \in 1..D |-> IF i = o.dim + 1 THEN RI(o.len) ELSE RI(g.n[i])]), g.h)
      [] o.op = "roi" ->
            CropNum(g, o.start, E([i \in 1..D |-> g.n[i] - (o.start[i] + o.n[i])]))
      [] o.op = "pool" ->
            LET n2 == E([i \in 1..D |-> IF o.ceil THEN -((-g.n[i]) \div o.k) ELSE g.n[i] \div o.k]) IN
            Reframe(g, VConst(D, R(o.k - 1, 2)), VInt(n2), VScale(RI(o.k), g.h))
      \* convolution of an IMAGE with a kernel of half width r[i] along axis i (grids themselves have no such method): with 'same'
      \* padding the grid stays, with an explicit zero margin ("valid") r[i] samples are lost at both ends of axis i
      [] o.op = "conv" -> IF o.valid THEN CropNum(g, o.r, o.r) ELSE g

\* guard: the operation is within the range the property quantifies over for this grid
Enabled(g, o) ==
    LET D == GDim(g) IN
    LET NonDegenerate(a) == AcOf(g, a) => \A i \in 1..D : g.n[i] >= 2 IN
    CASE o.op \in {"center_crop", "center_pad"} -> Len(o.n) = D
      [] o.op \in {"resize", "reshape"} -> Len(o.n) = D /\ NonDegenerate(o.ac)
      [] o.op = "resample" -> Len(o.h) = D
      [] o.op = "downsample" ->
            /\ NonDegenerate(o.ac)
            /\ \A i \in 1..D : InDims(o, i) => (RLe(RI(2 * Pow2(o.levels)), g.s[i]) \/ RLt(RDiv(g.s[i], RI(Pow2(o.levels))), RI(o.min)))
      [] o.op = "upsample" -> NonDegenerate(o.ac) /\ \A i \in 1..D : RLe(RMul(g.s[i], RI(Pow2(o.levels))), RI(64))
      [] o.op = "crop" -> Len(o.lo) = D /\ \A i \in 1..D : RLe(One, RSub(g.s[i], RI(o.lo[i] + o.hi[i])))
      [] o.op = "pad" -> Len(o.lo) = D /\ \A i \in 1..D : RLe(One, RAdd(g.s[i], RI(o.lo[i] + o.hi[i])))
      [] o.op = "narrow" -> o.dim < D /\ o.start + o.len <= g.n[o.dim + 1]
      [] o.op = "roi" -> Len(o.start) = D /\ \A i \in 1..D : o.n[i] >= 1
      [] o.op = "pool" -> \A i \in 1..D : g.n[i] >= o.k
      [] o.op = "conv" -> Len(o.r) = D /\ \A i \in 1..D : g.n[i] >= 2 * o.r[i] + 2

(* ---------------------- world-geometry post-conditions ---------------------- *)
ResizeLike(g, g2, ac) ==
    /\ g2.c = g.c /\ g2.R = g.R /\ g2.ac = g.ac
    /\ IF ac THEN First(g2) = First(g) /\ LastPt(g2) = LastPt(g)
       ELSE Extent(g2) = Extent(g)
CropLike(g, g2, lo) ==   \* every sample j of g2 sits where sample j + lo of g sat
    /\ g2.h = g.h /\ g2.R = g.R /\ g2.ac = g.ac
    /\ AffApply(IndexToWorld(g2), VZero(GDim(g))) = AffApply(IndexToWorld(g), lo)
    /\ AffApply(IndexToWorld(g2), LastIdx(g2)) = AffApply(IndexToWorld(g), VAdd(lo, LastIdx(g2)))

Post(g, o, g2) ==
    LET D == GDim(g) IN
    /\ Valid(g2)
    /\ CASE o.op \in {"resize", "reshape"} ->
                /\ ResizeLike(g, g2, AcOf(g, o.ac))
                /\ g2.n = (IF o.op = "resize" THEN o.n ELSE [i \in 1..D |-> o.n[D + 1 - i]])
         [] o.op = "resample" ->
                /\ g2.c = g.c /\ g2.R = g.R /\ g2.h = o.h
                /\ \A i \in 1..D : RLe(Extent(g)[i], Extent(g2)[i]) \/ g2.n[i] = o.min
                /\ \A i \in 1..D : g2.n[i] > o.min => RLt(RSub(Extent(g2)[i], o.h[i]), Extent(g)[i])
         [] o.op \in {"downsample", "upsample"} ->
                /\ ResizeLike(g, g2, AcOf(g, o.ac))
                /\ \A i \in 1..D : ~InDims(o, i) => g2.s[i] = g.s[i]
         [] o.op = "crop" -> CropLike(g, g2, IF g2 = g THEN VZero(D) ELSE VInt(o.lo))
         [] o.op = "pad"  -> CropLike(g, g2, IF g2 = g THEN VZero(D) ELSE VNeg(VInt(o.lo)))
         [] o.op = "center_crop" ->
                /\ \A i \in 1..D : g2.n[i] = IMin(g.n[i], o.n[i])
                /\ CropLike(g, g2, E([i \in 1..D |-> RI((g.n[i] - g2.n[i]) \div 2)]))
         [] o.op = "center_pad" ->
                /\ \A i \in 1..D : g2.n[i] = IMax(g.n[i], o.n[i])
                /\ CropLike(g, g2, E([i \in 1..D |-> RI(-((g2.n[i] - g.n[i]) \div 2))]))
         [] o.op = "narrow" ->
                /\ g2.n = [i \in 1..D |-> IF i = o.dim + 1 THEN o.len ELSE g.n[i]]
                /\ CropLike(g, g2, E([i \in 1..D |-> IF i = o.dim + 1 THEN RI(o.start) ELSE Zero]))
         [] o.op = "roi" -> CropLike(g, g2, IF g2 = g THEN VZero(D) ELSE VInt(o.start))
         [] o.op = "conv" ->
                IF o.valid THEN /\ \A i \in 1..D : g2.n[i] = g.n[i] - 2 * o.r[i]
                                /\ g2.c = g.c     \* symmetric: the centre stays
                                /\ CropLike(g, g2, IF g2 = g THEN VZero(D) ELSE VInt(o.r))
                ELSE g2 = g
         [] o.op = "pool" ->
                /\ g2.R = g.R /\ g2.h = VScale(RI(o.k), g.h)
                \* sample j of the pooled grid sits at the centre of the kernel window [k j, k j + k - 1]
                /\ \A j \in {VZero(D), LastIdx(g2)} :
                       AffApply(IndexToWorld(g2), j) = AffApply(IndexToWorld(g), VAdd(VScale(RI(o.k), j), VConst(D, R(o.k - 1, 2))))

(* ------------------------------ state machine ------------------------------- *)
CONSTANTS Bases,      \* set of base grids (with s)
          OpsOf(_),   \* D -> set of operation records
          MaxDepth,
          EmitCases

VARIABLES base, hist, prev, cur
vars == <<base, hist, prev, cur>>

NoG == [n |-> <<>>, s |-> <<>>, h |-> <<>>, c |-> <<>>, R |-> <<>>, ac |-> FALSE]
Init == base = NoG /\ hist = <<>> /\ prev = NoG /\ cur = NoG
StartWith(b) == base' = b /\ cur' = b /\ prev' = NoG /\ hist' = <<>>
Do(o) == /\ Enabled(cur, o)
         /\ cur' = Apply(cur, o)
         /\ prev' = cur
         /\ hist' = Append(hist, o)
         /\ UNCHANGED base
Start == base = NoG /\ \E b \in Bases : StartWith(b)
\* (a convolution is explored as the first operation or after a pure crop, and nothing follows it: what padding contamination does to later
\*  interpolating steps is not part of the lock-step law)
LastOp == IF hist = <<>> THEN "" ELSE hist[Len(hist)].op
TrueCrop == IF LastOp # "crop" THEN TRUE ELSE LET c == hist[Len(hist)] IN \A i \in 1..Len(c.lo) : c.lo[i] >= 0 /\ c.hi[i] >= 0   \* (negative margins pad)
ConvAllowed(o) == IF o.op # "conv" THEN TRUE ELSE LastOp \in {"", "crop", "center_crop", "narrow"} /\ TrueCrop
Step  == /\ base # NoG /\ Len(hist) < MaxDepth
         /\ LastOp # "conv"
         /\ \E o \in OpsOf(GDim(cur)) : ConvAllowed(o) /\ Do(o)
Next == Start \/ Step
Spec == Init /\ [][Next]_vars

\* ---- invariants ----
PostHolds == hist # <<>> => Post(prev, hist[Len(hist)], cur)
BaseValid == base # NoG => Valid(base)
\* downsample followed by the matching upsample restores the grid (incl. s) when no axis was clamped
DownUp ==
    (Len(hist) >= 2 /\ hist[Len(hist)].op = "upsample" /\ hist[Len(hist) - 1].op = "downsample"
       /\ hist[Len(hist)].levels = hist[Len(hist) - 1].levels /\ hist[Len(hist)].dims = hist[Len(hist) - 1].dims
       /\ hist[Len(hist)].ac = hist[Len(hist) - 1].ac) =>
      LET g0 == IF Len(hist) = 2 THEN base ELSE NoG IN
      (g0 # NoG /\ \A i \in 1..GDim(g0) : InDims(hist[1], i) => RLe(RI(hist[1].min), RDiv(g0.s[i], RI(Pow2(hist[1].levels)))))
        => cur = g0

Emit == (EmitCases /\ hist # <<>>) =>
          PrintT(ToJson([base |-> base, hist |-> hist, g |-> cur, origin |-> Origin(cur),
                         cube_extent |-> CubeExtent(cur, cur.ac)]))
=============================================================================
