---------------------------- MODULE MC_Sampler ----------------------------
EXTENDS Sampler
W5 == <<2, 0, 1, 3, 1>>
W3 == <<1, 1, 0>>
\* the size rule for all requests up to 400 and up to 32 replicas (evaluated once when TLC starts); the padding half is also
\* proved for ALL naturals in spec/proofs/SamplerProof.tla (TLAPS)
SizeRuleAll == \A num \in 0..400, r \in 1..32 :
    /\ Total(num, r, TRUE) <= num /\ num - Total(num, r, TRUE) < r
    /\ Total(num, r, FALSE) >= num /\ Total(num, r, FALSE) - num < r
    /\ PerRank(num, r, TRUE) = num \div r
ASSUME SizeRuleAll
=============================================================================
