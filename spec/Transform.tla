------------------------------ MODULE Transform ------------------------------
(***************************************************************************)
(* What a spatial transform MEANS (spatial/linear.py, composite.py,        *)
(* generic.py, transformer.py): every linear model is an affine map M of   *)
(* the normalised cube of its grid; its world-space meaning is             *)
(*        W = ToWorld(g, cube) o M o ToWorld(g, cube)^-1,                  *)
(* and every way of evaluating the transform (tensor/matrix, point map,    *)
(* dense displacement on its own or another grid, world-coordinate point   *)
(* API, image warping) must show this one map.  Composites multiply in the *)
(* listed order; the inverse is the inverse map.  Properties C06 and C07.  *)
(***************************************************************************)
EXTENDS GridDefs, Rotations0

\* ---- elementary models: parameters -> affine map of the cube
TranslationM(D, t)  == Aff(MId(D), t)
ScalingM(s)         == Aff(MDiag(s), VZero(Len(s)))
ShearM(D, tn)       ==  \* tn: tangents for the upper-triangular entries (0,1) | (0,1),(0,2),(1,2)
    Aff(IF D = 2 THEN << <<One, tn[1]>>, <<Zero, One>> >>
        ELSE << <<One, tn[1], tn[2]>>, <<Zero, One, tn[3]>>, <<Zero, Zero, One>> >>, VZero(D))
RotationM(D, order, css) == Aff(IF D = 2 THEN Rot2Of(css[1]) ELSE Euler(order, css), VZero(D))
QuaternionM(q)      == Aff(QMat(q), VZero(3))
HomogeneousM(A, t)  == Aff(A, t)

\* a model is a sequence of elementary parts applied in the listed order: x |-> part_n(...part_1(x))
PartM(D, p) ==
    CASE p.k = "translation" -> TranslationM(D, p.t)
      [] p.k = "scaling"     -> ScalingM(p.s)
      [] p.k = "isoscaling"  -> ScalingM(VConst(D, p.s[1]))
      [] p.k = "shearing"    -> ShearM(D, p.tn)
      [] p.k = "rotation"    -> RotationM(D, p.order, p.cs)
      [] p.k = "quaternion"  -> QuaternionM(p.q)
      [] p.k = "homogeneous" -> HomogeneousM(p.A, p.t)
      \* a dense displacement field whose displacement is the affine function (A - I) x + t of the cube position:
      \* linear interpolation reproduces it exactly, so inside the domain the transform IS the affine map A x + t
      [] p.k = "ddf"         -> HomogeneousM(p.A, p.t)
RECURSIVE SeqM(_, _)
SeqM(D, parts) == IF parts = <<>> THEN AffId(D)
                  ELSE AffComp(SeqM(D, Tail(parts)), PartM(D, Head(parts)))
\* NB: SeqM(<<p1, p2, ..>>) = ... o p2 o p1  (p1 is applied first)
\* the inverse of a sequence is the reversed sequence of inverses; as a map it is the inverse map
InvM(D, parts) == AffInv(SeqM(D, parts))

\* ---- world-space meaning
CubeOf(g) == CubeAxesOf(g.ac)
World(g, M) == AffComp(ToWorld(g, CubeOf(g)), AffComp(M, AffInv(ToWorld(g, CubeOf(g)))))
\* the same map expressed in coordinates (g2, a2) -> (g3, a3)
Expressed(g, M, g2, a2, g3, a3) == AffComp(AffInv(ToWorld(g3, a3)), AffComp(World(g, M), ToWorld(g2, a2)))

CONSTANTS ModelsOf(_),   \* D -> set of [name, parts]
          GridsOf(_),    \* D -> set of grids the transform lives on
          OthersOf(_),   \* D -> set of other grids (displacement sampling, point API, warping)
          Dims, EmitCases
VARIABLES st, ca
vars == <<st, ca>>
NoCase == [name |-> "", parts |-> <<>>, g |-> <<>>, g2 |-> <<>>]
Init == st = 0 /\ ca = NoCase
Pick == st = 0 /\ \E D \in Dims : \E m \in ModelsOf(D), g \in GridsOf(D), g2 \in OthersOf(D) :
            ca' = [name |-> m.name, parts |-> m.parts, g |-> g, g2 |-> g2] /\ st' = 1
Next == Pick
Spec == Init /\ [][Next]_vars

Dc == Len(ca.g.n)
Laws ==
    st = 1 =>
        LET M == SeqM(Dc, ca.parts)  Mi == InvM(Dc, ca.parts) IN
        /\ AffComp(Mi, M) = AffId(Dc) /\ AffComp(M, Mi) = AffId(Dc)
        \* world meaning of the inverse is the inverse of the world meaning
        /\ AffComp(World(ca.g, Mi), World(ca.g, M)) = AffId(Dc)
        \* expressing the map on another grid and back does not change it
        /\ Expressed(ca.g, M, ca.g, CubeOf(ca.g), ca.g, CubeOf(ca.g)) = M
        /\ AffComp(Expressed(ca.g, M, ca.g2, "world", ca.g, CubeOf(ca.g)), AffInv(ToWorld(ca.g2, "world"))) =
               AffComp(M, AffInv(ToWorld(ca.g, CubeOf(ca.g))))
Emit == (EmitCases /\ st = 1) =>
    LET M == SeqM(Dc, ca.parts) IN
    PrintT(ToJson([name |-> ca.name, parts |-> ca.parts, g |-> ca.g, g2 |-> ca.g2,
                   M |-> AffHom(M), Minv |-> AffHom(InvM(Dc, ca.parts)),
                   \* maps after the first k members (k = 1..n): needed to know where intermediate points lie
                   partial |-> E([k \in 1..Len(ca.parts) |-> AffHom(SeqM(Dc, SubSeq(ca.parts, 1, k)))]),
                   W |-> AffHom(World(ca.g, M)),
                   \* the map in the cube coordinates of the other grid, and from (g2, world) to (g2, grid)
                   M2 |-> AffHom(Expressed(ca.g, M, ca.g2, CubeOf(ca.g2), ca.g2, CubeOf(ca.g2))),
                   Mwg |-> AffHom(Expressed(ca.g, M, ca.g2, "world", ca.g2, "grid"))]))
=============================================================================
