-------------------------------- MODULE Loss --------------------------------
(***************************************************************************)
(* Pairwise image losses (losses/functional.py, losses/image.py).          *)
(* Layer 1: exact values where the definition is unambiguous (pointwise    *)
(* losses with mask and normalisation, global NCC, Dice, Tversky) on small *)
(* integer images.  Layer 2: the defining AXIOMS as predicates over        *)
(* recorded evaluations (used by Trace_Loss for every loss, including      *)
(* local correlation and mutual information, whose values involve          *)
(* windows, exp and log).  Property C16.                                   *)
(***************************************************************************)
EXTENDS RatLA, TLC, Json

SeqSum(s) == RSumSeq(s)
Len_(s) == Len(s)
ISeq(s) == E([i \in 1..Len(s) |-> RI(s[i])])
Mean(s) == RDiv(SeqSum(s), RI(Len(s)))
\* ---- pointwise losses: x, y integer images (flattened), m mask weights (<<>> = no mask)
Pointwise(kind, a, b) == CASE kind = "ssd" -> RSq(RSub(a, b)) [] kind = "mae" -> RAbs(RSub(a, b))
None_(kind, x, y, m) == E([i \in 1..Len(x) |-> RMul(Pointwise(kind, RI(x[i]), RI(y[i])), IF m = <<>> THEN One ELSE RI(m[i]))])
Reduce(l, m, red) ==
    IF red = "sum" THEN SeqSum(l)
    ELSE IF m = <<>> THEN Mean(l) ELSE RDiv(SeqSum(l), SeqSum(ISeq(m)))     \* mean over the masked region only
Normed(v, norm) == IF norm > 0 THEN RDiv(v, RI(norm)) ELSE v
PointLoss(kind, x, y, m, red, norm) == Normed(Reduce(None_(kind, x, y, m), m, red), norm)

\* ---- global normalised cross correlation of one image pair: 1 - a^2 / (b c)
Centered(s) == LET mu == Mean(ISeq(s)) IN E([i \in 1..Len(s) |-> RSub(RI(s[i]), mu)])
NCC(x, y) == LET cx == Centered(x)  cy == Centered(y)
                 a == Dot(cx, cy)  b == Dot(cx, cx)  c == Dot(cy, cy) IN
             RSub(One, RDiv(RSq(a), RMul(b, c)))

\* ---- overlap of binary segmentations p, t (0/1 sequences), optional weights w
WDot(a, b, w) == RSumSeq(E([i \in 1..Len(a) |-> RMul(RMul(RI(a[i]), RI(b[i])), IF w = <<>> THEN One ELSE RI(w[i]))]))
Comp(s) == E([i \in 1..Len(s) |-> 1 - s[i]])
Dice(p, t, w) == RDiv(RMul(Two, WDot(p, t, w)), RAdd(WDot(p, p, w), WDot(t, t, w)))
Tversky(p, t, w, al, be) == LET I == WDot(p, t, w) IN
    RDiv(I, RAdd(I, RAdd(RMul(al, WDot(p, Comp(t), w)), RMul(be, WDot(Comp(p), t, w)))))

\* ------------------------------------------------------------------ Layer 2: axioms over recorded values (micro-units)
Tol == 30        \* 3e-5: recorded float32 evaluations
Near(a, b) == IAbs(a - b) <= Tol
AxiomHolds(ev) ==
    CASE ev.ax = "identical_min"   -> Near(ev.v, ev.min)                  \* identical inputs give the documented minimum
      [] ev.ax = "range"           -> ev.lo - Tol <= ev.v /\ ev.v <= ev.hi + Tol
      [] ev.ax = "symmetric"       -> Near(ev.v1, ev.v2)                  \* L(x, y) = L(y, x)
      [] ev.ax = "invariant"       -> Near(ev.v1, ev.v2)                  \* L(a x + b, y) = L(x, y);  L unchanged where mask = 0
      [] ev.ax = "mean_of_none"    -> IAbs(ev.mean * ev.count - ev.sum) <= Tol * ev.count + ev.count
      [] ev.ax = "sum_of_none"     -> Near(ev.v1, ev.v2)
      [] ev.ax = "norm_scaling"    -> IAbs(ev.v1 - ev.v2 * ev.k) <= Tol * ev.k      \* L(norm = k) * k = L(norm unset)
      [] ev.ax = "equals"          -> Near(ev.v1, ev.v2)                  \* e.g. Tversky(1/2, 1/2) = Dice on binary inputs
      [] ev.ax = "accepted"        -> ~ev.exc                             \* a documented argument form must be accepted

CONSTANTS Pairs, Masks, SegPairs, EmitCases
VARIABLES st, ca
vars == <<st, ca>>
Init == st = 0 /\ ca = [kind |-> ""]
PickP == st = 0 /\ \E p \in Pairs, m \in Masks \cup {<<>>}, k \in {"ssd", "mae"}, red \in {"mean", "sum"}, norm \in {0, 4} :
            ca' = [kind |-> "point", loss |-> k, x |-> p[1], y |-> p[2], m |-> m, red |-> red, norm |-> norm] /\ st' = 1
PickN == st = 0 /\ \E p \in Pairs : ca' = [kind |-> "ncc", x |-> p[1], y |-> p[2]] /\ st' = 1
PickO == st = 0 /\ \E p \in SegPairs, w \in Masks \cup {<<>>} : ca' = [kind |-> "overlap", p |-> p[1], t |-> p[2], w |-> w] /\ st' = 1
Next == PickP \/ PickN \/ PickO
Spec == Init /\ [][Next]_vars

\* layer 1 satisfies the axioms exactly
Laws ==
    /\ (st = 1 /\ ca.kind = "point") =>
          /\ PointLoss(ca.loss, ca.x, ca.x, ca.m, ca.red, ca.norm) = Zero
          /\ PointLoss(ca.loss, ca.x, ca.y, ca.m, ca.red, ca.norm) = PointLoss(ca.loss, ca.y, ca.x, ca.m, ca.red, ca.norm)
          /\ RLe(Zero, PointLoss(ca.loss, ca.x, ca.y, ca.m, ca.red, ca.norm))
          \* samples where the mask is zero are ignored entirely
          /\ ca.m # <<>> =>
               LET x2 == E([i \in 1..Len(ca.x) |-> IF ca.m[i] = 0 THEN ca.x[i] + 17 ELSE ca.x[i]]) IN
               PointLoss(ca.loss, x2, ca.y, ca.m, ca.red, ca.norm) = PointLoss(ca.loss, ca.x, ca.y, ca.m, ca.red, ca.norm)
    /\ (st = 1 /\ ca.kind = "ncc") =>
          /\ NCC(ca.x, ca.x) = Zero /\ NCC(ca.x, ca.y) = NCC(ca.y, ca.x)
          /\ RLe(Zero, NCC(ca.x, ca.y)) /\ RLe(NCC(ca.x, ca.y), One)
          /\ NCC(E([i \in 1..Len(ca.x) |-> 3 * ca.x[i] - 5]), ca.y) = NCC(ca.x, ca.y)     \* intensity scale and offset
          /\ NCC(E([i \in 1..Len(ca.x) |-> -2 * ca.x[i] + 1]), ca.y) = NCC(ca.x, ca.y)
    /\ (st = 1 /\ ca.kind = "overlap") =>
          /\ Dice(ca.p, ca.p, ca.w) = One /\ Dice(ca.p, ca.t, ca.w) = Dice(ca.t, ca.p, ca.w)
          /\ Tversky(ca.p, ca.t, ca.w, Half, Half) = Dice(ca.p, ca.t, ca.w)
          /\ Tversky(ca.p, ca.p, ca.w, R(3,10), R(7,10)) = One
          /\ RLe(Zero, Dice(ca.p, ca.t, ca.w)) /\ RLe(Dice(ca.p, ca.t, ca.w), One)

Emit == (EmitCases /\ st = 1) =>
    CASE ca.kind = "point" -> PrintT(ToJson(ca @@ [none |-> None_(ca.loss, ca.x, ca.y, ca.m), value |-> PointLoss(ca.loss, ca.x, ca.y, ca.m, ca.red, ca.norm)]))
      [] ca.kind = "ncc" -> PrintT(ToJson(ca @@ [value |-> NCC(ca.x, ca.y)]))
      [] ca.kind = "overlap" -> PrintT(ToJson(ca @@ [dice |-> Dice(ca.p, ca.t, ca.w), tv37 |-> Tversky(ca.p, ca.t, ca.w, R(3,10), R(7,10)),
                                                     tv55 |-> Tversky(ca.p, ca.t, ca.w, Half, Half)]))
=============================================================================
