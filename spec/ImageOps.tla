------------------------------ MODULE ImageOps ------------------------------
(***************************************************************************)
(* Values of the basic image operations (core/image.py) - beyond the listed *)
(* properties (C04 covers how these operations move the GRID; this module   *)
(* states what the DATA must be).  2-D integer images I[j][i] (row j = y,   *)
(* column i = x, 1-based); results in exact rationals.                      *)
(***************************************************************************)
EXTENDS RatLA, TLC, Json

NX(I) == Len(I[1])
NY(I) == Len(I)
At(I, i, j) == I[j][i]
Mk(nx, ny, F(_, _)) == E([j \in 1..ny |-> E([i \in 1..nx |-> F(i, j)])])

\* source index for an out-of-range position under the border modes (1-based, n samples)
Clamp(i, n) == IMax(1, IMin(n, i))
RECURSIVE Reflect(_, _)
Reflect(i, n) == IF n = 1 THEN 1 ELSE IF i < 1 THEN Reflect(2 - i, n) ELSE IF i > n THEN Reflect(2 * n - i, n) ELSE i   \* mirror about the edge SAMPLE
\* pad (negative amounts crop): l, r along x; t, b along y
Pad(I, l, r, t, b, mode, v) ==
    Mk(NX(I) + l + r, NY(I) + t + b,
       LAMBDA i, j : LET si == i - l  sj == j - t IN
                     IF si \in 1..NX(I) /\ sj \in 1..NY(I) THEN At(I, si, sj)
                     ELSE IF mode = "constant" THEN v
                     ELSE IF mode = "replicate" THEN At(I, Clamp(si, NX(I)), Clamp(sj, NY(I)))
                     ELSE At(I, Reflect(si, NX(I)), Reflect(sj, NY(I))))
Crop(I, mx, my) == Pad(I, -mx, -mx, -my, -my, "constant", 0)
\* centre crop / pad to size (sx, sy): the smaller half of an odd difference goes in FRONT
CenterCrop(I, sx, sy) ==
    LET ox == IF sx < NX(I) THEN (NX(I) - sx) \div 2 ELSE 0  oy == IF sy < NY(I) THEN (NY(I) - sy) \div 2 ELSE 0 IN
    Mk(IMin(sx, NX(I)), IMin(sy, NY(I)), LAMBDA i, j : At(I, i + ox, j + oy))
CenterPad(I, sx, sy, v) ==
    LET dx == IMax(sx - NX(I), 0)  dy == IMax(sy - NY(I), 0) IN
    Pad(I, dx \div 2, dx - dx \div 2, dy \div 2, dy - dy \div 2, "constant", v)
FillBorder(I, mx, my, v) ==
    Mk(NX(I), NY(I), LAMBDA i, j : IF i <= mx \/ i > NX(I) - mx \/ j <= my \/ j > NY(I) - my THEN v ELSE At(I, i, j))
\* block pooling, kernel = stride = k, no padding, floor mode
Block(I, k, bi, bj) == {At(I, (bi - 1) * k + a, (bj - 1) * k + b) : a \in 1..k, b \in 1..k}
SetMax(S) == CHOOSE x \in S : \A y \in S : y <= x
SetMin(S) == CHOOSE x \in S : \A y \in S : x <= y
BlockSum(I, k, bi, bj) == RSumSeq(E([q \in 1..(k * k) |-> RI(At(I, (bi - 1) * k + ((q - 1) % k) + 1, (bj - 1) * k + ((q - 1) \div k) + 1))]))
AvgPool(I, k) == Mk(NX(I) \div k, NY(I) \div k, LAMBDA i, j : RDiv(BlockSum(I, k, i, j), RI(k * k)))
MaxPool(I, k) == Mk(NX(I) \div k, NY(I) \div k, LAMBDA i, j : SetMax(Block(I, k, i, j)))
MinPool(I, k) == Mk(NX(I) \div k, NY(I) \div k, LAMBDA i, j : SetMin(Block(I, k, i, j)))
\* intensity maps
Values(I) == {At(I, i, j) : i \in 1..NX(I), j \in 1..NY(I)}
Rescale(I, lo, hi) ==
    LET a == SetMin(Values(I))  b == SetMax(Values(I)) IN
    Mk(NX(I), NY(I), LAMBDA i, j : IF a = b THEN lo ELSE RAdd(lo, RMul(RDiv(RSub(hi, lo), RI(b - a)), RI(At(I, i, j) - a))))
Normalize(I, mode) == LET U == Rescale(I, Zero, One) IN
    IF mode = "unit" THEN U ELSE Mk(NX(I), NY(I), LAMBDA i, j : RSub(At(U, i, j), Half))
\* separable convolution along x with an odd kernel, output of the same size; kernel given as rationals
ConvX(I, ker, mode) ==
    LET h == Len(ker) \div 2 IN
    Mk(NX(I), NY(I), LAMBDA i, j : RSumSeq(E([q \in 1..Len(ker) |->
        LET si == i + q - 1 - h IN
        RMul(ker[q], IF si \in 1..NX(I) THEN RI(At(I, si, j))
                     ELSE IF mode = "zeros" THEN Zero
                     ELSE IF mode = "replicate" THEN RI(At(I, Clamp(si, NX(I)), j))
                     ELSE RI(At(I, Reflect(si, NX(I)), j)))])))

CONSTANTS Images, Kernels, EmitCases
VARIABLES st, ca
vars == <<st, ca>>
Init == st = 0 /\ ca = [kind |-> ""]
PickPad == st = 0 /\ \E I \in Images, l \in {-1, 0, 2}, r \in {0, 1}, t \in {-1, 0, 1}, b \in {0, 2}, mode \in {"constant", "replicate", "reflect"} :
              /\ NX(I) + l + r >= 1 /\ NY(I) + t + b >= 1
              /\ (mode = "reflect" => (l < NX(I) /\ r < NX(I) /\ t < NY(I) /\ b < NY(I)))
              /\ ca' = [kind |-> "pad", I |-> I, l |-> l, r |-> r, t |-> t, b |-> b, mode |-> mode] /\ st' = 1
PickCenter == st = 0 /\ \E I \in Images, sx \in 1..7, sy \in 1..6 : ca' = [kind |-> "center", I |-> I, sx |-> sx, sy |-> sy] /\ st' = 1
PickMisc == st = 0 /\ \E I \in Images : ca' = [kind |-> "misc", I |-> I] /\ st' = 1
PickConv == st = 0 /\ \E I \in Images, ker \in Kernels, mode \in {"zeros", "replicate", "reflect"} :
              Len(ker) \div 2 < NX(I) /\ ca' = [kind |-> "conv", I |-> I, ker |-> ker, mode |-> mode] /\ st' = 1
Next == PickPad \/ PickCenter \/ PickMisc \/ PickConv
Spec == Init /\ [][Next]_vars

Sum2(M) == RSumSeq(E([j \in 1..Len(M) |-> RSumSeq(M[j])]))
Laws == st = 1 =>
    CASE ca.kind = "pad" ->
            LET I == ca.I  P == Pad(I, ca.l, ca.r, ca.t, ca.b, ca.mode, 7) IN
            /\ NX(P) = NX(I) + ca.l + ca.r /\ NY(P) = NY(I) + ca.t + ca.b
            \* cropping the padding away gives the image back, whatever the mode (only where amounts are non-negative)
            /\ (ca.l >= 0 /\ ca.r >= 0 /\ ca.t >= 0 /\ ca.b >= 0) => Pad(P, -ca.l, -ca.r, -ca.t, -ca.b, "constant", 0) = I
            \* border modes never invent values
            /\ (ca.mode # "constant") => Values(P) \subseteq Values(I)
      [] ca.kind = "center" ->
            LET I == ca.I IN
            /\ CenterCrop(CenterPad(I, ca.sx, ca.sy, 9), NX(I), NY(I)) = I      \* padding then cropping back is the identity
            /\ NX(CenterPad(I, ca.sx, ca.sy, 9)) = IMax(ca.sx, NX(I))
            /\ NX(CenterCrop(I, ca.sx, ca.sy)) = IMin(ca.sx, NX(I))
      [] ca.kind = "misc" ->
            LET I == ca.I IN
            /\ FillBorder(FillBorder(I, 1, 1, 5), 1, 1, 5) = FillBorder(I, 1, 1, 5)
            /\ \A k \in {1, 2} : (NX(I) % k = 0 /\ NY(I) % k = 0) =>
                   RMul(Sum2(AvgPool(I, k)), RI(k * k)) = Sum2(Mk(NX(I), NY(I), LAMBDA i, j : RI(At(I, i, j))))   \* pooling preserves the mean
            /\ \A i \in 1..(NX(I) \div 2), j \in 1..(NY(I) \div 2) :
                   /\ RLe(RI(MinPool(I, 2)[j][i]), AvgPool(I, 2)[j][i]) /\ RLe(AvgPool(I, 2)[j][i], RI(MaxPool(I, 2)[j][i]))
            /\ LET Rs == Rescale(I, RI(-1), RI(3)) IN \A i \in 1..NX(I), j \in 1..NY(I) : RLe(RI(-1), Rs[j][i]) /\ RLe(Rs[j][i], RI(3))
      [] ca.kind = "conv" ->
            \* a kernel that sums to one keeps constants under the border modes (and in the interior for zeros)
            LET C5 == Mk(NX(ca.I), NY(ca.I), LAMBDA i, j : 5) IN
            (RSumSeq(ca.ker) = One /\ ca.mode # "zeros") => ConvX(C5, ca.ker, ca.mode) = Mk(NX(ca.I), NY(ca.I), LAMBDA i, j : RI(5))

Emit == (EmitCases /\ st = 1) =>
    CASE ca.kind = "pad" -> PrintT(ToJson([kind |-> "pad", I |-> ca.I, l |-> ca.l, r |-> ca.r, t |-> ca.t, b |-> ca.b, mode |-> ca.mode,
                                           out |-> Pad(ca.I, ca.l, ca.r, ca.t, ca.b, ca.mode, 7)]))
      [] ca.kind = "center" -> PrintT(ToJson([kind |-> "center", I |-> ca.I, sx |-> ca.sx, sy |-> ca.sy,
                                              crop |-> CenterCrop(ca.I, ca.sx, ca.sy), pad |-> CenterPad(ca.I, ca.sx, ca.sy, 9)]))
      [] ca.kind = "misc" -> PrintT(ToJson([kind |-> "misc", I |-> ca.I, fill |-> FillBorder(ca.I, 1, 0, 5), fill2 |-> FillBorder(ca.I, 1, 1, -2),
                                            avg |-> AvgPool(ca.I, 2), max |-> MaxPool(ca.I, 2), min |-> MinPool(ca.I, 2),
                                            rescale |-> Rescale(ca.I, RI(-1), RI(3)), unit |-> Normalize(ca.I, "unit"), center |-> Normalize(ca.I, "center"),
                                            crop1 |-> Crop(ca.I, 1, 0)]))
      [] ca.kind = "conv" -> PrintT(ToJson([kind |-> "conv", I |-> ca.I, ker |-> ca.ker, mode |-> ca.mode, out |-> ConvX(ca.I, ca.ker, ca.mode)]))
=============================================================================
