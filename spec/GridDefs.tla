----------------------------- MODULE GridDefs -----------------------------
(***************************************************************************)
(* Sampling grids of deepali (core/grid.py, core/cube.py) in exact         *)
(* rational arithmetic: the four coordinate systems of a grid, the family  *)
(* of affine maps between them (within one grid and across two grids),     *)
(* the vector maps, the normalised sample lattice, and the ITK image       *)
(* geometry convention.  Written from the documentation and from first     *)
(* principles (ITK index->physical formula; torch grid_sample              *)
(* un-normalisation), not from the 16-branch table in Grid.transform.      *)
(*                                                                         *)
(* Pure definitions and laws; used by Grid (C01, C02), GridOps (C03),      *)
(* Image (C04), Resample (C05), Transform (C06), Flow (C10), ...           *)
(***************************************************************************)
EXTENDS Rot, TLC, Json

\* A grid: n sizes (x,...), h spacing, c centre, R direction cosines (columns = axis directions),
\* ac the align_corners default of the grid.
GDim(g)   == Len(g.n)
NVec(g)   == VInt(g.n)
\* index -> world linear part: R * diag(h)
GAff(g)   == MMul(g.R, MDiag(g.h))
\* continuous index of the centre: (n - 1) / 2
CIdx(g)   == E([i \in 1..GDim(g) |-> R(g.n[i] - 1, 2)])
\* world position of sample 0
Origin(g) == VSub(g.c, MVec(GAff(g), CIdx(g)))

AxesSet == {"grid", "cube", "cube_corners", "world"}
CubeAxesOf(ac) == IF ac THEN "cube_corners" ELSE "cube"

(* ---- the four coordinate systems, each defined by its map INTO grid-index space ---- *)
\* torch grid_sample un-normalisation, align_corners=True:   i = (u + 1)/2 * (n - 1)
CubeCornersToIndex(g) == Aff(MDiag(CIdx(g)), CIdx(g))
\* torch grid_sample un-normalisation, align_corners=False:  i = ((u + 1) * n - 1)/2
CubeToIndex(g) == Aff(MDiag(E([i \in 1..GDim(g) |-> R(g.n[i], 2)])), CIdx(g))
\* ITK: x = origin + R diag(h) i
IndexToWorld(g) == Aff(GAff(g), Origin(g))

ToWorld(g, a) ==
    CASE a = "world"        -> AffId(GDim(g))
      [] a = "grid"         -> IndexToWorld(g)
      [] a = "cube"         -> AffComp(IndexToWorld(g), CubeToIndex(g))
      [] a = "cube_corners" -> AffComp(IndexToWorld(g), CubeCornersToIndex(g))

\* point map: coordinates w.r.t. axes a of grid g  ->  coordinates w.r.t. axes b of grid g2
Map(g, a, g2, b) == AffComp(AffInv(ToWorld(g2, b)), ToWorld(g, a))
\* vectors transform by the linear part only
VecMap(g, a, g2, b) == Map(g, a, g2, b).A

(* ---- normalised sample lattice ---- *)
\* k-th normalised coordinate along an axis with n samples
Coord(n, ac, k) ==
    IF n = 1 THEN Zero
    ELSE IF ac THEN RAdd(RI(-1), R(2 * k, n - 1))
    ELSE RAdd(RI(-1), R(2 * k + 1, n))

(* ---- laws (checked by TLC on the model) ---- *)
Unit(D, i, a) == E([j \in 1..D |-> IF j = i THEN a ELSE Zero])
LastIdx(g) == E([i \in 1..GDim(g) |-> RI(g.n[i] - 1)])
HalfStepBeyond(g, sgn) ==  \* index half a sample beyond first (sgn=-1) / last (sgn=+1) sample
    E([i \in 1..GDim(g) |-> IF sgn < 0 THEN R(-1, 2) ELSE RAdd(RI(g.n[i] - 1), Half)])

Anchors(g) ==
    LET D == GDim(g) IN
    /\ AffApply(Map(g, "grid", g, "world"), VZero(D)) = Origin(g)
    /\ AffApply(Map(g, "grid", g, "world"), CIdx(g)) = g.c
    /\ AffApply(Map(g, "cube_corners", g, "grid"), VConst(D, RI(-1))) = VZero(D)
    /\ AffApply(Map(g, "cube_corners", g, "grid"), VConst(D, One)) = LastIdx(g)
    /\ AffApply(Map(g, "cube", g, "grid"), VConst(D, RI(-1))) = HalfStepBeyond(g, -1)
    /\ AffApply(Map(g, "cube", g, "grid"), VConst(D, One)) = HalfStepBeyond(g, 1)
    /\ AffApply(Map(g, "cube", g, "world"), VZero(D)) = g.c
    /\ AffApply(Map(g, "cube_corners", g, "world"), VZero(D)) = g.c
    \* direction columns are the unit steps along each axis, scaled by the spacing
    /\ \A i \in 1..D :
         VSub(AffApply(IndexToWorld(g), Unit(D, i, One)), Origin(g)) = VScale(g.h[i], MCol(g.R, i))

\* Tables of the 4 + 4 world maps and the 16 maps between two grids; TLC memoises LET values,
\* so each matrix inverse is computed once per grid pair instead of once per law instance.
TWTab(g)  == [grid |-> ToWorld(g, "grid"), cube |-> ToWorld(g, "cube"),
              cube_corners |-> ToWorld(g, "cube_corners"), world |-> ToWorld(g, "world")]
InvTab(tw) == [grid |-> AffInv(tw.grid), cube |-> AffInv(tw.cube),
               cube_corners |-> AffInv(tw.cube_corners), world |-> AffInv(tw.world)]
TWITab(g) == InvTab(TWTab(g))
MapRow(f, twi2) == [grid |-> AffComp(twi2.grid, f), cube |-> AffComp(twi2.cube, f),
                    cube_corners |-> AffComp(twi2.cube_corners, f), world |-> AffComp(twi2.world, f)]
MapTab(tw, twi2) == [grid |-> MapRow(tw.grid, twi2), cube |-> MapRow(tw.cube, twi2),
                     cube_corners |-> MapRow(tw.cube_corners, twi2), world |-> MapRow(tw.world, twi2)]

RoundTrip(g, g2) ==
    LET tw == TWTab(g)  twi == TWITab(g)  tw2 == TWTab(g2)  twi2 == TWITab(g2)
        F == MapTab(tw, twi2)  B == MapTab(tw2, twi)  I == AffId(GDim(g)) IN
    \A a \in AxesSet, b \in AxesSet : AffComp(B[b][a], F[a][b]) = I

PathIndependent(g, g2) ==
    LET tw == TWTab(g)  twi == TWITab(g)  tw2 == TWTab(g2)  twi2 == TWITab(g2)
        S == MapTab(tw, twi)  T == MapTab(tw2, twi2)  F == MapTab(tw, twi2) IN
    \A a \in AxesSet, b \in AxesSet, c \in AxesSet :
        /\ S[a][c] = AffComp(S[b][c], S[a][b])
        /\ F[a][c] = AffComp(T[b][c], F[a][b])
        /\ F[a][c] = AffComp(F[b][c], S[a][b])

CoordsLaw(g) ==
    \A i \in 1..GDim(g) : \A ac \in BOOLEAN :
        LET n == g.n[i]  ax == CubeAxesOf(ac)  f == Map(g, "grid", g, ax) IN
        \A k \in 0..(n - 1) :
            /\ AffApply(f, Unit(GDim(g), i, RI(k)))[i] = Coord(n, ac, k)
            /\ RLe(RI(-1), Coord(n, ac, k)) /\ RLe(Coord(n, ac, k), One)
            /\ k > 0 => RLt(Coord(n, ac, k - 1), Coord(n, ac, k))

\* the 16 maps of one grid are pairwise different unless source = target axes twice
Discriminates(g) ==
    LET S == MapTab(TWTab(g), TWITab(g)) IN
    \A a \in AxesSet, b \in AxesSet, a2 \in AxesSet, b2 \in AxesSet :
        (<<a, b>> # <<a2, b2>> /\ ~(a = b /\ a2 = b2)) => S[a][b] # S[a2][b2]

(* ---- ITK convention, written independently of the centre-based form (C02) ---- *)
\* header: [size, origin, spacing, dir] with dir the direction matrix (row-major list in files)
ItkPhys(hd, i)  == VAdd(hd.origin, MVec(hd.dir, VMulEl(hd.spacing, i)))
ItkIndex(hd, x) == VDivEl(MVec(MT(hd.dir), VSub(x, hd.origin)), hd.spacing)
HeaderOf(g)     == [size |-> g.n, origin |-> Origin(g), spacing |-> g.h, dir |-> g.R]
FromHeader(hd, ac) ==
    [n |-> hd.size, h |-> hd.spacing, R |-> hd.dir, ac |-> ac,
     c |-> ItkPhys(hd, E([i \in 1..Len(hd.size) |-> R(hd.size[i] - 1, 2)]))]
FlatDir(hd) == LET D == Len(hd.size) IN E([k \in 1..(D * D) |-> hd.dir[((k - 1) \div D) + 1][((k - 1) % D) + 1]])

ItkLaws(g, P) ==
    LET hd == HeaderOf(g) IN
    /\ FromHeader(hd, g.ac) = g
    /\ HeaderOf(FromHeader(hd, g.ac)) = hd
    /\ \A p \in P :
        /\ ItkIndex(hd, ItkPhys(hd, p)) = p
        /\ ItkPhys(hd, p) = AffApply(Map(g, "grid", g, "world"), p)
        /\ ItkIndex(hd, p) = AffApply(Map(g, "world", g, "grid"), p)

=============================================================================
