------------------------------ MODULE Sampler ------------------------------
(***************************************************************************)
(* DistributedWeightedRandomSampler (data/sampler.py) - beyond the listed   *)
(* properties.  All processes of a distributed group draw THE SAME master   *)
(* sequence of dataset indices (same seed, same epoch) and rank r keeps     *)
(* positions r, r + R, r + 2R, ...  The draw itself is nondeterministic in  *)
(* the specification: any sequence of indices with positive weight, without *)
(* repetition when replacement is off.  Design-level invariants are checked *)
(* by TLC over every possible draw of a small instance; recorded runs of    *)
(* the real sampler over many configurations are validated against the same *)
(* definitions by Trace_Sampler (code -> spec).                             *)
(***************************************************************************)
EXTENDS Integers, Sequences, FiniteSets, TLC

CeilDiv(a, b) == (a + b - 1) \div b
\* samples per rank
PerRank(num, R, dropLast) == IF dropLast /\ num % R # 0 THEN CeilDiv(num - R, R) ELSE CeilDiv(num, R)
Total(num, R, dropLast) == PerRank(num, R, dropLast) * R
\* the constructor refuses a draw without replacement that needs more indices than there are
Accepts(nIdx, num, R, dropLast, repl) == repl \/ Total(num, R, dropLast) <= nIdx
\* slice of rank r (0-based) of the master sequence
Slice(master, r, R) == [k \in 1..(Len(master) \div R) |-> master[(k - 1) * R + r + 1]]
Distinct(s) == \A i, j \in 1..Len(s) : i # j => s[i] # s[j]
\* a legal master sequence
LegalDraw(master, weights, total, repl) ==
    /\ Len(master) = total
    /\ \A k \in 1..total : master[k] \in 1..Len(weights) /\ weights[master[k]] > 0
    /\ (~repl => Distinct(master))

CONSTANTS Weights, Num, R, DropLast, Repl
VARIABLES master, got       \* got[r] = what rank r (1-based here) iterates
vars == <<master, got>>
Init == master = <<>> /\ got = [r \in 1..R |-> <<>>]
Draw == /\ master = <<>> /\ Accepts(Len(Weights), Num, R, DropLast, Repl)
        /\ \E m \in [1..Total(Num, R, DropLast) -> 1..Len(Weights)] :
              /\ LegalDraw(m, Weights, Total(Num, R, DropLast), Repl)
              /\ master' = m
              /\ got' = [r \in 1..R |-> Slice(m, r - 1, R)]
Spec == Init /\ [][Draw]_vars

\* ---- design-level properties
EveryRankSameCount == master # <<>> => \A r \in 1..R : Len(got[r]) = PerRank(Num, R, DropLast)
NothingLostOrDuplicated ==      \* the ranks' positions partition the master sequence
    master # <<>> => \A k \in 1..Len(master) : got[((k - 1) % R) + 1][((k - 1) \div R) + 1] = master[k]
ExclusiveWithoutReplacement ==  \* "a subset of the dataset that is exclusive to it"
    (master # <<>> /\ ~Repl) => \A r1, r2 \in 1..R : \A i \in 1..Len(got[r1]), j \in 1..Len(got[r2]) :
                                    (r1 # r2 \/ i # j) => got[r1][i] # got[r2][j]
NeverZeroWeight == master # <<>> => \A r \in 1..R : \A i \in 1..Len(got[r]) : Weights[got[r][i]] > 0
\* drop_last never draws more than asked for, padding never fewer; the difference is below one round
SizeRule == /\ (DropLast => Total(Num, R, TRUE) <= Num /\ Num - Total(Num, R, TRUE) < R)
            /\ (~DropLast => Total(Num, R, FALSE) >= Num /\ Total(Num, R, FALSE) - Num < R)
=============================================================================
