--------------------------- MODULE MC_FileStore ---------------------------
(* Lattices for FileStore.tla: oriented anisotropic grids in 2-D and 3-D. *)
EXTENDS FileStore

G2(n, R0, ac) == [n |-> n, h |-> <<R(1,2), R(5,4)>>, c |-> <<RI(-3), R(7,4)>>, R |-> R0, ac |-> ac]
G3(n, R0, ac) == [n |-> n, h |-> <<R(1,2), R(5,4), Two>>, c |-> <<R(1,2), RI(-3), R(7,4)>>, R |-> R0, ac |-> ac]
Rots2 == {Rot2Of(CS_Id), Rot2Of(CS_90), Rot2Of(CS_3_5), FlipX(Rot2Of(CS_5_13))}
Rots3 == {QuatMat(<<1,0,0,0>>), QuatMat(<<1,1,1,1>>), QuatMat(<<1,2,2,4>>), FlipX(QuatMat(<<2,3,6,0>>))}
FormatGrids == {G2(n, M, ac) : n \in {<<5, 4>>, <<1, 3>>}, M \in Rots2, ac \in BOOLEAN}
          \cup {G3(n, M, ac) : n \in {<<5, 4, 3>>, <<4, 1, 2>>}, M \in Rots3, ac \in BOOLEAN}
          \cup {G3(<<5, 4, 1>>, M, TRUE) : M \in {QuatMat(<<1,0,0,0>>), QuatMat(<<1,2,2,4>>)}}      \* a single-slice volume stays 3-D
ChainGrids == {G2(<<5, 4>>, M, ac) : M \in {Rot2Of(CS_90), FlipX(Rot2Of(CS_5_13))}, ac \in BOOLEAN}
         \cup {G3(<<5, 4, 3>>, QuatMat(<<1,2,2,4>>), TRUE), G3(<<4, 1, 2>>, FlipX(QuatMat(<<2,3,6,0>>)), FALSE)}
SmallChainGrids == {G2(<<5, 4>>, FlipX(Rot2Of(CS_5_13)), TRUE), G3(<<5, 4, 3>>, QuatMat(<<1,2,2,4>>), FALSE)}
AllFormats == {"mha", "mhd", "nii", "niigz", "nrrd"}
Chans123 == {1, 2, 3}
=============================================================================
