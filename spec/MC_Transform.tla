---------------------------- MODULE MC_Transform ----------------------------
EXTENDS Transform

P(k) == [k |-> k]
Tr(t)        == [k |-> "translation", t |-> t]
Sc(s)        == [k |-> "scaling", s |-> s]
Iso(s)       == [k |-> "isoscaling", s |-> <<s>>]
Sh(tn)       == [k |-> "shearing", tn |-> tn]
Ro(o, cs)    == [k |-> "rotation", order |-> o, cs |-> cs]
Qu(q)        == [k |-> "quaternion", q |-> q]
Ho(A, t)     == [k |-> "homogeneous", A |-> A, t |-> t]
Dd(A, t)     == [k |-> "ddf", A |-> A, t |-> t]
Mo(n, parts) == [name |-> n, parts |-> parts]
ZXZ == <<"Z", "X", "Z">>
Z2  == <<"Z">>

T2 == {<<R(1,4), R(-1,2)>>, <<R(-3,10), R(1,5)>>}
T3 == {<<R(1,4), R(-1,2), R(1,5)>>}
S2 == {<<R(3,2), R(1,2)>>, <<R(4,5), R(5,4)>>}
S3 == {<<R(3,2), R(1,2), R(5,4)>>}
A2 == {<<CS_3_5>>, <<CS_12_13n>>, <<CS_4_5n>>}
A3 == {<<CS_3_5, CS_4_5n, CS_90>>, <<CS_4_5n, CS_3_5, CS_3_5>>}
K2 == {<<R(1,2)>>, <<R(-3,4)>>}
K3 == {<<R(1,2), R(-3,4), R(1,4)>>}
Q3 == {<<R(1,5), R(2,5), R(2,5), R(4,5)>>, <<R(1,2), R(1,2), R(1,2), R(-1,2)>>}
H2 == {<< << <<R(3,2), R(-1,2)>>, <<R(1,4), RI(1)>> >>, <<R(1,5), R(-1,10)>> >>}
DD2 == {<< << <<R(9,8), R(1,8)>>, <<R(-1,4), R(7,8)>> >>, <<R(1,8), R(-1,16)>> >>,
        << << <<R(7,8), Zero>>, <<R(1,8), R(17,16)>> >>, <<R(-1,16), R(1,8)>> >>}
DD3 == {<< << <<R(9,8), R(1,8), Zero>>, <<R(-1,4), R(7,8), R(1,8)>>, <<Zero, R(-1,8), One>> >>, <<R(1,8), R(-1,16), R(1,16)>> >>}
H3 == {<< << <<One, R(-1,2), Zero>>, <<R(1,4), R(3,2), R(1,5)>>, <<Zero, R(-1,5), R(4,5)>> >>, <<R(1,5), R(-1,10), R(1,4)>> >>}

QModels(D) ==
    IF D = 2 THEN
        {Mo("Translation", <<Tr(t)>>) : t \in T2} \cup {Mo("EulerRotation", <<Ro(Z2, a)>>) : a \in A2}
        \cup {Mo("IsotropicScaling", <<Iso(R(3,2))>>), Mo("IsotropicScaling", <<Iso(R(4,5))>>)}
        \cup {Mo("AnisotropicScaling", <<Sc(s)>>) : s \in S2} \cup {Mo("Shearing", <<Sh(k)>>) : k \in K2}
        \cup {Mo("HomogeneousTransform", <<Ho(h[1], h[2])>>) : h \in H2}
        \cup {Mo("RigidTransform", <<Ro(Z2, a), Tr(t)>>) : a \in A2, t \in T2}
        \cup {Mo("SimilarityTransform", <<Iso(R(3,2)), Ro(Z2, a), Tr(t)>>) : a \in {<<CS_3_5>>}, t \in T2}
        \cup {Mo("AffineTransform", <<Sc(s), Ro(Z2, a), Tr(t)>>) : s \in S2, a \in {<<CS_12_13n>>}, t \in {<<R(1,4), R(-1,2)>>}}
        \cup {Mo("FullAffineTransform", <<Sc(s), Sh(k), Ro(Z2, a), Tr(t)>>) : s \in {<<R(3,2), R(1,2)>>}, k \in K2, a \in {<<CS_4_5n>>}, t \in {<<R(-3,10), R(1,5)>>}}
        \cup {Mo("Generic:TRS", <<Sc(s), Ro(Z2, a), Tr(t)>>) : s \in {<<R(4,5), R(5,4)>>}, a \in {<<CS_3_5>>}, t \in {<<R(1,4), R(-1,2)>>}}
        \cup {Mo("Generic:KSR", <<Ro(Z2, <<CS_3_5>>), Sc(<<R(3,2), R(1,2)>>), Sh(<<R(1,2)>>)>>)}
        \cup {Mo("Sequential:T,R,T", <<Tr(<<R(1,4), R(-1,2)>>), Ro(Z2, <<CS_3_5>>), Tr(<<R(-3,10), R(1,5)>>)>>)}
        \* non-rigid members (affine displacement fields) before and after linear ones
        \cup {Mo("DisplacementFieldTransform", <<Dd(dd[1], dd[2])>>) : dd \in DD2}
        \cup {Mo("Sequential:T,DDF", <<Tr(<<R(1,8), R(-1,4)>>), Dd(dd[1], dd[2])>>) : dd \in DD2}
        \cup {Mo("Sequential:DDF,R", <<Dd(dd[1], dd[2]), Ro(Z2, <<CS_12_13n>>)>>) : dd \in DD2}
        \cup {Mo("Sequential:S,DDF,T", <<Sc(<<R(3,4), R(7,8)>>), Dd(dd[1], dd[2]), Tr(<<R(1,8), R(1,8)>>)>>) : dd \in DD2}
    ELSE
        {Mo("Translation", <<Tr(t)>>) : t \in T3} \cup {Mo("EulerRotation", <<Ro(ZXZ, a)>>) : a \in A3}
        \cup {Mo("EulerRotation:XYZ", <<Ro(<<"X", "Y", "Z">>, a)>>) : a \in A3}
        \cup {Mo("QuaternionRotation", <<Qu(q)>>) : q \in Q3}
        \cup {Mo("IsotropicScaling", <<Iso(R(3,2))>>)}
        \cup {Mo("AnisotropicScaling", <<Sc(s)>>) : s \in S3} \cup {Mo("Shearing", <<Sh(k)>>) : k \in K3}
        \cup {Mo("HomogeneousTransform", <<Ho(h[1], h[2])>>) : h \in H3}
        \cup {Mo("RigidTransform", <<Ro(ZXZ, a), Tr(t)>>) : a \in A3, t \in T3}
        \cup {Mo("RigidQuaternionTransform", <<Qu(q), Tr(t)>>) : q \in Q3, t \in T3}
        \cup {Mo("SimilarityTransform", <<Iso(R(4,5)), Ro(ZXZ, a), Tr(t)>>) : a \in A3, t \in T3}
        \cup {Mo("AffineTransform", <<Sc(s), Ro(ZXZ, a), Tr(t)>>) : s \in S3, a \in A3, t \in T3}
        \cup {Mo("FullAffineTransform", <<Sc(s), Sh(k), Ro(ZXZ, a), Tr(t)>>) : s \in S3, k \in K3, a \in A3, t \in T3}
        \cup {Mo("Generic:TQS", <<Sc(s), Qu(q), Tr(t)>>) : s \in S3, q \in Q3, t \in T3}
        \cup {Mo("Generic:A", <<Ho(h[1], h[2])>>) : h \in H3}
        \cup {Mo("DisplacementFieldTransform", <<Dd(dd[1], dd[2])>>) : dd \in DD3}
        \cup {Mo("Sequential:T,DDF", <<Tr(<<R(1,8), R(-1,4), R(1,16)>>), Dd(dd[1], dd[2])>>) : dd \in DD3}

GG(n, h, c, RR, ac) == [n |-> n, h |-> h, c |-> c, R |-> RR, ac |-> ac]
QGridsOf(D) ==
    IF D = 2 THEN {GG(<<7, 5>>, <<One, R(3,2)>>, <<RI(2), RI(-1)>>, Rot2Of(CS_3_5), TRUE),
                   GG(<<6, 9>>, <<R(1,2), One>>, <<Zero, Zero>>, Rot2Of(CS_Id), FALSE)}
    ELSE {GG(<<5, 4, 6>>, <<One, R(3,2), R(1,2)>>, <<RI(2), RI(-1), One>>, QuatMat(<<2,1,0,0>>), TRUE)}
QOthers(D) ==
    IF D = 2 THEN {GG(<<5, 8>>, <<R(3,2), R(1,2)>>, <<One, R(1,2)>>, Rot2Of(CS_12_13n), FALSE)}
    ELSE {GG(<<4, 6, 5>>, <<R(1,2), One, R(5,4)>>, <<Zero, One, RI(-1)>>, QuatMat(<<1,1,1,1>>), FALSE)}
\* ---------------------------------------------------------------- thorough lattice: more transform grids and more other grids
TGridsOf(D) == QGridsOf(D) \cup
    (IF D = 2 THEN {GG(<<4, 6>>, <<Two, R(1,2)>>, <<RI(-1), R(1,2)>>, FlipX(Rot2Of(CS_90)), FALSE),
                    GG(<<8, 3>>, <<R(1,2), Two>>, <<One, One>>, Rot2Of(CS_180), TRUE)}
     ELSE {GG(<<4, 5, 3>>, <<Two, One, R(1,2)>>, <<Zero, R(1,2), RI(-1)>>, FlipX(QuatMat(<<1,1,1,1>>)), FALSE)})
TOthers(D) == QOthers(D) \cup
    (IF D = 2 THEN {GG(<<6, 4>>, <<One, One>>, <<R(1,2), Zero>>, Rot2Of(CS_Id), TRUE)}
     ELSE {GG(<<3, 4, 4>>, <<Two, One, One>>, <<One, Zero, Zero>>, QuatMat(<<1,0,0,0>>), TRUE)})
=============================================================================
