----------------------------- MODULE NetShapes -----------------------------
(***************************************************************************)
(* Output size of a SEQUENCE of layers (networks/utils.py:                   *)
(* module_output_size on nn.Sequential) - beyond the listed properties.     *)
(* A layer is a record; the size after a network is the fold of the         *)
(* counting definitions of ConvShapes over its layers.  Laws: an encoder     *)
(* step (stride-2 convolution with "same"-style padding) followed by the     *)
(* matching transposed convolution restores even sizes; layers that keep     *)
(* the size compose to the identity.                                        *)
(***************************************************************************)
EXTENDS ConvShapes, Sequences

Conv(k, s, d, p)      == [t |-> "conv", k |-> k, s |-> s, d |-> d, p |-> p, o |-> 0, c |-> FALSE]
ConvT(k, s, d, p, o)  == [t |-> "convt", k |-> k, s |-> s, d |-> d, p |-> p, o |-> o, c |-> FALSE]
Pool(k, s, p, c)      == [t |-> "pool", k |-> k, s |-> s, d |-> 1, p |-> p, o |-> 0, c |-> c]
PadL(lo, hi)          == [t |-> "pad", k |-> lo, s |-> hi, d |-> 1, p |-> 0, o |-> 0, c |-> FALSE]
Up(f)                 == [t |-> "up", k |-> f, s |-> 1, d |-> 1, p |-> 0, o |-> 0, c |-> FALSE]

LayerOut(L, m) ==
    CASE L.t = "conv"  -> ConvOut(m, L.k, L.s, L.d, L.p)
      [] L.t = "convt" -> ConvTOut(m, L.k, L.s, L.d, L.p, L.o)
      [] L.t = "pool"  -> PoolOut(m, L.k, L.s, L.d, L.p, L.c)
      [] L.t = "pad"   -> PadOut(m, L.k, L.s)
      [] L.t = "up"    -> m * L.k
\* a layer can be applied to m samples (torch refuses an input smaller than the dilated kernel)
LayerOK(L, m) ==
    CASE L.t \in {"conv", "pool"} -> m + 2 * L.p >= Span(L.k, L.d) /\ (L.t = "pool" => 2 * L.p <= L.k)
      [] L.t = "convt" -> m >= 1 /\ ConvTOut(m, L.k, L.s, L.d, L.p, L.o) >= 1 /\ L.o < IF L.s > L.d THEN L.s ELSE L.d
      [] OTHER -> m >= 1
RECURSIVE NetOut(_, _)
NetOut(net, m) == IF net = <<>> THEN m ELSE NetOut(Tail(net), LayerOut(Head(net), m))
RECURSIVE NetOK(_, _)
NetOK(net, m) == IF net = <<>> THEN TRUE ELSE LayerOK(Head(net), m) /\ LayerOut(Head(net), m) >= 1 /\ NetOK(Tail(net), LayerOut(Head(net), m))

CONSTANTS Layers, MaxLayers, InSizes, EmitNets
VARIABLES nst, nca
nvars == <<nst, nca, st, ca>>
NInit == nst = 0 /\ nca = [net |-> <<>>, m |-> 0] /\ Init
Seqs == UNION {[1..n -> Layers] : n \in 1..MaxLayers}
NPick == nst = 0 /\ \E net \in Seqs, m \in InSizes : NetOK(net, m) /\ nca' = [net |-> net, m |-> m] /\ nst' = 1 /\ UNCHANGED <<st, ca>>
NSpec == NInit /\ [][NPick]_nvars

NLaws == nst = 1 =>
    LET net == nca.net  m == nca.m IN
    /\ NetOut(net, m) >= 1
    \* folding is associative: splitting a network anywhere gives the same size
    /\ \A i \in 0..Len(net) : NetOut(SubSeq(net, i + 1, Len(net)), NetOut(SubSeq(net, 1, i), m)) = NetOut(net, m)
    \* encoder / decoder pair: stride-2 convolution with kernel 3, padding 1, then transposed convolution (k 3, s 2, p 1, output padding 1) restores EVEN sizes
    /\ (m % 2 = 0) => NetOut(<<Conv(3, 2, 1, 1), ConvT(3, 2, 1, 1, 1)>>, m) = m
    /\ (m % 2 = 0) => NetOut(<<Pool(2, 2, 0, FALSE), Up(2)>>, m) = m
NEmit == (EmitNets /\ nst = 1) => PrintT(ToJson([net |-> nca.net, m |-> nca.m, out |-> NetOut(nca.net, nca.m),
                                                  sizes |-> [i \in 1..Len(nca.net) |-> NetOut(SubSeq(nca.net, 1, i), nca.m)]]))
=============================================================================
