----------------------------- MODULE MC_Grid -----------------------------
(* Model-checking instances (lattices) for Grid.tla.                       *)
EXTENDS Grid

V2(a, b)    == <<a, b>>
V3(a, b, c) == <<a, b, c>>

\* ---------------------------------------------------------------- quick
QRotsOf(D) ==
    IF D = 2 THEN {Rot2Of(CS_Id), Rot2Of(CS_90), Rot2Of(CS_3_5), Rot2Of(CS_12_13n), FlipX(Rot2Of(CS_5_13))}
    ELSE {QuatMat(<<1,0,0,0>>), QuatMat(<<1,1,1,1>>), QuatMat(<<1,2,2,4>>), FlipX(QuatMat(<<2,3,6,0>>))}
QSizesOf(D) ==
    IF D = 2 THEN {<<2, 3>>, <<7, 4>>} ELSE {<<2, 3, 5>>, <<4, 7, 3>>}
QSpacingsOf(D) ==
    IF D = 2 THEN {<<One, One>>, <<R(3,2), R(1,2)>>} ELSE {<<One, R(5,4), R(1,2)>>}
QCentersOf(D) ==
    IF D = 2 THEN {<<Zero, Zero>>, <<RI(-3), R(7,4)>>} ELSE {<<R(1,2), RI(-3), R(7,4)>>}
QOthersOf(D) ==
    IF D = 2 THEN {[n |-> <<5, 3>>, h |-> <<R(1,2), Two>>, c |-> <<One, R(-1,2)>>, R |-> Rot2Of(CS_4_5n), ac |-> FALSE]}
    ELSE {[n |-> <<3, 5, 2>>, h |-> <<Two, R(1,2), One>>, c |-> <<One, R(-1,2), Two>>, R |-> QuatMat(<<4,-2,1,2>>), ac |-> TRUE]}
ProbesDef(D) ==
    IF D = 2 THEN << <<Zero, Zero>>, <<One, Zero>>, <<Zero, One>>, <<R(-3,2), R(5,2)>> >>
    ELSE << <<Zero, Zero, Zero>>, <<One, Zero, Zero>>, <<Zero, One, Zero>>, <<Zero, Zero, One>>, <<R(-3,2), R(5,2), R(1,4)>> >>
AllPairs == AxesSet \X AxesSet

\* ---------------------------------------------------------------- ITK (C02): sizes incl. 1, more origins, outside probes
ISizesOf(D) == IF D = 2 THEN {<<2, 3>>, <<7, 4>>, <<1, 5>>, <<6, 1>>} ELSE {<<2, 3, 5>>, <<4, 1, 3>>, <<1, 1, 6>>}
ProbesItk(D) ==
    IF D = 2 THEN << <<Zero, Zero>>, <<One, Zero>>, <<Zero, One>>, <<R(-3,2), R(5,2)>>, <<RI(12), RI(-7)>>, <<R(7,4), R(1,2)>> >>
    ELSE << <<Zero, Zero, Zero>>, <<One, Zero, Zero>>, <<Zero, One, Zero>>, <<Zero, Zero, One>>, <<R(-3,2), R(5,2), R(1,4)>>, <<RI(9), RI(-4), RI(11)>> >>
NoPairs == {}
QIRotsOf(D) == QRotsOf(D) \cup (IF D = 2 THEN {Rot2Of(CS_180), FlipX(Rot2Of(CS_90))} ELSE {QuatMat(<<1,1,0,0>>), QuatMat(<<0,1,1,0>>)})

\* ------------------------------------------------------------- thorough
TRotsOf(D) ==
    IF D = 2 THEN {Rot2Of(cs) : cs \in CSAll} \cup {FlipX(Rot2Of(cs)) : cs \in {CS_Id, CS_90, CS_5_13, CS_8_17}}
    ELSE Rot3Perm \cup Rot3Generic \cup {FlipX(QuatMat(qq)) : qq \in {<<1,0,0,0>>, <<2,3,6,0>>, <<1,1,0,0>>}}
TSizesOf(D) ==
    IF D = 2 THEN {<<2, 3>>, <<7, 4>>, <<8, 8>>, <<3, 2>>}
    ELSE {<<2, 3, 5>>, <<4, 7, 3>>, <<8, 2, 4>>}
TSpacingsOf(D) ==
    IF D = 2 THEN {<<One, One>>, <<R(3,2), R(1,2)>>, <<R(5,4), One>>}
    ELSE {<<One, One, One>>, <<One, R(5,4), R(1,2)>>, <<R(3,2), R(1,2), Two>>}
TCentersOf(D) ==
    IF D = 2 THEN {<<Zero, Zero>>, <<RI(-3), R(7,4)>>, <<R(1,2), RI(10)>>}
    ELSE {<<Zero, Zero, Zero>>, <<R(1,2), RI(-3), R(7,4)>>}
TOthersOf(D) ==
    IF D = 2 THEN {[n |-> <<5, 3>>, h |-> <<R(1,2), Two>>, c |-> <<One, R(-1,2)>>, R |-> Rot2Of(CS_4_5n), ac |-> FALSE],
                   [n |-> <<4, 6>>, h |-> <<One, One>>, c |-> <<Zero, Zero>>, R |-> Rot2Of(CS_Id), ac |-> TRUE],
                   [n |-> <<2, 9>>, h |-> <<R(3,4), R(1,4)>>, c |-> <<RI(-2), RI(5)>>, R |-> FlipX(Rot2Of(CS_7_25)), ac |-> TRUE]}
    ELSE {[n |-> <<3, 5, 2>>, h |-> <<Two, R(1,2), One>>, c |-> <<One, R(-1,2), Two>>, R |-> QuatMat(<<4,-2,1,2>>), ac |-> TRUE],
          [n |-> <<4, 4, 6>>, h |-> <<One, One, R(3,2)>>, c |-> <<Zero, Zero, One>>, R |-> QuatMat(<<1,1,0,0>>), ac |-> FALSE]}
TISpacingsOf(D) == TSpacingsOf(D) \cup (IF D = 2 THEN {<<R(1,4), RI(3)>>} ELSE {<<R(1,4), RI(3), R(7,10)>>})
=============================================================================
