------------------------------- MODULE MC_Flow -------------------------------
EXTENDS Flow
F_(A, t) == Aff(A, t)
QShapes == {<<5, 4>>, <<6, 6>>, <<4, 5, 3>>}
\* affine velocity / displacement fields; contractions (negative dominant diagonal) keep the hull invariant
QFields(D) ==
    IF D = 2 THEN
        {F_(<< <<R(-1,2), R(1,8)>>, <<R(-1,8), R(-1,4)>> >>, <<R(1,16), R(-1,8)>>),
         F_(<< <<R(-1,4), Zero>>, <<R(1,8), R(-3,8)>> >>, <<Zero, R(1,16)>>),
         F_(<< <<R(-3,8), Zero>>, <<Zero, R(-1,8)>> >>, <<Zero, Zero>>),
         F_(<< <<Zero, Zero>>, <<Zero, Zero>> >>, <<R(1,16), R(-1,16)>>),
         F_(<< <<Zero, Zero>>, <<Zero, Zero>> >>, <<R(-1,8), Zero>>)}
    ELSE
        {F_(<< <<R(-1,2), R(1,8), Zero>>, <<R(-1,8), R(-1,4), R(1,16)>>, <<Zero, R(1,8), R(-3,8)>> >>, <<R(1,16), R(-1,8), Zero>>),
         F_(<< <<R(-1,4), Zero, Zero>>, <<Zero, R(-1,4), Zero>>, <<Zero, Zero, R(-1,8)>> >>, <<Zero, R(1,16), R(-1,16)>>),
         F_(<< <<Zero, Zero, Zero>>, <<Zero, Zero, Zero>>, <<Zero, Zero, Zero>> >>, <<R(1,16), Zero, R(-1,16)>>)}
QScales == {One, Half}
QSteps == {0, 1, 2}
QTerms == 0..5
GG(n, h, c, RR, ac) == [n |-> n, h |-> h, c |-> c, R |-> RR, ac |-> ac]
QRepGrids(D) ==
    IF D = 2 THEN {GG(<<5, 4>>, <<One, R(3,2)>>, <<RI(2), RI(-1)>>, Rot2Of(CS_3_5), TRUE),
                   GG(<<5, 4>>, <<One, R(3,2)>>, <<RI(2), RI(-1)>>, Rot2Of(CS_3_5), FALSE),
                   GG(<<6, 3>>, <<R(1,2), Two>>, <<One, Zero>>, Rot2Of(CS_12_13n), FALSE)}
    ELSE {GG(<<4, 5, 3>>, <<One, R(3,2), R(1,2)>>, <<RI(2), RI(-1), One>>, QuatMat(<<2,1,0,0>>), TRUE),
          GG(<<3, 4, 4>>, <<Two, One, R(1,2)>>, <<R(3,2), RI(-1), One>>, QuatMat(<<1,1,1,1>>), FALSE)}
QWorldVecs(D) == IF D = 2 THEN {<<R(3,4), R(-1,2)>>} ELSE {<<R(3,4), R(-1,2), R(1,4)>>}
\* ---------------------------------------------------------------- thorough lattice (denominators stay dyadic and small: 32-bit rationals)
TShapes == QShapes \cup {<<7, 5>>, <<4, 8>>, <<5, 4, 6>>}
TFields(D) == QFields(D) \cup
    (IF D = 2 THEN
        {F_(<< <<R(-1,4), R(-1,8)>>, <<R(1,8), R(-1,2)>> >>, <<R(-1,16), Zero>>),
         F_(<< <<R(-1,8), Zero>>, <<Zero, R(-1,8)>> >>, <<R(1,8), R(1,16)>>),
         F_(<< <<R(-1,2), Zero>>, <<R(1,4), R(-1,2)>> >>, <<Zero, Zero>>)}
     ELSE
        {F_(<< <<R(-1,4), R(1,8), Zero>>, <<Zero, R(-1,2), Zero>>, <<R(1,8), Zero, R(-1,4)>> >>, <<Zero, Zero, R(1,16)>>),
         F_(<< <<R(-1,8), Zero, Zero>>, <<Zero, R(-3,8), Zero>>, <<Zero, Zero, R(-1,2)>> >>, <<R(-1,16), R(1,16), Zero>>)})
TRepGrids(D) == QRepGrids(D) \cup
    (IF D = 2 THEN {GG(<<4, 7>>, <<R(3,4), R(5,4)>>, <<RI(2), R(-1,2)>>, FlipX(Rot2Of(CS_5_13)), TRUE),
                    GG(<<8, 3>>, <<R(1,2), Two>>, <<R(3,2), RI(-1)>>, Rot2Of(CS_90), TRUE)}
     ELSE {GG(<<5, 3, 4>>, <<R(1,2), R(3,4), One>>, <<RI(2), RI(-1), R(1,2)>>, FlipX(QuatMat(<<2,3,6,0>>)), TRUE)})
TWorldVecs(D) == QWorldVecs(D) \cup (IF D = 2 THEN {<<RI(-1), R(1,4)>>} ELSE {<<R(-1,2), One, R(-3,4)>>})
=============================================================================
