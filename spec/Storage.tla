------------------------------ MODULE Storage ------------------------------
(***************************************************************************)
(* Local storage objects and path helpers (core/storage.py, core/pathlib.py)*)
(* - beyond the listed properties.  The file system below one root is a     *)
(* function from paths (sequences of names) to nodes; every public          *)
(* operation is an action with a defined outcome: the new tree and either   *)
(* a returned value or the class of the exception.  Invariants: the tree    *)
(* stays well formed (every existing node has directories as ancestors);    *)
(* what was written is what is read until the next write/removal; removal   *)
(* removes the whole subtree and nothing else.  TLC enumerates every        *)
(* history up to the bound; each is replayed in a scratch directory and     *)
(* the complete tree and the outcome compared after every step.             *)
(***************************************************************************)
EXTENDS Integers, Sequences, FiniteSets, TLC, Json

CONSTANTS Names, MaxDepth, Datas, MaxLen, EmitCases
Paths == UNION {[1..d -> Names] : d \in 1..MaxDepth}        \* non-empty paths below the root
Parent(p) == SubSeq(p, 1, Len(p) - 1)
IsPrefix(q, p) == Len(q) <= Len(p) /\ SubSeq(p, 1, Len(q)) = q
Absent == "absent"
Dir == "dir"
IsFile(v) == v \notin {Absent, Dir}

VARIABLES fs,      \* [Paths -> Absent | Dir | data]
          hist     \* sequence of [op, p, arg, out]
vars == <<fs, hist>>

NodeAt(f, p) == IF p = <<>> THEN Dir ELSE f[p]
WellFormed(f) == \A p \in Paths : f[p] # Absent => NodeAt(f, Parent(p)) = Dir
Init == fs = [p \in Paths |-> Absent] /\ hist = <<>>
Room == Len(hist) < MaxLen
Log(op, p, arg, out) == hist' = Append(hist, [op |-> op, p |-> p, arg |-> arg, out |-> out])

\* some proper ancestor is a regular file: the path cannot be resolved (NotADirectoryError)
Blocked(f, p) == \E k \in 1..(Len(p) - 1) : IsFile(f[SubSeq(p, 1, k)])
WithParents(f, p) == [q \in Paths |-> IF IsPrefix(q, p) /\ q # p THEN Dir ELSE f[q]]
Without(f, p) == [q \in Paths |-> IF IsPrefix(p, q) THEN Absent ELSE f[q]]

\* obj.write_bytes(data): unlink an existing file first, otherwise create the parents; a directory cannot be overwritten
WriteBytes(p, d) ==
    /\ Room
    /\ IF Blocked(fs, p) THEN fs' = fs /\ Log("write_bytes", p, d, "NotADirectoryError")
       ELSE IF fs[p] = Dir THEN fs' = fs /\ Log("write_bytes", p, d, "IsADirectoryError")
       ELSE fs' = [WithParents(fs, p) EXCEPT ![p] = d] /\ Log("write_bytes", p, d, "ok")
ReadBytes(p) ==
    /\ Room /\ fs' = fs
    /\ Log("read_bytes", p, "", IF Blocked(fs, p) THEN "NotADirectoryError" ELSE IF fs[p] = Absent THEN "FileNotFoundError"
                                ELSE IF fs[p] = Dir THEN "IsADirectoryError" ELSE fs[p])
\* obj.unlink(): a missing file is fine
Unlink(p) ==
    /\ Room
    /\ IF Blocked(fs, p) THEN fs' = fs /\ Log("unlink", p, "", "NotADirectoryError")
       ELSE IF fs[p] = Dir THEN fs' = fs /\ Log("unlink", p, "", "IsADirectoryError")
       ELSE fs' = [fs EXCEPT ![p] = Absent] /\ Log("unlink", p, "", "ok")
\* obj.rmdir(): remove the directory tree; missing is fine; a file is not a directory
Rmdir(p) ==
    /\ Room
    /\ IF Blocked(fs, p) \/ IsFile(fs[p]) THEN fs' = fs /\ Log("rmdir", p, "", "NotADirectoryError")
       ELSE fs' = Without(fs, p) /\ Log("rmdir", p, "", "ok")
\* obj.delete() and pathlib.delete(path): whatever is there is gone afterwards
Delete(p, viaPathlib) ==
    /\ Room
    \* a path below a regular file cannot be resolved: both forms pass the error on (they only swallow FileNotFoundError)
    /\ IF Blocked(fs, p) THEN fs' = fs /\ Log(IF viaPathlib THEN "pathlib.delete" ELSE "delete", p, "", "NotADirectoryError")
       ELSE /\ fs' = Without(fs, p)
            /\ Log(IF viaPathlib THEN "pathlib.delete" ELSE "delete", p, "", IF viaPathlib THEN (IF fs[p] = Absent THEN "False" ELSE "True") ELSE "ok")
\* pathlib.delete(path, non_empty=False): a non-empty directory stays
DeleteEmpty(p) ==
    /\ Room
    /\ LET nonempty == fs[p] = Dir /\ \E q \in Paths : q # p /\ IsPrefix(p, q) /\ fs[q] # Absent IN
       IF Blocked(fs, p) THEN fs' = fs /\ Log("pathlib.delete_empty", p, "", "NotADirectoryError")
       ELSE IF nonempty \/ fs[p] = Absent THEN fs' = fs /\ Log("pathlib.delete_empty", p, "", "False")
       ELSE fs' = [fs EXCEPT ![p] = Absent] /\ Log("pathlib.delete_empty", p, "", "True")
\* unlink_or_mkdir(path): afterwards the path is free and its parent exists
UnlinkOrMkdir(p) ==
    /\ Room
    /\ IF Blocked(fs, p) THEN fs' = fs /\ Log("unlink_or_mkdir", p, "", "NotADirectoryError")
       ELSE IF fs[p] = Dir THEN fs' = fs /\ Log("unlink_or_mkdir", p, "", "IsADirectoryError")
       ELSE fs' = [WithParents(fs, p) EXCEPT ![p] = Absent] /\ Log("unlink_or_mkdir", p, "", "ok")
\* observers
Observe(p) ==
    /\ Room /\ fs' = fs
    /\ Log("stat", p, "", IF Blocked(fs, p) \/ fs[p] = Absent THEN "absent" ELSE IF fs[p] = Dir THEN "dir" ELSE "file")
Next == \E p \in Paths : \/ \E d \in Datas : WriteBytes(p, d)
                         \/ ReadBytes(p) \/ Unlink(p) \/ Rmdir(p) \/ Delete(p, TRUE) \/ Delete(p, FALSE)
                         \/ DeleteEmpty(p) \/ UnlinkOrMkdir(p) \/ Observe(p)
Spec == Init /\ [][Next]_vars

TypeOK == fs \in [Paths -> {Absent, Dir} \cup Datas]
FSInv == WellFormed(fs)
\* the last successful write to a path is what a read returns, as long as no later step changed that path
ReadYourWrite ==
    \A k \in 1..Len(hist) :
        (hist[k].op = "read_bytes" /\ hist[k].out \in Datas) =>
            \E j \in 1..(k - 1) : /\ hist[j].op = "write_bytes" /\ hist[j].p = hist[k].p /\ hist[j].out = "ok" /\ hist[j].arg = hist[k].out
                                  /\ \A l \in (j + 1)..(k - 1) : ~(hist[l].op = "write_bytes" /\ hist[l].p = hist[k].p /\ hist[l].out = "ok")
\* a step changes only the subtree / ancestors of its own path
Frame == [][\A q \in Paths : (hist' # hist /\ ~IsPrefix(q, hist'[Len(hist')].p) /\ ~IsPrefix(hist'[Len(hist')].p, q)) => fs'[q] = fs[q]]_vars

TreeJson(f) == [p \in {q \in Paths : f[q] # Absent} |-> f[p]]
Emit == (EmitCases /\ Len(hist) = MaxLen) =>
          PrintT(ToJson([hist |-> hist, final |-> {<<p, fs[p]>> : p \in {q \in Paths : fs[q] # Absent}}]))
=============================================================================
