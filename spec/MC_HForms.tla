----------------------------- MODULE MC_HForms -----------------------------
EXTENDS HForms
QMats(D) == IF D = 2 THEN {<< <<RI(3), R(-1,2)>>, <<One, RI(-2)>> >>, << <<Zero, RI(-1)>>, <<One, Zero>> >>}
            ELSE {<< <<One, RI(-2), Zero>>, <<R(1,2), RI(3), One>>, <<Zero, RI(-1), RI(-2)>> >>, << <<Zero, Zero, One>>, <<One, Zero, Zero>>, <<Zero, One, Zero>> >>}
QVecs(D) == IF D = 2 THEN {<<RI(3), R(-1,2)>>, <<RI(-2), One>>} ELSE {<<One, RI(-2), R(1,2)>>, <<RI(3), Zero, RI(-1)>>}
Probes(D) == IF D = 2 THEN << <<One, RI(-2)>>, <<R(1,2), RI(3)>> >> ELSE << <<One, RI(-2), RI(3)>>, <<R(-1,2), Zero, Two>> >>
=============================================================================
