--------------------------- MODULE TransformState ---------------------------
(***************************************************************************)
(* Buffered state of parametric non-rigid transforms (spatial/base.py,     *)
(* parametric.py, nonrigid.py, bspline.py): parameter holders (optimisable *)
(* parameter, fixed tensor, callable, link to another transform), shallow  *)
(* copies that share the parameter tensor, cached displacement buffers,    *)
(* grid changes, conditioning, inverse/link creation.  Histories of the    *)
(* public operations are enumerated; every observation (calling the        *)
(* transform, reading its dense displacement) must show the parameters,    *)
(* grid and conditioning the object holds AT THAT MOMENT.                  *)
(* Properties C09 (no stale snapshot) and C07 (inverse stays an inverse).  *)
(*                                                                         *)
(* Parameter CONTENT is abstracted to a version number; the harness maps   *)
(* version v to a constant world displacement v * delta, so the version an *)
(* observation used can be read off the real result.  An inverted          *)
(* velocity-field transform shows -v.                                      *)
(***************************************************************************)
EXTENDS Integers, Sequences, FiniteSets, TLC, Json

CONSTANTS MaxObj,      \* maximal number of objects alive
          MaxLen,      \* bound on history length (exhaustive mode)
          Kind,        \* "DDF" | "SVF" | "FFD" | "SVFFD"
          Holder0,     \* holder of the first object: "param" | "tensor" | "callable"
          Grids,       \* grid ids the kind can be moved to, first element = initial grid
          InitVer,     \* parameter version the first object starts with (0 = freshly constructed identity)
          EmitCases

VARIABLES alive, holder, target, cell, content, pbuf, pgrid, cond, grid, inv, bufU, nextver, nextcell, hist
vars == <<alive, holder, target, cell, content, pbuf, pgrid, cond, grid, inv, bufU, nextver, nextcell, hist>>

Obj   == 1..MaxObj
None  == -1000                       \* "no value" marker for versions
NoBuf == [ver |-> None, g |-> ""]
Unknown == 999                       \* a buffered displacement whose content the model does not track
Invertible == Kind \in {"SVF", "SVFFD"}
MaxCells == 12
MaxVer   == 9

\* ---------------------------------------------------------------- meaning
Sign(o) == IF inv[o] THEN -1 ELSE 1
\* the parameter version transform t currently HOLDS (what a linked transform sees)
\* The buffer p of a callable/linked transform is either a value (a prediction) or an ALIAS of a parameter tensor
\* (link_ registers the target's tensor object itself), through which later in-place edits are visible.
PNone == [k |-> "none", v |-> 0]
PVal_(v) == [k |-> "val", v |-> v]
PCell(c) == [k |-> "cell", v |-> c]
Deref(p) == IF p.k = "cell" THEN content[p.v] ELSE p.v
Held(t) == IF holder[t] \in {"param", "tensor"} THEN content[cell[t]] ELSE Deref(pbuf[t])
\* what a transform linking to t registers as its own p
HeldRef(t) == IF holder[t] \in {"param", "tensor"} THEN PCell(cell[t]) ELSE pbuf[t]
\* the parameter version o evaluates if it is updated now
PVal(o) == CASE holder[o] \in {"param", "tensor"} -> content[cell[o]]
             [] holder[o] = "callable"            -> cond[o]      \* the callable predicts F(cond) = cond
             [] holder[o] = "link"                -> Held(target[o])
Now(o) == [ver |-> Sign(o) * PVal(o), g |-> grid[o]]
Sharers(o) == {x \in alive \ {o} : holder[x] \in {"param", "tensor"} /\ holder[o] \in {"param", "tensor"} /\ cell[x] = cell[o]}

\* A link shares the RAW (grid-relative) parameters of its target, so a linked pair is only meaningful on one grid:
\* grid moves of a linked transform or of a link target are outside the model.
Linked(o) == holder[o] = "link" \/ \E x \in alive : holder[x] = "link" /\ target[x] = o

\* ---------------------------------------------------------------- initial state
Init ==
    /\ alive = {1}
    /\ holder = [o \in Obj |-> IF o = 1 THEN Holder0 ELSE "none"]
    /\ target = [o \in Obj |-> 0]
    /\ cell = [o \in Obj |-> IF o = 1 THEN 1 ELSE 0]
    /\ content = [c \in 1..MaxCells |-> IF c = 1 THEN InitVer ELSE 0]   \* version 0 = default parameters = identity
    /\ pbuf = [o \in Obj |-> IF o = 1 /\ Holder0 = "callable" THEN PVal_(0) ELSE PNone]
    /\ pgrid = [o \in Obj |-> Grids[1]]      \* the grid whose units the prediction buffer p is expressed in
    /\ cond = [o \in Obj |-> IF o = 1 THEN InitVer ELSE 0]
    /\ grid = [o \in Obj |-> Grids[1]]
    /\ inv = [o \in Obj |-> FALSE]
    /\ bufU = [o \in Obj |-> NoBuf]
    /\ nextver = InitVer + 1
    /\ nextcell = 2
    /\ hist = <<>>

Log(a, o, arg, new, obs) == hist' = Append(hist, [a |-> a, o |-> o, arg |-> arg, new |-> new, obs |-> obs])
FreshObj == CHOOSE n \in Obj : n \notin alive /\ \A m \in Obj : m < n => m \in alive
CanCreate == Cardinality(alive) < MaxObj
Room == Len(hist) < MaxLen /\ nextver <= MaxVer /\ nextcell <= MaxCells

\* ---------------------------------------------------------------- mutators (underscore methods)
\* update(): predict/fetch parameters, recompute the displacement buffer
UpdatedBuf(o) == Now(o)
UpdatedP(o)   == IF holder[o] = "callable" THEN PVal_(cond[o])
                 ELSE IF holder[o] = "link" THEN HeldRef(target[o]) ELSE pbuf[o]

Update(o) ==
    /\ Room /\ o \in alive /\ holder[o] # "none"
    /\ pbuf' = [pbuf EXCEPT ![o] = UpdatedP(o)]
    /\ pgrid' = [pgrid EXCEPT ![o] = grid[o]]
    /\ bufU' = [bufU EXCEPT ![o] = UpdatedBuf(o)]
    /\ Log("update", o, "", 0, {})
    /\ UNCHANGED <<alive, holder, target, cell, content, cond, grid, inv, nextver, nextcell>>

\* t(points): the forward pre-hook updates first, so a call ALWAYS shows the current state  (CallFresh)
Call(o) ==
    /\ Room /\ o \in alive /\ holder[o] # "none"
    /\ pbuf' = [pbuf EXCEPT ![o] = UpdatedP(o)]
    /\ pgrid' = [pgrid EXCEPT ![o] = grid[o]]
    /\ bufU' = [bufU EXCEPT ![o] = UpdatedBuf(o)]
    /\ Log("call", o, "", 0, {Now(o).ver})
    /\ UNCHANGED <<alive, holder, target, cell, content, cond, grid, inv, nextver, nextcell>>

\* t.disp(): uses the buffered displacement if there is one (documented contract), else updates.
\* After an in-place edit a buffered value may legitimately be old: both answers are admitted.
Disp(o) ==
    /\ Room /\ o \in alive /\ holder[o] # "none"
    /\ IF bufU[o] = NoBuf
       THEN /\ pbuf' = [pbuf EXCEPT ![o] = UpdatedP(o)]
            /\ pgrid' = [pgrid EXCEPT ![o] = grid[o]]
            /\ bufU' = [bufU EXCEPT ![o] = UpdatedBuf(o)]
            /\ Log("disp", o, "", 0, {Now(o).ver})
       ELSE /\ UNCHANGED <<pbuf, pgrid, bufU>>
            /\ Log("disp", o, "", 0, IF bufU[o].ver = Unknown THEN {} ELSE {bufU[o].ver, Now(o).ver})
    /\ UNCHANGED <<alive, holder, target, cell, content, cond, grid, inv, nextver, nextcell>>

\* t.data_(new tensor): replaces the parameters; buffers are dropped
Data_(o) ==
    /\ Room /\ o \in alive /\ holder[o] \in {"param", "tensor"} /\ Sharers(o) = {}
    /\ cell' = [cell EXCEPT ![o] = nextcell]
    /\ content' = [content EXCEPT ![nextcell] = nextver]
    /\ bufU' = [bufU EXCEPT ![o] = NoBuf]
    /\ nextver' = nextver + 1 /\ nextcell' = nextcell + 1
    /\ Log("data_", o, nextver, 0, {})
    /\ UNCHANGED <<alive, holder, target, pbuf, pgrid, cond, grid, inv>>

\* optimiser-style in-place update of the parameter tensor: seen by everyone sharing the tensor; buffers stay
InPlaceEdit(o) ==
    /\ Room /\ o \in alive /\ holder[o] \in {"param", "tensor"}
    /\ content' = [content EXCEPT ![cell[o]] = nextver]
    /\ nextver' = nextver + 1
    /\ Log("inplace", o, nextver, 0, {})
    /\ UNCHANGED <<alive, holder, target, cell, pbuf, pgrid, cond, grid, inv, bufU, nextcell>>

\* reset_parameters(): back to the identity, buffers dropped
Reset(o) ==
    /\ Kind # "SEQ"                                  \* composites have no parameters of their own
    /\ Room /\ o \in alive /\ holder[o] \in {"param", "tensor", "callable"} /\ Sharers(o) = {}
    /\ (holder[o] = "callable" => alive = {o})      \* p is zeroed IN PLACE and shallow copies share that tensor
    /\ IF holder[o] = "callable"
       THEN pbuf' = [pbuf EXCEPT ![o] = PVal_(0)] /\ UNCHANGED content
       ELSE content' = [content EXCEPT ![cell[o]] = 0] /\ UNCHANGED pbuf
    /\ bufU' = [bufU EXCEPT ![o] = NoBuf]
    /\ Log("reset", o, "", 0, {})
    /\ UNCHANGED <<alive, holder, target, cell, pgrid, cond, grid, inv, nextver, nextcell>>

\* t.grid_(g): new grid; dense/spline parameters are re-expressed so that the WORLD deformation is kept
\* (the version is unchanged; the re-expressed parameters are a new tensor); buffers are dropped
\* spline models only offer refinement of the control grid (same domain, 2n - 1 samples)
GridMove(o, g) == /\ g # grid[o] /\ ~Linked(o)
                  /\ Kind \in {"FFD", "SVFFD"} => (grid[o] = "G" /\ g = "Gfine")
Grid_(o, g) ==
    /\ Room /\ o \in alive /\ holder[o] # "none" /\ GridMove(o, g)
    /\ grid' = [grid EXCEPT ![o] = g]
    /\ IF holder[o] \in {"param", "tensor"}
       THEN /\ cell' = [cell EXCEPT ![o] = nextcell]
            /\ content' = [content EXCEPT ![nextcell] = content[cell[o]]]
            /\ nextcell' = nextcell + 1
       ELSE UNCHANGED <<cell, content, nextcell>>
    /\ bufU' = [bufU EXCEPT ![o] = NoBuf]
    /\ Log("grid_", o, g, 0, {})
    /\ UNCHANGED <<alive, holder, target, pbuf, pgrid, cond, inv, nextver>>

\* t.condition_(c): new arguments for a parameter-predicting callable; buffers are dropped
Condition_(o) ==
    /\ Room /\ o \in alive /\ holder[o] # "none"
    /\ cond' = [cond EXCEPT ![o] = nextver]
    /\ nextver' = nextver + 1
    /\ bufU' = [bufU EXCEPT ![o] = NoBuf]
    /\ Log("condition_", o, nextver, 0, {})
    /\ UNCHANGED <<alive, holder, target, cell, content, pbuf, pgrid, grid, inv, nextcell>>

ClearBuffers(o) ==
    /\ Room /\ o \in alive /\ bufU[o] # NoBuf
    /\ bufU' = [bufU EXCEPT ![o] = NoBuf]
    /\ Log("clear_buffers", o, "", 0, {})
    /\ UNCHANGED <<alive, holder, target, cell, content, pbuf, pgrid, cond, grid, inv, nextver, nextcell>>

\* ---------------------------------------------------------------- accessors returning a NEW object
\* every one of them leaves the receiver (and everything else) exactly as it was   (CopiesIndependent)
NewFrom(o, n) ==
    /\ alive' = alive \cup {n}
    /\ target' = [target EXCEPT ![n] = target[o]]
    /\ cond' = [cond EXCEPT ![n] = cond[o]]

\* t.inverse(link, update_buffers) / t.inv
Inverse(o, lnk, ub) ==
    /\ Room /\ Invertible /\ CanCreate /\ o \in alive /\ holder[o] # "none"
    \* a link reads the target's prediction buffer p as it is; that is meaningful only if p was computed for the
    \* target's current grid (a prediction made before a grid change is in the units of the old grid)
    /\ lnk => (holder[o] \in {"param", "tensor"} \/ pgrid[o] = grid[o])
    /\ LET n == FreshObj IN
       /\ alive' = alive \cup {n}
       /\ holder' = [holder EXCEPT ![n] = IF lnk THEN "link" ELSE holder[o]]
       /\ target' = [target EXCEPT ![n] = IF lnk THEN o ELSE target[o]]
       /\ cell' = [cell EXCEPT ![n] = cell[o]]
       /\ pbuf' = [pbuf EXCEPT ![n] = IF lnk /\ pbuf[o] = PNone THEN HeldRef(o) ELSE pbuf[o]]
       /\ pgrid' = [pgrid EXCEPT ![n] = pgrid[o]]
       /\ cond' = [cond EXCEPT ![n] = cond[o]]
       /\ grid' = [grid EXCEPT ![n] = grid[o]]
       /\ inv' = [inv EXCEPT ![n] = ~inv[o]]
       \* the copy starts with the forward buffers; update_buffers recomputes u from the buffered velocity
       \* (if the forward buffers are themselves out of date the result is whatever the aliased tensors hold: Unknown)
       /\ bufU' = [bufU EXCEPT ![n] = IF ub /\ bufU[o] # NoBuf
                                      THEN (IF bufU[o] = Now(o) THEN [ver |-> -bufU[o].ver, g |-> bufU[o].g]
                                            ELSE [ver |-> Unknown, g |-> bufU[o].g])
                                      ELSE bufU[o]]
       /\ Log("inverse", o, IF lnk THEN (IF ub THEN "link+ub" ELSE "link") ELSE (IF ub THEN "ub" ELSE "plain"), n, {})
    /\ UNCHANGED <<content, nextver, nextcell>>

\* t.data(new tensor) -> copy with other parameters
DataCopy(o) ==
    /\ Kind # "SEQ"
    /\ Room /\ CanCreate /\ o \in alive /\ holder[o] \in {"param", "tensor", "callable"}
    /\ LET n == FreshObj IN
       /\ alive' = alive \cup {n}
       /\ holder' = [holder EXCEPT ![n] = IF holder[o] = "callable" THEN "tensor" ELSE holder[o]]
       /\ target' = [target EXCEPT ![n] = 0]
       /\ cell' = [cell EXCEPT ![n] = nextcell]
       /\ content' = [content EXCEPT ![nextcell] = nextver]
       /\ pbuf' = [pbuf EXCEPT ![n] = PNone]
       /\ pgrid' = [pgrid EXCEPT ![n] = pgrid[o]]
       /\ cond' = [cond EXCEPT ![n] = cond[o]]
       /\ grid' = [grid EXCEPT ![n] = grid[o]]
       /\ inv' = [inv EXCEPT ![n] = inv[o]]
       /\ bufU' = [bufU EXCEPT ![n] = NoBuf]
       /\ nextver' = nextver + 1 /\ nextcell' = nextcell + 1
       /\ Log("data", o, nextver, n, {})

\* t.grid(g) -> copy on another grid
GridCopy(o, g) ==
    /\ Room /\ CanCreate /\ o \in alive /\ holder[o] # "none" /\ GridMove(o, g)
    /\ LET n == FreshObj IN
       /\ alive' = alive \cup {n}
       /\ holder' = [holder EXCEPT ![n] = holder[o]]
       /\ target' = [target EXCEPT ![n] = target[o]]
       /\ IF holder[o] \in {"param", "tensor"}
          THEN /\ cell' = [cell EXCEPT ![n] = nextcell]
               /\ content' = [content EXCEPT ![nextcell] = content[cell[o]]]
               /\ nextcell' = nextcell + 1
          ELSE cell' = [cell EXCEPT ![n] = cell[o]] /\ UNCHANGED <<content, nextcell>>
       /\ pbuf' = [pbuf EXCEPT ![n] = pbuf[o]]
       /\ pgrid' = [pgrid EXCEPT ![n] = pgrid[o]]
       /\ cond' = [cond EXCEPT ![n] = cond[o]]
       /\ grid' = [grid EXCEPT ![n] = g]
       /\ inv' = [inv EXCEPT ![n] = inv[o]]
       /\ bufU' = [bufU EXCEPT ![n] = NoBuf]
       /\ Log("grid", o, g, n, {})
    /\ UNCHANGED nextver

\* t.condition(c) -> copy with other conditioning
ConditionCopy(o) ==
    /\ Room /\ CanCreate /\ o \in alive /\ holder[o] # "none"
    /\ LET n == FreshObj IN
       /\ alive' = alive \cup {n}
       /\ holder' = [holder EXCEPT ![n] = holder[o]]
       /\ target' = [target EXCEPT ![n] = target[o]]
       /\ cell' = [cell EXCEPT ![n] = cell[o]]
       /\ pbuf' = [pbuf EXCEPT ![n] = pbuf[o]]
       /\ pgrid' = [pgrid EXCEPT ![n] = pgrid[o]]
       /\ cond' = [cond EXCEPT ![n] = nextver]
       /\ grid' = [grid EXCEPT ![n] = grid[o]]
       /\ inv' = [inv EXCEPT ![n] = inv[o]]
       /\ bufU' = [bufU EXCEPT ![n] = NoBuf]
       /\ nextver' = nextver + 1
       /\ Log("condition", o, nextver, n, {})
    /\ UNCHANGED <<content, nextcell>>

\* copy.deepcopy(t): independent in both directions
DeepCopy(o) ==
    /\ Room /\ CanCreate /\ o \in alive /\ holder[o] \in {"param", "tensor", "callable"}
    /\ LET n == FreshObj IN
       /\ alive' = alive \cup {n}
       /\ holder' = [holder EXCEPT ![n] = holder[o]]
       /\ target' = [target EXCEPT ![n] = 0]
       /\ cell' = [cell EXCEPT ![n] = nextcell]
       /\ content' = [content EXCEPT ![nextcell] = IF holder[o] = "callable" THEN 0 ELSE content[cell[o]]]
       /\ nextcell' = nextcell + 1
       /\ pbuf' = [pbuf EXCEPT ![n] = pbuf[o]]
       /\ pgrid' = [pgrid EXCEPT ![n] = pgrid[o]]
       /\ cond' = [cond EXCEPT ![n] = cond[o]]
       /\ grid' = [grid EXCEPT ![n] = grid[o]]
       /\ inv' = [inv EXCEPT ![n] = inv[o]]
       /\ bufU' = [bufU EXCEPT ![n] = bufU[o]]
       /\ Log("deepcopy", o, "", n, {})
    /\ UNCHANGED nextver

GridsSet == {Grids[i] : i \in 1..Len(Grids)}
Next ==
    \E o \in Obj :
        \/ Update(o) \/ Call(o) \/ Disp(o) \/ Data_(o) \/ InPlaceEdit(o) \/ Reset(o) \/ Condition_(o) \/ ClearBuffers(o)
        \/ \E g \in GridsSet : Grid_(o, g) \/ GridCopy(o, g)
        \/ \E l \in BOOLEAN, u \in BOOLEAN : Inverse(o, l, u)
        \/ DataCopy(o) \/ ConditionCopy(o) \/ DeepCopy(o)
Spec == Init /\ [][Next]_vars

\* ---------------------------------------------------------------- properties of the model
Last == hist[Len(hist)]
\* C09: a call shows exactly the state held at that moment
CallFresh == (hist # <<>> /\ Last.a = "call") => (Last.obs = {Now(Last.o).ver} /\ bufU[Last.o] = Now(Last.o))
\* C09: the displacement read right after a replacing / resetting operation reflects the new state
Replacing == {"data_", "reset", "grid_", "condition_"}
DispFreshAfterReplace ==
    (Len(hist) >= 2 /\ Last.a = "disp" /\ hist[Len(hist) - 1].a \in Replacing /\ hist[Len(hist) - 1].o = Last.o)
        => Last.obs = {Now(Last.o).ver}
\* C07: a linked inverse of a transform holding a tensor always means the inverse of what the forward transform means now
InverseStaysInverse ==
    \A o \in alive : (holder[o] = "link" /\ target[o] \in alive /\ holder[target[o]] \in {"param", "tensor"}
                       /\ inv[o] # inv[target[o]] /\ grid[o] = grid[target[o]])
                     => Now(o).ver = -Now(target[o]).ver
\* C15/C09: an accessor that returns a new object changes nothing about the existing ones
Creating == {"inverse", "data", "grid", "condition", "deepcopy"}
CopiesIndependent ==
    [][(hist' # hist /\ hist'[Len(hist')].a \in Creating) =>
         \A o \in alive : /\ holder'[o] = holder[o] /\ cell'[o] = cell[o] /\ content'[cell[o]] = content[cell[o]]
                          /\ pbuf'[o] = pbuf[o] /\ cond'[o] = cond[o] /\ grid'[o] = grid[o] /\ inv'[o] = inv[o]
                          /\ bufU'[o] = bufU[o]]_vars
TypeOK == /\ alive \subseteq Obj /\ 1 \in alive
          /\ \A o \in alive : holder[o] \in {"param", "tensor", "callable", "link"}
          /\ \A o \in alive : holder[o] = "link" => target[o] \in alive

\* ---------------------------------------------------------------- emission of histories
Observing == hist # <<>> /\ Last.a \in {"call", "disp"}
Emit == (EmitCases /\ Observing) => PrintT(ToJson([kind |-> Kind, holder |-> Holder0, initver |-> InitVer, hist |-> hist]))
=============================================================================
