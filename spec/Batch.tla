------------------------------- MODULE Batch -------------------------------
(***************************************************************************)
(* Tensor subclasses with grids (data/image.py, data/flow.py,              *)
(* data/tensor.py): what a torch operation may return when applied to an   *)
(* Image, ImageBatch, FlowField or FlowFields.  Property C19.              *)
(*                                                                         *)
(* Abstract value: Plain, or a typed value with one entry per batch item.  *)
(* d[i] is the identity of the input item whose data entry i holds         *)
(* (0 = data mixed from several items), g[i] the identity of the grid      *)
(* entry i carries.  Input item k carries data k and grid k.  Every        *)
(* operation is described by its MATHEMATICAL effect on the item sequence; *)
(* the implementation may always answer with a plain tensor, but a typed   *)
(* answer must be well described.                                          *)
(***************************************************************************)
EXTENDS Integers, Sequences, FiniteSets, TLC, Json

E(v) == SubSeq(v, 1, Len(v))
Kinds == {"Image", "ImageBatch", "FlowField", "FlowFields"}
IsBatchKind(t) == t \in {"ImageBatch", "FlowFields"}
IsFlowKind(t)  == t \in {"FlowField", "FlowFields"}

Plain == [t |-> "Plain", d |-> <<>>, g |-> <<>>, C |-> 0, nG |-> 0, shapeok |-> FALSE, axes |-> ""]
Typed(t, items, C, axes) ==
    [t |-> t, d |-> items, g |-> items, C |-> C, nG |-> Len(items), shapeok |-> TRUE,
     axes |-> IF IsFlowKind(t) THEN axes ELSE ""]

\* The property: a typed result describes its data.
WellDescribed(v, D, axes0) ==
    v.t # "Plain" =>
        /\ v.nG = Len(v.d)
        /\ v.shapeok
        /\ \A i \in 1..Len(v.d) : v.d[i] # 0 /\ v.g[i] = v.d[i]
        /\ IsFlowKind(v.t) => (v.C = D /\ v.axes = axes0)
        /\ ~IsBatchKind(v.t) => Len(v.d) = 1

(* ------------------------------------------------------------------------ *)
(* Mathematical effect of an operation on an abstract value.                *)
(* layout: "NCS" batch x channels x spatial(as the grid), "CS" single,      *)
(*         "X" anything else                                                *)
(* ------------------------------------------------------------------------ *)
Meaning(v) == [layout |-> IF v.t = "Plain" THEN "X" ELSE IF IsBatchKind(v.t) THEN "NCS" ELSE "CS",
               items |-> v.d, C |-> v.C, flow |-> IsFlowKind(v.t)]

Sel(items, idx) == E([k \in 1..Len(idx) |-> items[idx[k] + 1]])   \* idx: 0-based positions
Rev(items) == E([k \in 1..Len(items) |-> items[Len(items) + 1 - k]])
Rot(items, sh) == E([k \in 1..Len(items) |-> items[((k - 1 - sh) % Len(items)) + 1]])  \* torch.roll(shifts=sh)
Tile(items, r) == E([k \in 1..(Len(items) * r) |-> items[((k - 1) % Len(items)) + 1]])

\* o = [name, eff, a, b]: eff in
\*  same | select(a: idx seq) | item(a: k) | reverse | roll(a) | tile(a) | concat_self | concat_other(a: other items)
\*  chan(a: new C) | spatial | mixed | other
Effect(m, o) ==
    IF m.layout = "X" THEN m
    ELSE IF m.layout = "NCS" THEN
        CASE o.eff = "same"     -> m
          [] o.eff = "select"   -> [m EXCEPT !.items = Sel(m.items, o.a)]
          [] o.eff = "item"     -> [m EXCEPT !.layout = "CS", !.items = <<m.items[o.a[1] + 1]>>]
          [] o.eff = "reverse"  -> [m EXCEPT !.items = Rev(m.items)]
          [] o.eff = "roll"     -> [m EXCEPT !.items = Rot(m.items, o.a[1])]
          [] o.eff = "tile"     -> [m EXCEPT !.items = Tile(m.items, o.a[1])]
          [] o.eff = "concat_self"  -> [m EXCEPT !.items = m.items \o m.items]
          [] o.eff = "concat_other" -> [m EXCEPT !.items = m.items \o o.a]
          [] o.eff = "chan"     -> [m EXCEPT !.C = o.a[1]]
          [] o.eff = "chan_mul" -> [m EXCEPT !.C = m.C * o.a[1]]
          \* ONE indexing expression that selects items AND channels: a = <<new C, idx...>>
          [] o.eff = "selchan"  -> [m EXCEPT !.items = Sel(m.items, Tail(o.a)), !.C = o.a[1]]
          [] o.eff = "mixed"    -> [m EXCEPT !.items = IF Len(m.items) = 1 THEN m.items
                                                       ELSE E([k \in 1..(IF o.a[1] = 0 THEN Len(m.items) ELSE o.a[1]) |-> 0])]
          [] o.eff = "swap_nc"  ->  \* exchange batch and channel dimension: entry i holds channel i of every item
                IF Len(m.items) # m.C THEN [m EXCEPT !.layout = "X"]
                ELSE IF \A i \in 1..Len(m.items) : m.items[i] = m.items[1] THEN m
                ELSE [m EXCEPT !.items = E([k \in 1..Len(m.items) |-> 0])]
          [] o.eff \in {"spatial", "other"} -> [m EXCEPT !.layout = "X"]
    ELSE \* single image: dimension 0 is the channel dimension
        CASE o.eff = "same"     -> m
          [] o.eff = "chan"     -> [m EXCEPT !.C = o.a[1]]
          [] o.eff = "chan_mul" -> [m EXCEPT !.C = m.C * o.a[1]]
          [] o.eff \in {"spatial", "other", "mixed", "select", "item", "reverse", "roll", "tile",
                        "concat_self", "concat_other", "swap_nc", "selchan"} -> [m EXCEPT !.layout = "X"]

\* The index-based operations of the alphabet are defined for batches of exactly 3 items.
OpEnabled(m, o) ==
    /\ (m.layout = "NCS" /\ o.eff \in {"select", "item", "selchan"}) => Len(m.items) = 3
    /\ (m.layout = "NCS" /\ o.eff \in {"reverse", "roll", "tile", "mixed"}) => Len(m.items) >= 1

\* the acceptable answers for a meaning: Plain always; typed answers only if some grid describes the data
Allowed(m, t0, D, axes0) ==
    {Plain} \cup
    (IF m.layout = "X" \/ \E i \in 1..Len(m.items) : m.items[i] = 0 THEN {}
     ELSE LET flowok == m.flow /\ m.C = D IN
          IF m.layout = "NCS"
          THEN {Typed("ImageBatch", m.items, m.C, "")} \cup (IF flowok THEN {Typed("FlowFields", m.items, m.C, axes0)} ELSE {})
          ELSE {Typed("Image", m.items, m.C, "")} \cup (IF flowok THEN {Typed("FlowField", m.items, m.C, axes0)} ELSE {}))

(* ------------------------------ state machine ------------------------------ *)
CONSTANTS Inits,       \* set of [t, N, C, D, axes]
          OpsFor(_),   \* layout -> set of operation records
          MaxLen,
          EmitCases

VARIABLES init, prog, trail, val
vars == <<init, prog, trail, val>>

NoInit == [t |-> "", N |-> 0, C |-> 0, D |-> 0, axes |-> ""]
InitVal(i) == Typed(i.t, E([k \in 1..i.N |-> k]), i.C, i.axes)

Init == init = NoInit /\ prog = <<>> /\ trail = <<>> /\ val = Plain
Start == init = NoInit /\ \E i \in Inits : init' = i /\ val' = InitVal(i) /\ prog' = <<>> /\ trail' = <<>>
Apply(o) ==
    /\ OpEnabled(Meaning(val), o)
    /\ val' \in Allowed(Effect(Meaning(val), o), init.t, init.D, init.axes)
    /\ prog' = Append(prog, o.name)
    /\ trail' = Append(trail, val')
    /\ UNCHANGED init
\* (programs are not continued on an EMPTY typed batch: what operations on zero images return is not part of the property)
Step == /\ init # NoInit /\ Len(prog) < MaxLen /\ (val.t = "Plain" \/ Len(val.d) > 0)
        /\ \E o \in OpsFor(Meaning(val).layout) : Apply(o)
Next == Start \/ Step
Spec == Init /\ [][Next]_vars

\* every value the specification admits is well described (C19 as an invariant of the model)
AlwaysWellDescribed == init # NoInit => WellDescribed(val, init.D, init.axes)
\* a plain tensor never becomes an image again
PlainIsAbsorbing == [][val.t = "Plain" /\ init # NoInit => val'.t = "Plain"]_vars

\* collate_samples: a list of samples (single images / flow fields, or sub-batches) becomes ONE batch whose
\* entries are the samples' items in order, each with its own grid.
CollateParts == {<< <<1>>, <<2>>, <<3>> >>, << <<1, 2>>, <<3>> >>, << <<3>>, <<1, 2>> >>, << <<2, 3>>, <<1, 2>> >>}
RECURSIVE Flatten(_)
Flatten(ss) == IF ss = <<>> THEN <<>> ELSE Head(ss) \o Flatten(Tail(ss))
CollateResult(t, parts, C, axes) ==
    Typed(IF t \in {"Image", "ImageBatch"} THEN "ImageBatch" ELSE "FlowFields", Flatten(parts), C, axes)
CollateCases ==
    UNION {{[t |-> i.t, C |-> i.C, D |-> i.D, axes |-> i.axes, parts |-> p, out |-> CollateResult(i.t, p, i.C, i.axes)] :
              p \in {q \in CollateParts : IsBatchKind(i.t) \/ \A k \in 1..Len(q) : Len(q[k]) = 1}} : i \in Inits}
CollateWellDescribed == \A c \in CollateCases : WellDescribed(c.out, c.D, c.axes)

Emit == /\ (EmitCases /\ prog # <<>>) => PrintT(ToJson([init |-> init, prog |-> prog, trail |-> trail]))
        /\ (EmitCases /\ init = NoInit) => \A c \in CollateCases : PrintT(ToJson([collate |-> c]))
=============================================================================
