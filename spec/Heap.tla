-------------------------------- MODULE Heap --------------------------------
(***************************************************************************)
(* No hidden mutation (property C15).  A heap of cells (tensors, object    *)
(* attributes); every public call is an action with an explicit WRITE SET: *)
(* empty for functions of the functional namespaces and for accessors that *)
(* return "a new object with X changed", {receiver} for underscore         *)
(* methods, and the explicitly designated output for in-place variants.    *)
(* Frame: a call changes no cell outside its write set.  Copies: a shallow *)
(* copy returned by an accessor shares cells with the original, but no     *)
(* later operation on the copy may change what the original shows; deep    *)
(* copies are independent in both directions.                              *)
(***************************************************************************)
EXTENDS Integers, Sequences, FiniteSets, TLC, Json

CONSTANTS NCells, MaxLen, EmitCases
Cells == 1..NCells
VARIABLES ver,      \* [Cells -> Nat] content version of every cell
          shows,    \* [{"orig","copy"} -> SUBSET Cells] cells an object's observable behaviour depends on
          kind,     \* "none" | "accessor" | "deep": how the copy was made
          hist
vars == <<ver, shows, kind, hist>>

Init == ver = [c \in Cells |-> 0] /\ shows = [o \in {"orig", "copy"} |-> IF o = "orig" THEN {1, 2} ELSE {}]
        /\ kind = "none" /\ hist = <<>>
Log(e) == hist' = Append(hist, e)
Room == Len(hist) < MaxLen

\* a function of the functional API: reads its arguments, writes nothing
CallFunction(args) == Room /\ UNCHANGED <<ver, shows, kind>> /\ Log([a |-> "function", args |-> args, writes |-> {}])
\* x.attr(value): new object with one attribute changed: fresh cell for that attribute, the others shared
Accessor == Room /\ kind = "none" /\ kind' = "accessor"
            /\ shows' = [shows EXCEPT !["copy"] = {1, 3}] /\ UNCHANGED ver
            /\ Log([a |-> "accessor", args |-> {}, writes |-> {}])
DeepCopy == Room /\ kind = "none" /\ kind' = "deep"
            /\ shows' = [shows EXCEPT !["copy"] = {3, 4}] /\ ver' = [ver EXCEPT ![3] = ver[1], ![4] = ver[2]]
            /\ Log([a |-> "deepcopy", args |-> {}, writes |-> {3, 4}])     \* freshly allocated cells
\* underscore method on an object: may write the cells it OWNS (not cells shared with the other object through an accessor copy)
Owned(o) == IF kind = "accessor" THEN (IF o = "copy" THEN {3} ELSE {2}) ELSE shows[o]
Mutate(o, c) == Room /\ shows[o] # {} /\ c \in Owned(o)
                /\ ver' = [ver EXCEPT ![c] = ver[c] + 1] /\ UNCHANGED <<shows, kind>>
                /\ Log([a |-> "mutate", args |-> {c}, writes |-> {c}, obj |-> o])
Observe(o) == Room /\ shows[o] # {} /\ UNCHANGED <<ver, shows, kind>>
              /\ Log([a |-> "observe", args |-> {}, writes |-> {}, obj |-> o, sees |-> [c \in shows[o] |-> ver[c]]])
Next == \/ \E args \in SUBSET (1..2) : CallFunction(args) \/ Accessor \/ DeepCopy
        \/ \E o \in {"orig", "copy"} : Observe(o) \/ \E c \in Cells : Mutate(o, c)
Spec == Init /\ [][Next]_vars

\* Frame: cells outside the write set of the last action are unchanged
Frame == [][\A c \in Cells : (hist' # hist /\ c \notin hist'[Len(hist')].writes) => ver'[c] = ver[c]]_vars
\* a mutation through one object never changes a cell the OTHER object shows, except the deliberately shared
\* parameter tensor (cell 1) of accessor copies, which no underscore method owns
Independent == [][\A o \in {"orig", "copy"} :
                    (hist' # hist /\ hist'[Len(hist')].a = "mutate" /\ hist'[Len(hist')].obj # o)
                        => \A c \in shows[o] : ver'[c] = ver[c]]_vars

\* ---- predicate used for trace validation of recorded calls: observed writes within the allowed write set
WritesAllowed(ev) == \A w \in ev.written : w \in ev.allowed
Emit == (EmitCases /\ hist # <<>> /\ hist[Len(hist)].a = "observe") => PrintT(ToJson([hist |-> hist]))
=============================================================================
