---------------------------- MODULE MC_Resample ----------------------------
EXTENDS Resample
GG(n, h, c, RR, ac) == [n |-> n, h |-> h, c |-> c, R |-> RR, ac |-> ac]
Img(g, v) == [g |-> g, v |-> v]
V34 == <<3, 17, 8, 25, 11, 2, 19, 6, 14, 30, 1, 22>>           \* 3 x 4 (x fastest)
V44 == <<5, 12, 9, 27, 16, 3, 21, 7, 10, 31, 2, 18, 24, 13, 29, 4>>
V232 == <<4, 15, 9, 1, 20, 7, 12, 3, 18, 6, 25, 11>>           \* 2 x 3 x 2
S1(ac) == Img(GG(<<3, 4>>, <<One, R(3,2)>>, <<RI(2), RI(-1)>>, Rot2Of(CS_3_5), ac), V34)
S2(ac) == Img(GG(<<4, 4>>, <<R(1,2), One>>, <<Zero, R(1,2)>>, Rot2Of(CS_Id), ac), V44)
S3(ac) == Img(GG(<<2, 3, 2>>, <<One, R(3,2), Two>>, <<One, Zero, RI(-1)>>, QuatMat(<<2,1,0,0>>), ac), V232)
QSources == {S1(TRUE), S1(FALSE), S2(FALSE), S3(TRUE)}
TSources == {S1(TRUE), S1(FALSE), S2(TRUE), S2(FALSE), S3(TRUE), S3(FALSE)}
QTargets(D) ==
    IF D = 2 THEN {GG(<<5, 4>>, <<R(3,4), One>>, <<RI(2), R(-1,2)>>, Rot2Of(CS_4_5n), FALSE),
                   GG(<<4, 3>>, <<One, R(3,2)>>, <<R(5,2), RI(-1)>>, Rot2Of(CS_3_5), TRUE),
                   GG(<<3, 5>>, <<R(1,2), R(1,2)>>, <<R(1,4), R(1,2)>>, Rot2Of(CS_90), TRUE),
                   GG(<<2, 2>>, <<RI(4), RI(5)>>, <<RI(2), RI(-1)>>, FlipX(Rot2Of(CS_Id)), FALSE),
                   GG(<<3, 4>>, <<R(5,4), One>>, <<R(9,4), R(-1,2)>>, Rot2Of(CS_4_5n), TRUE)}
    ELSE {GG(<<3, 2, 2>>, <<One, One, R(3,2)>>, <<One, R(1,2), RI(-1)>>, QuatMat(<<1,1,1,1>>), FALSE),
          GG(<<2, 3, 2>>, <<R(1,2), R(3,2), Two>>, <<One, Zero, RI(-1)>>, QuatMat(<<2,1,0,0>>), TRUE)}
AllPads == {<<"zeros", 0>>, <<"border", 0>>, <<"constant", 7>>, <<"constant", -3>>}
\* ---------------------------------------------------------------- thorough lattice
V53 == <<8, 21, 4, 17, 29, 12, 1, 26, 9, 15, 23, 6, 19, 2, 31>>  \* 5 x 3
V333 == <<7, 19, 2, 25, 11, 30, 4, 16, 22, 9, 28, 1, 13, 20, 5, 27, 10, 18, 3, 24, 14, 31, 6, 21, 8, 17, 12>>
S4(ac) == Img(GG(<<5, 3>>, <<R(3,4), R(5,4)>>, <<R(3,2), RI(-1)>>, FlipX(Rot2Of(CS_3_5)), ac), V53)
S5(ac) == Img(GG(<<3, 3, 3>>, <<R(3,2), One, R(1,2)>>, <<One, R(1,2), RI(-1)>>, QuatMat(<<1,1,1,1>>), ac), V333)
TSources2 == TSources \cup {S4(TRUE), S4(FALSE), S5(TRUE), S5(FALSE)}
TTargets(D) == QTargets(D) \cup
    (IF D = 2 THEN {GG(<<6, 2>>, <<R(1,2), R(3,2)>>, <<RI(2), R(-3,4)>>, Rot2Of(CS_4_5n), TRUE),
                    GG(<<3, 3>>, <<One, One>>, <<R(7,4), RI(-1)>>, FlipX(Rot2Of(CS_90)), FALSE),
                    GG(<<4, 5>>, <<R(1,4), R(1,2)>>, <<RI(2), RI(-1)>>, Rot2Of(CS_Id), FALSE),
                    GG(<<1, 4>>, <<One, R(3,4)>>, <<RI(2), RI(-1)>>, Rot2Of(CS_3_5), TRUE)}
     ELSE {GG(<<2, 2, 3>>, <<R(3,4), One, R(1,2)>>, <<One, R(1,4), RI(-1)>>, FlipX(QuatMat(<<2,1,0,0>>)), TRUE),
           GG(<<4, 2, 2>>, <<R(1,2), R(1,2), One>>, <<R(3,4), Zero, R(-3,4)>>, QuatMat(<<1,0,0,0>>), FALSE)})
=============================================================================
