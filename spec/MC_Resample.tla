---------------------------- MODULE MC_Resample ----------------------------
EXTENDS Resample
GG(n, h, c, RR, ac) == [n |-> n, h |-> h, c |-> c, R |-> RR, ac |-> ac]
Img(g, v) == [g |-> g, v |-> v]
V34 == <<3, 17, 8, 25, 11, 2, 19, 6, 14, 30, 1, 22>>           \* 3 x 4 (x fastest)
V44 == <<5, 12, 9, 27, 16, 3, 21, 7, 10, 31, 2, 18, 24, 13, 29, 4>>
V232 == <<4, 15, 9, 1, 20, 7, 12, 3, 18, 6, 25, 11>>           \* 2 x 3 x 2
S1(ac) == Img(GG(<<3, 4>>, <<One, R(3,2)>>, <<RI(2), RI(-1)>>, Rot2Of(CS_3_5), ac), V34)
S2(ac) == Img(GG(<<4, 4>>, <<R(1,2), One>>, <<Zero, R(1,2)>>, Rot2Of(CS_Id), ac), V44)
S3(ac) == Img(GG(<<2, 3, 2>>, <<One, R(3,2), Two>>, <<One, Zero, RI(-1)>>, QuatMat(<<2,1,0,0>>), ac), V232)
QSources == {S1(TRUE), S1(FALSE), S2(FALSE), S3(TRUE)}
TSources == {S1(TRUE), S1(FALSE), S2(TRUE), S2(FALSE), S3(TRUE), S3(FALSE)}
QTargets(D) ==
    IF D = 2 THEN {GG(<<5, 4>>, <<R(3,4), One>>, <<RI(2), R(-1,2)>>, Rot2Of(CS_4_5n), FALSE),
                   GG(<<4, 3>>, <<One, R(3,2)>>, <<R(5,2), RI(-1)>>, Rot2Of(CS_3_5), TRUE),
                   GG(<<3, 5>>, <<R(1,2), R(1,2)>>, <<R(1,4), R(1,2)>>, Rot2Of(CS_90), TRUE),
                   GG(<<2, 2>>, <<RI(4), RI(5)>>, <<RI(2), RI(-1)>>, FlipX(Rot2Of(CS_Id)), FALSE),
                   GG(<<3, 4>>, <<R(5,4), One>>, <<R(9,4), R(-1,2)>>, Rot2Of(CS_4_5n), TRUE)}
    ELSE {GG(<<3, 2, 2>>, <<One, One, R(3,2)>>, <<One, R(1,2), RI(-1)>>, QuatMat(<<1,1,1,1>>), FALSE),
          GG(<<2, 3, 2>>, <<R(1,2), R(3,2), Two>>, <<One, Zero, RI(-1)>>, QuatMat(<<2,1,0,0>>), TRUE)}
AllPads == {<<"zeros", 0>>, <<"border", 0>>, <<"constant", 7>>}
=============================================================================
