------------------------------- MODULE HForms -------------------------------
(***************************************************************************)
(* Operand forms of homogeneous transformations (core/linalg.py): a        *)
(* translation vector T, a square matrix A, a D x (D+1) matrix H.          *)
(* homogeneous_matmul(a, b) must mean "apply b, then a" for all 9 pairs    *)
(* of forms and all batch-shape pairs; converting to a full matrix must    *)
(* not change the map; vectors ignore the translation.  Property C08.      *)
(***************************************************************************)
EXTENDS RatLA, TLC, Json

Forms == {"T", "A", "H"}
\* an operand: form + content (A: matrix, t: vector); unused part is identity / zero
Full(x, D)  == Aff(IF x.form = "T" THEN MId(D) ELSE x.A, IF x.form = "A" THEN VZero(D) ELSE x.t)
ResultForm(fa, fb) == IF fa = "T" /\ fb = "T" THEN "T" ELSE IF fa = "A" /\ fb = "A" THEN "A" ELSE "H"
\* leading (batch) shapes: "none" (no batch dimension), "one" (1), "many" (N)
ResultBatch(ba, bb) == IF ba = "many" \/ bb = "many" THEN "many" ELSE IF ba = "one" \/ bb = "one" THEN "one" ELSE "none"
Item(x, i) == IF x.batch = "many" THEN x.items[i] ELSE x.items[1]

CONSTANTS Dims, MatsOf(_), VecsOf(_), NBatch, ProbesOf(_), EmitCases
VARIABLES st, a, b
vars == <<st, a, b>>
NoOp == [form |-> "", batch |-> "", items |-> <<>>]
Init == st = 0 /\ a = NoOp /\ b = NoOp

PickA == st = 0 /\ \E D \in Dims, f \in Forms, bt \in {"none", "one", "many"} :
             \E A1 \in MatsOf(D), A2 \in MatsOf(D), t1 \in VecsOf(D), t2 \in VecsOf(D) :
                 /\ (bt # "many" => (A2 = A1 /\ t2 = t1))
                 /\ A1 # A2 \/ bt # "many"
                 /\ a' = [form |-> f, batch |-> bt, items |-> <<[form |-> f, A |-> A1, t |-> t1], [form |-> f, A |-> A2, t |-> t2]>>]
                 /\ st' = 1 /\ UNCHANGED b
PickB == st = 1 /\ \E f \in Forms, bt \in {"none", "one", "many"} :
             LET D == Len(a.items[1].t) IN
             \E A1 \in MatsOf(D), t1 \in VecsOf(D) :
                 /\ b' = [form |-> f, batch |-> bt,
                          items |-> <<[form |-> f, A |-> A1, t |-> t1], [form |-> f, A |-> MT(A1), t |-> VNeg(t1)]>>]
                 /\ st' = 2 /\ UNCHANGED a
Next == PickA \/ PickB
Spec == Init /\ [][Next]_vars

Dm == Len(a.items[1].t)
Prod(i) == AffComp(Full(Item(a, i), Dm), Full(Item(b, i), Dm))
Laws ==
    st = 2 =>
        \A i \in 1..NBatch : \A p \in {ProbesOf(Dm)[k] : k \in 1..Len(ProbesOf(Dm))} :
            /\ AffApply(Prod(i), p) = AffApply(Full(Item(a, i), Dm), AffApply(Full(Item(b, i), Dm), p))
            /\ AffLin(Prod(i), p) = AffLin(Full(Item(a, i), Dm), AffLin(Full(Item(b, i), Dm), p))
            \* the result form is large enough to hold the product exactly
            /\ ResultForm(a.form, b.form) = "T" => Prod(i).A = MId(Dm)
            /\ ResultForm(a.form, b.form) = "A" => Prod(i).t = VZero(Dm)
Emit == (EmitCases /\ st = 2) =>
    PrintT(ToJson([a |-> a, b |-> b, D |-> Dm, form |-> ResultForm(a.form, b.form), batch |-> ResultBatch(a.batch, b.batch),
                   prod |-> E([i \in 1..NBatch |-> AffHom(Prod(i))]),
                   P |-> ProbesOf(Dm),
                   pts |-> E([i \in 1..NBatch |-> E([k \in 1..Len(ProbesOf(Dm)) |-> AffApply(Prod(i), ProbesOf(Dm)[k])])]),
                   vecs |-> E([i \in 1..NBatch |-> E([k \in 1..Len(ProbesOf(Dm)) |-> AffLin(Prod(i), ProbesOf(Dm)[k])])])]))
=============================================================================
