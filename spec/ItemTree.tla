------------------------------ MODULE ItemTree ------------------------------
(***************************************************************************)
(* ItemTransform (data/transforms/item.py) - beyond the listed properties:   *)
(* "transform only the specified item of a dict, named tuple, tuple, list or *)
(* dataclass".  A data object is a tree: a function from paths (sequences of *)
(* keys) to nodes (container kind, leaf value, None, or absent).  The result *)
(* of applying a leaf function at a key path is defined on the tree; laws:   *)
(* nothing outside the addressed subtree changes (frame), container kinds    *)
(* are preserved, the 'meta' entries of mappings/dataclasses are kept when   *)
(* ignore_meta, and the INPUT is never modified.                             *)
(***************************************************************************)
EXTENDS Integers, Sequences, FiniteSets, TLC, Json

CONSTANTS Trees,        \* set of [name, node]: node = function from paths to node values
          KeyPaths,     \* set of key paths (sequences of strings); <<>> = all items
          EmitCases
Kinds == {"dict", "list", "tuple", "dc", "nt"}
N(k, v) == [k |-> k, v |-> v]          \* node: kind "dict" | "list" | "tuple" | "dc" | "nt" | "none" | "leaf" | "absent", leaf value
IsLeaf(n) == n.k = "leaf"
IsPrefix(q, p) == Len(q) <= Len(p) /\ SubSeq(p, 1, Len(q)) = q
Digits == {"0", "1", "2"}
F(n) == N("leaf", n.v + 100)                        \* the leaf transformation

NodeAt(t, p) == IF p \in DOMAIN t THEN t[p].k ELSE "absent"
\* outcome of resolving path p step by step: "ok" or the class of the error
RECURSIVE ResolveFrom(_, _, _)
ResolveFrom(t, p, k) ==
    IF k > Len(p) THEN "ok"
    ELSE LET parent == NodeAt(t, SubSeq(p, 1, k - 1))  child == NodeAt(t, SubSeq(p, 1, k)) IN
         IF parent \in {"list", "tuple"} THEN
              (IF p[k] \notin Digits THEN "AttributeError" ELSE IF child = "absent" THEN "IndexError" ELSE ResolveFrom(t, p, k + 1))
         ELSE IF parent \in {"dc", "nt"} THEN (IF child = "absent" THEN "AttributeError" ELSE ResolveFrom(t, p, k + 1))
         ELSE IF parent = "dict" THEN (IF child = "absent" THEN "KeyError" ELSE ResolveFrom(t, p, k + 1))
         ELSE "TypeError"                              \* a leaf or None has no items
Resolve(t, p) == ResolveFrom(t, p, 1)
\* is path q (below the addressed path p) shielded by a 'meta' entry of a mapping or dataclass?
UnderMeta(t, p, q) == \E k \in (Len(p) + 1)..Len(q) : q[k] = "meta" /\ NodeAt(t, SubSeq(q, 1, k - 1)) \in {"dict", "dc"}
Touched(t, p, ignoreMeta) == {q \in DOMAIN t : IsPrefix(p, q) /\ (IsLeaf(t[q]) \/ t[q].k = "none") /\ ~(ignoreMeta /\ UnderMeta(t, p, q))}
Outcome(t, p, ignoreMeta, ignoreMissing) ==
    IF Resolve(t, p) # "ok" THEN Resolve(t, p)
    ELSE IF ~ignoreMissing /\ \E q \in Touched(t, p, ignoreMeta) : t[q].k = "none" THEN "ValueError"
    ELSE "ok"
Apply(t, p, ignoreMeta) == [q \in DOMAIN t |-> IF q \in Touched(t, p, ignoreMeta) /\ IsLeaf(t[q]) THEN F(t[q]) ELSE t[q]]

VARIABLES st, ca
vars == <<st, ca>>
Init == st = 0 /\ ca = [kind |-> ""]
Pick == st = 0 /\ \E tr \in Trees, p \in KeyPaths, im \in BOOLEAN, ig \in BOOLEAN, cp \in BOOLEAN :
           ca' = [kind |-> "apply", name |-> tr.name, t |-> tr.node, p |-> p, ignore_meta |-> im, ignore_missing |-> ig, copy |-> cp] /\ st' = 1
Spec == Init /\ [][Pick]_vars

Laws == st = 1 =>
    LET t == ca.t  p == ca.p  out == Apply(t, p, ca.ignore_meta) IN
    /\ DOMAIN out = DOMAIN t
    \* frame: nothing outside the addressed subtree changes; containers keep their kind; None stays None
    /\ \A q \in DOMAIN t : (~IsPrefix(p, q) \/ ~IsLeaf(t[q])) => out[q] = t[q]
    \* every leaf below the path is transformed exactly once, unless shielded by 'meta'
    /\ \A q \in DOMAIN t : (IsPrefix(p, q) /\ IsLeaf(t[q]) /\ ~UnderMeta(t, p, q)) => out[q] = F(t[q])
    /\ \A q \in DOMAIN t : (IsPrefix(p, q) /\ IsLeaf(t[q]) /\ UnderMeta(t, p, q)) => out[q] = (IF ca.ignore_meta THEN t[q] ELSE F(t[q]))
    \* applying at two disjoint paths commutes
    /\ \A p2 \in KeyPaths : (~IsPrefix(p, p2) /\ ~IsPrefix(p2, p)) =>
           Apply(Apply(t, p, ca.ignore_meta), p2, ca.ignore_meta) = Apply(Apply(t, p2, ca.ignore_meta), p, ca.ignore_meta)

PathsJson(t) == {[path |-> q, k |-> t[q].k, v |-> t[q].v] : q \in DOMAIN t}
Emit == (EmitCases /\ st = 1) =>
    PrintT(ToJson([name |-> ca.name, p |-> ca.p, ignore_meta |-> ca.ignore_meta, ignore_missing |-> ca.ignore_missing, copy |-> ca.copy,
                   outcome |-> Outcome(ca.t, ca.p, ca.ignore_meta, ca.ignore_missing),
                   tree |-> PathsJson(ca.t), out |-> PathsJson(Apply(ca.t, ca.p, ca.ignore_meta))]))
=============================================================================
