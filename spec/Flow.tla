-------------------------------- MODULE Flow --------------------------------
(***************************************************************************)
(* Flow fields (core/flow.py, data/flow.py, modules/flow.py) on the family *)
(* where everything is exact: vector fields that are AFFINE functions of   *)
(* the normalised cube position, v(x) = A x + t.  Linear interpolation     *)
(* reproduces them exactly inside the hull of the sample centres, so       *)
(* scaling-and-squaring (C11), composition, the Lie bracket and the BCH    *)
(* formula (C13) and the change of vector representation (C10) have exact  *)
(* rational answers.                                                       *)
(***************************************************************************)
EXTENDS GridDefs

D_(f) == Len(f.t)
\* ------------------------------------------------------------------ sample lattice of a shape (cube coordinates)
Lim(n, ac) == E([i \in 1..Len(n) |-> IF ac THEN One ELSE RSub(One, R(1, n[i]))])   \* hull of the sample centres
InHullC(n, ac, p) == \A i \in 1..Len(n) : RLe(RAbs(p[i]), Lim(n, ac)[i])
Points(n, ac) ==    \* all sample positions
    IF Len(n) = 2 THEN {<<Coord(n[1], ac, a), Coord(n[2], ac, b)>> : a \in 0..(n[1] - 1), b \in 0..(n[2] - 1)}
    ELSE {<<Coord(n[1], ac, a), Coord(n[2], ac, b), Coord(n[3], ac, c)>> : a \in 0..(n[1] - 1), b \in 0..(n[2] - 1), c \in 0..(n[3] - 1)}
\* for an affine map the extreme points of the lattice are its corners
Corners(n, ac) == LET L == Lim(n, ac) IN
    IF Len(n) = 2 THEN {<<RMul(RI(a), L[1]), RMul(RI(b), L[2])>> : a \in {-1, 1}, b \in {-1, 1}}
    ELSE {<<RMul(RI(a), L[1]), RMul(RI(b), L[2]), RMul(RI(c), L[3])>> : a \in {-1, 1}, b \in {-1, 1}, c \in {-1, 1}}
\* id + d maps the hull into itself (affine map of a box: enough to test the corners)
KeepsHull(d, n, ac) == \A p \in Corners(n, ac) : InHullC(n, ac, VAdd(p, AffApply(d, p)))

\* ------------------------------------------------------------------ C11: scaling and squaring
Pow2Tab == <<2, 4, 8, 16, 32, 64, 128, 256>>
P2(k) == IF k = 0 THEN 1 ELSE Pow2Tab[k]
ScaleF(f, a) == Aff(MScale(a, f.A), VScale(a, f.t))
\* one squaring step d |-> d + d o (id + d)
SqStep(d) == Aff(MAdd(MScale(Two, d.A), MMul(d.A, d.A)), MVec(MAdd(MScale(Two, MId(D_(d))), d.A), d.t))
RECURSIVE SqIter(_, _)
SqIter(d, k) == IF k = 0 THEN d ELSE SqIter(SqStep(d), k - 1)
ExpAffine(v, s, k) == SqIter(ScaleF(v, RDiv(s, RI(P2(k)))), k)
\* every intermediate field keeps the hull invariant, so no sample is ever taken outside (no padding involved)
RECURSIVE ExpInvariantFrom(_, _, _, _)
ExpInvariantFrom(d, k, n, ac) == IF k = 0 THEN TRUE ELSE KeepsHull(d, n, ac) /\ ExpInvariantFrom(SqStep(d), k - 1, n, ac)
ExpInvariant(v, s, k, n, ac) == ExpInvariantFrom(ScaleF(v, RDiv(s, RI(P2(k)))), k, n, ac)
RECURSIVE MatPow(_, _)
MatPow(M, e) == IF e = 0 THEN MId(Len(M)) ELSE MMul(M, MatPow(M, e - 1))
ClosedForm(v, s, k) ==   \* I + D_k = (I + s H / 2^k)^(2^k)
    MAdd(MId(D_(v)), ExpAffine(v, s, k).A) = MatPow(MAdd(MId(D_(v)), MScale(RDiv(s, RI(P2(k))), v.A)), P2(k))

\* ------------------------------------------------------------------ C13: composition, Lie bracket, BCH
\* compose_flows(u, v) = u + v o (id + u)
Compose(u, v) == Aff(MAdd(MAdd(u.A, v.A), MMul(v.A, u.A)), VAdd(VAdd(u.t, v.t), MVec(v.A, u.t)))
ZeroF(D) == Aff(MZero(D), VZero(D))
\* [v, u] = Jv u - Ju v.  The field is a function of the cube position, whose samples are c_j apart; a derivative
\* "per sample" divided by the given spacing sp_j therefore is H diag(c_j / sp_j)  (= H when sp is the cube spacing).
\* The spacing argument of this module is the RATIO c_j / sp_j.
Jac(f, sp) == MMul(f.A, MDiag(sp))
Bracket(v, u, sp) == Aff(MSub(MMul(Jac(v, sp), u.A), MMul(Jac(u, sp), v.A)), VSub(MVec(Jac(v, sp), u.t), MVec(Jac(u, sp), v.t)))
AddF(f, g) == Aff(MAdd(f.A, g.A), VAdd(f.t, g.t))
\* Baker-Campbell-Hausdorff series for log(exp(v) o exp(u)), truncated after `terms` bracket terms
BCH(u, v, terms, sp) ==
    LET vu   == Bracket(v, u, sp)
        vvu  == Bracket(v, vu, sp)
        uvu  == Bracket(u, vu, sp)
        uvvu == Bracket(u, vvu, sp)
        vuvu == Bracket(v, uvu, sp)
        T(k, f) == IF terms >= k THEN f ELSE ZeroF(D_(u)) IN
    AddF(AddF(AddF(AddF(AddF(AddF(u, v), T(1, ScaleF(vu, Half))), T(2, ScaleF(vvu, R(1, 12)))), T(3, ScaleF(uvu, R(-1, 12)))),
              T(4, ScaleF(uvvu, R(-1, 48)))), T(5, ScaleF(vuvu, R(-1, 48))))

\* logv(F): fixed-point iteration v <- v + exp(-v) o F (zero BCH correction terms), started at v = F.  On affine
\* flows every iterate is an exact affine expression (away from the border, where the expanding exp(-v) is padded).
LogvStep(F, v, k) == AddF(v, Compose(F, ExpAffine(v, RI(-1), k)))
RECURSIVE LogvIter(_, _, _, _)
LogvIter(F, v, k, it) == IF it = 0 THEN v ELSE LogvIter(F, LogvStep(F, v, k), k, it - 1)
Logv(F, k, it) == LogvIter(F, F, k, it)

\* ------------------------------------------------------------------ C10: vector representations
\* a flow field MEANS a world-space vector field; its components with respect to (grid g, axes a):
Rep(g, a, w) == MVec(VecMap(g, "world", g, a), w)

\* ------------------------------------------------------------------ enumeration
CONSTANTS Shapes, Fields(_), Scales, Steps, Terms, RepGrids(_), WorldVecs(_), EmitCases
VARIABLES st, ca
vars == <<st, ca>>
NoCase == [kind |-> ""]
Init == st = 0 /\ ca = NoCase
PickExp == st = 0 /\ \E n \in Shapes, ac \in BOOLEAN, s \in Scales, k \in Steps : \E v \in Fields(Len(n)) :
              /\ ExpInvariant(v, s, k, n, ac)
              /\ ca' = [kind |-> "exp", n |-> n, ac |-> ac, v |-> v, s |-> s, k |-> k] /\ st' = 1
PickCompose == st = 0 /\ \E n \in Shapes, ac \in BOOLEAN : \E u \in Fields(Len(n)), v \in Fields(Len(n)) :
              /\ KeepsHull(u, n, ac)
              /\ ca' = [kind |-> "compose", n |-> n, ac |-> ac, u |-> u, v |-> v] /\ st' = 1
PickBCH == st = 0 /\ \E n \in Shapes : \E u \in Fields(Len(n)), v \in Fields(Len(n)) :
              /\ u # v
              /\ ca' = [kind |-> "bch", n |-> n, u |-> u, v |-> v] /\ st' = 1
PickRep == st = 0 /\ \E D \in {2, 3} : \E g \in RepGrids(D), g2 \in RepGrids(D), w \in WorldVecs(D) :
              /\ g # g2
              /\ ca' = [kind |-> "rep", g |-> g, g2 |-> g2, w |-> w] /\ st' = 1
Next == PickExp \/ PickCompose \/ PickBCH \/ PickRep
Spec == Init /\ [][Next]_vars

\* sample spacing in cube units (what a derivative "per sample" has to be divided by)
CubeSpacing(n, ac) == E([i \in 1..Len(n) |-> IF ac THEN R(2, n[i] - 1) ELSE R(2, n[i])])

Laws ==
    /\ (st = 1 /\ ca.kind = "exp") =>
          /\ ClosedForm(ca.v, ca.s, ca.k)
          /\ ExpAffine(ca.v, ca.s, 0) = ScaleF(ca.v, ca.s)                 \* zero steps: the scaled input
          \* in every squaring step every sample position is mapped inside the hull (so no padding is ever involved)
          /\ \A j \in 0..(ca.k - 1) : \A p \in Points(ca.n, ca.ac) :
                InHullC(ca.n, ca.ac, VAdd(p, AffApply(SqIter(ScaleF(ca.v, RDiv(ca.s, RI(P2(ca.k)))), j), p)))
    /\ (st = 1 /\ ca.kind = "compose") =>
          /\ Compose(ZeroF(D_(ca.u)), ca.v) = ca.v /\ Compose(ca.u, ZeroF(D_(ca.u))) = ca.u     \* two-sided identity
          /\ \A p \in Corners(ca.n, ca.ac) :                                                    \* it is function composition
                VAdd(p, AffApply(Compose(ca.u, ca.v), p)) =
                    LET q == VAdd(p, AffApply(ca.u, p)) IN VAdd(q, AffApply(ca.v, q))
    /\ (st = 1 /\ ca.kind = "bch") =>
          LET sp == VConst(Len(ca.n), One) IN
          /\ Bracket(ca.v, ca.u, sp) = ScaleF(Bracket(ca.u, ca.v, sp), RI(-1))                  \* antisymmetric
          /\ Bracket(AddF(ca.v, ca.v), ca.u, sp) = ScaleF(Bracket(ca.v, ca.u, sp), Two)          \* bilinear
          /\ Bracket(ca.v, ca.v, sp) = ZeroF(D_(ca.v))
          \* Jacobi identity: the two fourth-order terms coincide
          /\ Bracket(ca.u, Bracket(ca.v, Bracket(ca.v, ca.u, sp), sp), sp) = Bracket(ca.v, Bracket(ca.u, Bracket(ca.v, ca.u, sp), sp), sp)
          \* commuting fields: BCH is the sum at every order
          /\ (Bracket(ca.v, ca.u, sp) = ZeroF(D_(ca.v))) => \A t \in Terms : BCH(ca.u, ca.v, t, sp) = AddF(ca.u, ca.v)
    /\ (st = 1 /\ ca.kind = "rep") =>
          \A a \in AxesSet, b \in AxesSet :
              MVec(VecMap(ca.g, a, ca.g, b), Rep(ca.g, a, ca.w)) = Rep(ca.g, b, ca.w)           \* invertible, path independent

Emit == (EmitCases /\ st = 1) =>
    CASE ca.kind = "exp" ->
            PrintT(ToJson([kind |-> "exp", n |-> ca.n, ac |-> ca.ac, A |-> ca.v.A, t |-> ca.v.t, s |-> ca.s, k |-> ca.k,
                           EA |-> ExpAffine(ca.v, ca.s, ca.k).A, Et |-> ExpAffine(ca.v, ca.s, ca.k).t,
                           \* the field read as a displacement F: first two logv iterates (only if id + F keeps the hull)
                           logv |-> IF KeepsHull(ca.v, ca.n, ca.ac) /\ ca.s = One
                                    THEN (IF ca.k <= 1 THEN <<AffHom(Logv(ca.v, ca.k, 1)), AffHom(Logv(ca.v, ca.k, 2))>>
                                          ELSE <<AffHom(Logv(ca.v, ca.k, 1))>>)    \* (second iterate exceeds 32-bit rationals for k = 2)
                                    ELSE <<>>]))
      [] ca.kind = "compose" ->
            PrintT(ToJson([kind |-> "compose", n |-> ca.n, ac |-> ca.ac, uA |-> ca.u.A, ut |-> ca.u.t, vA |-> ca.v.A, vt |-> ca.v.t,
                           CA |-> Compose(ca.u, ca.v).A, Ct |-> Compose(ca.u, ca.v).t]))
      [] ca.kind = "bch" ->
            LET sp == VConst(Len(ca.n), One)          \* derivatives with respect to the cube coordinates
                cs == CubeSpacing(ca.n, TRUE) IN      \* derivatives per sample (spacing argument omitted)
            PrintT(ToJson([kind |-> "bch", n |-> ca.n, uA |-> ca.u.A, ut |-> ca.u.t, vA |-> ca.v.A, vt |-> ca.v.t, sp |-> cs,
                           BA |-> Bracket(ca.v, ca.u, sp).A, Bt |-> Bracket(ca.v, ca.u, sp).t,
                           BA1 |-> Bracket(ca.v, ca.u, cs).A, Bt1 |-> Bracket(ca.v, ca.u, cs).t,
                           bch |-> E([k \in 1..6 |-> AffHom(BCH(ca.u, ca.v, k - 1, sp))])]))
      [] ca.kind = "rep" ->
            PrintT(ToJson([kind |-> "rep", g |-> ca.g, g2 |-> ca.g2, w |-> ca.w,
                           reps |-> [a \in AxesSet |-> Rep(ca.g, a, ca.w)], reps2 |-> [a \in AxesSet |-> Rep(ca.g2, a, ca.w)]]))
=============================================================================
