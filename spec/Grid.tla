------------------------------- MODULE Grid -------------------------------
(***************************************************************************)
(* Enumeration state machine over the grid configuration lattice and the   *)
(* 16 x 2 x (1 + others) coordinate-map queries; every leaf is checked     *)
(* against the laws of GridDefs and emitted as one implementation test.    *)
(* Properties C01 (coordinate systems) and C02 (ITK convention).           *)
(***************************************************************************)
EXTENDS GridDefs

(* ---- enumeration state machine ---- *)
CONSTANTS Dims,          \* subset of {2, 3}
          RotsOf(_),     \* D -> set of direction matrices
          SizesOf(_),    \* D -> set of size vectors (integers)
          SpacingsOf(_), \* D -> set of spacing vectors
          CentersOf(_),  \* D -> set of centre vectors
          OthersOf(_),   \* D -> set of second grids
          ProbesOf(_),   \* D -> sequence of probe points
          Pairs,         \* set of <<axes, to_axes>> to emit
          EmitCases      \* BOOLEAN

VARIABLES st, g, q
vars == <<st, g, q>>

NoGrid == [n |-> <<>>, h |-> <<>>, c |-> <<>>, R |-> <<>>, ac |-> FALSE]
NoQuery == [a |-> "", b |-> "", g2 |-> NoGrid, vec |-> FALSE]

Init == st = 0 /\ g = NoGrid /\ q = NoQuery

PickRot  == /\ st = 0 /\ \E D \in Dims : \E M \in RotsOf(D) : g' = [g EXCEPT !.R = M]
            /\ st' = 1 /\ UNCHANGED q
PickSize == /\ st = 1 /\ \E n \in SizesOf(Len(g.R)) : g' = [g EXCEPT !.n = n]
            /\ st' = 2 /\ UNCHANGED q
PickSpacing == /\ st = 2 /\ \E h \in SpacingsOf(Len(g.R)) : g' = [g EXCEPT !.h = h]
               /\ st' = 3 /\ UNCHANGED q
PickCenter == /\ st = 3 /\ \E c \in CentersOf(Len(g.R)), ac \in BOOLEAN : g' = [g EXCEPT !.c = c, !.ac = ac]
              /\ st' = 4 /\ UNCHANGED q
PickQuery == /\ st = 4
             /\ \E p \in Pairs, vec \in BOOLEAN, g2 \in OthersOf(GDim(g)) \cup {NoGrid} :
                    q' = [a |-> p[1], b |-> p[2], g2 |-> g2, vec |-> vec]
             /\ st' = 5 /\ UNCHANGED g

Next == PickRot \/ PickSize \/ PickSpacing \/ PickCenter \/ PickQuery
Spec == Init /\ [][Next]_vars

Target(gg, qq) == IF qq.g2 = NoGrid THEN gg ELSE qq.g2

\* ---- invariants ----
GridLaws ==
    st = 4 => /\ IsOrthogonal(g.R)
              /\ Anchors(g)
              /\ RoundTrip(g, g)
              /\ PathIndependent(g, g)
              /\ CoordsLaw(g)
              /\ ItkLaws(g, {ProbesOf(GDim(g))[i] : i \in 1..Len(ProbesOf(GDim(g)))})
\* lattice quality, not a law of grids: on the QUICK lattice every grid tells all 16 maps apart, so that a replayed case cannot
\* pass with a confused pair of axes.  The thorough lattice deliberately contains symmetric grids (e.g. a 180 degree rotation about
\* the origin with unit spacing, where grid->world is its own inverse), for which this cannot hold.
DiscInv == st = 4 => Discriminates(g)
ItkInv ==
    st = 4 => /\ IsOrthogonal(g.R)
              /\ ItkLaws(g, {ProbesOf(GDim(g))[i] : i \in 1..Len(ProbesOf(GDim(g)))})
PairLaws ==
    (st = 5 /\ q.g2 # NoGrid /\ q.a = "grid" /\ q.b = "grid" /\ ~q.vec) =>
        /\ RoundTrip(g, q.g2)
        /\ PathIndependent(g, q.g2)
VecLaw ==
    st = 5 => LET f == Map(g, q.a, Target(g, q), q.b)  D == GDim(g) IN
              \A i \in 1..D :  \* vectors = differences of points
                  MVec(VecMap(g, q.a, Target(g, q), q.b), Unit(D, i, One))
                    = VSub(AffApply(f, Unit(D, i, One)), AffApply(f, VZero(D)))

\* ---- emission of one implementation test per leaf ----
CaseOf(gg, qq) ==
    LET f == Map(gg, qq.a, Target(gg, qq), qq.b)
        P == ProbesOf(GDim(gg))
    IN [g   |-> gg, a |-> qq.a, b |-> qq.b, vec |-> qq.vec,
        g2  |-> IF qq.g2 = NoGrid THEN <<>> ELSE <<qq.g2>>,
        M   |-> IF qq.vec THEN f.A ELSE AffHom(f),
        P   |-> P,
        Q   |-> E([i \in 1..Len(P) |-> IF qq.vec THEN MVec(f.A, P[i]) ELSE AffApply(f, P[i])]),
        hdr |-> [origin |-> Origin(gg), dir |-> FlatDir(HeaderOf(gg))]]
\* one record per grid: normalised sample lattice, ITK header and ITK maps of the probe points
GridCaseOf(gg) ==
    LET D == GDim(gg)  P == ProbesOf(D)  hd == HeaderOf(gg) IN
    [kind |-> "grid", g |-> gg,
     hdr  |-> [size |-> hd.size, origin |-> hd.origin, spacing |-> hd.spacing, dir |-> FlatDir(hd)],
     coords |-> [t |-> E([i \in 1..D |-> E([k \in 1..gg.n[i] |-> Coord(gg.n[i], TRUE, k - 1)])]),
                 f |-> E([i \in 1..D |-> E([k \in 1..gg.n[i] |-> Coord(gg.n[i], FALSE, k - 1)])])],
     P    |-> P,
     phys |-> E([i \in 1..Len(P) |-> ItkPhys(hd, P[i])]),      \* probes read as continuous indices
     index |-> E([i \in 1..Len(P) |-> ItkIndex(hd, P[i])])]    \* probes read as physical points
Emit == /\ (EmitCases /\ st = 5) => PrintT(ToJson([kind |-> "map"] @@ CaseOf(g, q)))
        /\ (EmitCases /\ st = 4) => PrintT(ToJson(GridCaseOf(g)))
=============================================================================
