------------------------- MODULE MC_TransformState -------------------------
EXTENDS TransformState
\* grids a dense (displacement / velocity) model can be moved to: same domain other size, the same grid with the
\* other align_corners convention, and a grid with another domain
GridsDense  == <<"G", "G2", "Gac", "Gother">>
GridsDenseQ == <<"G", "G2", "Gac">>
\* spline models: the control grid can be refined by moving to the 2n-1 grid of the same domain
GridsSpline == <<"G", "Gfine">>
\* composites (Kind = "SEQ": a sequential composite of two predicted displacement fields) stay on their grid
GridsOne == <<"G">>
=============================================================================
