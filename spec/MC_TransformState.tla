------------------------- MODULE MC_TransformState -------------------------
EXTENDS TransformState
\* grids a dense (displacement / velocity) model can be moved to: same domain other sizes, the same grid with the
\* other align_corners convention.  (Moving to a grid with ANOTHER domain resamples and re-orients the field; that is
\* the subject of C10 - the version encoding of the conformance harness cannot follow it, so it is not in this lattice.)
GridsDense  == <<"G", "G2", "Gac", "G3">>
GridsDenseQ == <<"G", "G2", "Gac">>
\* spline models: the control grid can be refined by moving to the 2n-1 grid of the same domain
GridsSpline == <<"G", "Gfine">>
\* composites (Kind = "SEQ": a sequential composite of two predicted displacement fields) stay on their grid
GridsOne == <<"G">>
=============================================================================
