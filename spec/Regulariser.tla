----------------------------- MODULE Regulariser -----------------------------
(***************************************************************************)
(* Deformation regularisers (losses/functional.py, losses/flow.py,         *)
(* losses/bspline.py) as exact expressions of the analytic derivatives of  *)
(* Deriv.tla on polynomial fields, the conversion table between pairs of   *)
(* elastic constants, and the inverse-consistency error of affine pairs.   *)
(* Property C17.                                                           *)
(***************************************************************************)
EXTENDS Deriv

SumC(F(_), D) == RSumSeq(E([c \in 1..D |-> F(c)]))
\* energies per sample (reduction = "none") at position p
Bending(fld) ==      \* sum of squared second derivatives (mixed ones count twice): constant for quadratic fields
    RSumSeq(E([c \in 1..Len(fld) |-> RSumSeq(E([j \in 1..Len(fld) |-> RSumSeq(E([l \in 1..Len(fld) |-> RSq(D2(fld[c].Q, j, l))]))]))]))
Curvature(fld) ==    \* 1/2 sum_c (Laplacian of component c)^2
    RMul(Half, RSumSeq(E([c \in 1..Len(fld) |-> RSq(RSumSeq(E([j \in 1..Len(fld) |-> D2(fld[c].Q, j, j)])))])))
SqGrad(fld, p) == LET J == Jacobian(fld, p) IN
    RSumSeq(E([c \in 1..Len(fld) |-> RSumSeq(E([j \in 1..Len(fld) |-> RSq(J[c][j])]))]))
\* sum_ij |J_ij|^3 and sum_ij J_ij^4 (grad_loss with p = 3 / p = 4, q = 1): odd powers take the ABSOLUTE value first
CubGrad(fld, p) == LET J == Jacobian(fld, p) IN
    RSumSeq(E([c \in 1..Len(fld) |-> RSumSeq(E([j \in 1..Len(fld) |-> RMul(RAbs(J[c][j]), RSq(J[c][j]))]))]))
QuartGrad(fld, p) == LET J == Jacobian(fld, p) IN
    RSumSeq(E([c \in 1..Len(fld) |-> RSumSeq(E([j \in 1..Len(fld) |-> RSq(RSq(J[c][j]))]))]))
SumGrad(fld, p) == LET J == Jacobian(fld, p) IN       \* plain sum of the partial derivatives (p = 0)
    RSumSeq(E([c \in 1..Len(fld) |-> RSumSeq(E([j \in 1..Len(fld) |-> J[c][j]]))]))
AbsGrad(fld, p) == LET J == Jacobian(fld, p) IN
    RSumSeq(E([c \in 1..Len(fld) |-> RSumSeq(E([j \in 1..Len(fld) |-> RAbs(J[c][j])]))]))
Diffusion(fld, p) == RMul(Half, SqGrad(fld, p))
DivLoss(fld, p) == RMul(Half, RSq(Divergence(fld, p)))
TV(fld, p) == AbsGrad(fld, p)
Elasticity(fld, p, lam, mu) == LET J == Jacobian(fld, p)  D == Len(fld) IN
    RAdd(RMul(RDiv(lam, Two), RSq(Divergence(fld, p))),
         RMul(RDiv(mu, RI(4)), RSumSeq(E([j \in 1..D |-> RSumSeq(E([k \in 1..D |-> RSq(RAdd(J[j][k], J[k][j]))]))]))))

\* ---- elastic constants: from the Lame parameters (lam, mu) every other constant follows
Youngs(lam, mu) == RDiv(RMul(mu, RAdd(RMul(RI(3), lam), RMul(Two, mu))), RAdd(lam, mu))
Poisson(lam, mu) == RDiv(lam, RMul(Two, RAdd(lam, mu)))
LameTable == {<<One, One>>, <<RI(2), R(1,2)>>, <<R(3,2), RI(3)>>, <<R(1,4), R(5,2)>>}
LameLaws == \A lm \in LameTable :
    LET lam == lm[1]  mu == lm[2]  Ey == Youngs(lam, mu)  nu == Poisson(lam, mu) IN
    /\ RDiv(RMul(nu, Ey), RMul(RAdd(One, nu), RSub(One, RMul(Two, nu)))) = lam          \* (nu, E) -> lam
    /\ RDiv(Ey, RMul(Two, RAdd(One, nu))) = mu                                            \* (nu, E) -> mu
    /\ RDiv(RMul(RMul(Two, mu), nu), RSub(One, RMul(Two, nu))) = lam                     \* (mu, nu) -> lam
    /\ RDiv(RMul(mu, RSub(Ey, RMul(Two, mu))), RSub(RMul(RI(3), mu), Ey)) = lam          \* (mu, E) -> lam
    /\ RDiv(RMul(lam, RSub(One, RMul(Two, nu))), RMul(Two, nu)) = mu                     \* (lam, nu) -> mu
    \* (lam, E) -> mu = (E - 3 lam + R) / 4  with  R^2 = E^2 + 9 lam^2 + 2 E lam
    /\ LET Rr == RAdd(RSub(RMul(RI(4), mu), Ey), RMul(RI(3), lam)) IN
       RSq(Rr) = RAdd(RAdd(RSq(Ey), RMul(RI(9), RSq(lam))), RMul(Two, RMul(Ey, lam)))

\* ---- inverse consistency of affine pairs in cube coordinates: error(x) = inv(fwd(x)) - x
IcErr(f, g) == LET h == AffComp(g, f) IN Aff(MSub(h.A, MId(Len(h.t))), h.t)
UnitFactor(n, h, ac, units) ==   \* cube -> requested unit, per axis
    E([i \in 1..Len(n) |->
        LET vox == IF ac THEN R(n[i] - 1, 2) ELSE R(n[i], 2) IN
        IF units = "cube" THEN One ELSE IF units = "voxel" THEN vox ELSE RMul(vox, h[i])])
AffinePairs(D) ==
    IF D = 2 THEN {Aff(<< <<R(9,8), R(1,8)>>, <<R(-1,4), R(7,8)>> >>, <<R(1,8), R(-1,16)>>),
                   Aff(<< <<One, Zero>>, <<Zero, One>> >>, <<R(1,8), R(1,16)>>)}
    ELSE {Aff(<< <<R(9,8), R(1,8), Zero>>, <<R(-1,4), R(7,8), R(1,8)>>, <<Zero, R(-1,8), One>> >>, <<R(1,8), R(-1,16), R(1,16)>>)}
IcLaws == \A D \in {2, 3} : \A f \in AffinePairs(D) : IcErr(f, AffInv(f)) = Aff(MZero(D), VZero(D))

RLaws == st = 1 =>
    /\ LameLaws /\ IcLaws
    \* null spaces: bending and curvature vanish exactly for affine fields; gradient terms for translations
    /\ IsAffine(ca.fld) => Bending(ca.fld) = Zero /\ Curvature(ca.fld) = Zero
    /\ RLe(Zero, Bending(ca.fld)) /\ RLe(Zero, Curvature(ca.fld))
    \* gradient norms are non-negative at every probe
    /\ \A k \in 1..Len(Probes(ca.n)) : LET p == Pos(Probes(ca.n)[k], ca.h) IN RLe(Zero, AbsGrad(ca.fld, p)) /\ RLe(Zero, SqGrad(ca.fld, p))

REmit == (EmitCases /\ st = 1) =>
    LET D == Len(ca.n)  P == Probes(ca.n) IN
    PrintT(ToJson([n |-> ca.n, h |-> ca.h, fld |-> ca.fld, affine |-> IsAffine(ca.fld),
                   bending |-> Bending(ca.fld), curvature |-> Curvature(ca.fld),
                   lame |-> E([k \in 1..4 |-> LET lm == (CHOOSE s \in [1..4 -> LameTable] : \A a \in 1..4, b \in 1..4 : a # b => s[a] # s[b])[k] IN
                                              [lam |-> lm[1], mu |-> lm[2], E |-> Youngs(lm[1], lm[2]), nu |-> Poisson(lm[1], lm[2])]]),
                   ic |-> E([k \in 1..1 |-> LET f == CHOOSE x \in AffinePairs(D) : x.A # MId(D) IN
                            [A |-> f.A, t |-> f.t, invA |-> AffInv(f).A, invt |-> AffInv(f).t,
                             \* a deliberately wrong "inverse": the forward map itself
                             errA |-> IcErr(f, f).A, errt |-> IcErr(f, f).t,
                             voxel_t |-> UnitFactor(ca.n, ca.h, TRUE, "voxel"), voxel_f |-> UnitFactor(ca.n, ca.h, FALSE, "voxel"),
                             world_t |-> UnitFactor(ca.n, ca.h, TRUE, "world"), world_f |-> UnitFactor(ca.n, ca.h, FALSE, "world")]]),
                   probes |-> E([k \in 1..Len(P) |->
                        LET p == Pos(P[k], ca.h) IN
                        [i |-> P[k], diffusion |-> Diffusion(ca.fld, p), divergence |-> DivLoss(ca.fld, p), tv |-> TV(ca.fld, p),
                         sqgrad |-> SqGrad(ca.fld, p), J |-> Jacobian(ca.fld, p),   \* (CubGrad / QuartGrad / SumGrad are evaluated from J by the harness in
                                                                                      \*  unbounded rationals: fourth powers leave TLC's 32-bit integers)
                         elasticity |-> E([q \in 1..2 |-> Elasticity(ca.fld, p, IF q = 1 THEN RI(2) ELSE Zero, IF q = 1 THEN R(1,2) ELSE One)])]])]))
=============================================================================
