---------------------------- MODULE GridCoords ----------------------------
(***************************************************************************)
(* The per-axis normalised sample lattice for ALL n in 1..MaxN and both    *)
(* align_corners conventions (C01: "exactly n of them per axis inside      *)
(* [-1, 1]").  One state per (n, ac); exhaustive over the stated range.    *)
(***************************************************************************)
EXTENDS GridDefs
CONSTANTS MaxN, EmitCases
VARIABLES n, ac
vars == <<n, ac>>

Init == n = 0 /\ ac = FALSE
Next == n = 0 /\ n' \in 1..MaxN /\ ac' \in BOOLEAN
Spec == Init /\ [][Next]_vars

First(m, c) == IF m = 1 THEN Zero ELSE IF c THEN RI(-1) ELSE RAdd(RI(-1), R(1, m))
Step(m, c)  == IF m = 1 THEN Zero ELSE IF c THEN R(2, m - 1) ELSE R(2, m)
Last(m, c)  == IF m = 1 THEN Zero ELSE IF c THEN One ELSE RSub(One, R(1, m))

LatticeLaw ==
    n > 0 =>
        /\ Coord(n, ac, 0) = First(n, ac)
        /\ Coord(n, ac, n - 1) = Last(n, ac)
        /\ \A k \in 0..(n - 1) :
             /\ Coord(n, ac, k) = RAdd(First(n, ac), RMul(RI(k), Step(n, ac)))
             /\ RLe(RI(-1), Coord(n, ac, k)) /\ RLe(Coord(n, ac, k), One)
        \* exactly n: one more step on either side leaves [-1, 1]
        /\ n > 1 => /\ RLt(One, RAdd(Last(n, ac), Step(n, ac)))
                    /\ RLt(RSub(First(n, ac), Step(n, ac)), RI(-1))
        \* symmetric about 0
        /\ \A k \in 0..(n - 1) : Coord(n, ac, k) = RNeg(Coord(n, ac, n - 1 - k))

Emit == (EmitCases /\ n > 0) =>
          PrintT(ToJson([n |-> n, ac |-> ac, first |-> First(n, ac), step |-> Step(n, ac), last |-> Last(n, ac)]))
=============================================================================
