------------------------------- MODULE BSpline -------------------------------
(***************************************************************************)
(* Cubic B-splines (core/bspline.py, core/kernels.py, spatial/bspline.py)  *)
(* from the analytic basis function                                        *)
(*     beta(x) = 2/3 - x^2 + |x|^3/2          for |x| < 1                  *)
(*             = (2 - |x|)^3 / 6              for 1 <= |x| < 2,  else 0.   *)
(* A free-form deformation with control point spacing s (in samples) has   *)
(* control point m at sample position s (m - 1): one control point before  *)
(* and two after the image.  Property C14.                                 *)
(***************************************************************************)
EXTENDS RatLA, TLC, Json

Cube(a) == RMul(a, RMul(a, a))
\* derivative d (0..3) of beta at rational x  (third derivative: right-continuous piecewise constant)
\* third derivative: piecewise constant, taken right-continuous at the knots
Beta3(x) == IF RLt(x, RI(-2)) \/ RLe(Two, x) THEN Zero
            ELSE IF RLt(x, RI(-1)) THEN One ELSE IF RLt(x, Zero) THEN RI(-3) ELSE IF RLt(x, One) THEN RI(3) ELSE RI(-1)
Beta(x, d) ==
    LET t == RAbs(x)  sg == IF RLt(x, Zero) THEN RI(-1) ELSE One IN
    IF d = 3 THEN Beta3(x)
    ELSE IF RLe(Two, t) THEN Zero
    ELSE IF RLt(t, One) THEN
        CASE d = 0 -> RAdd(RSub(R(2, 3), RSq(t)), RDiv(Cube(t), Two))
          [] d = 1 -> RMul(sg, RAdd(RMul(RI(-2), t), RMul(R(3, 2), RSq(t))))
          [] d = 2 -> RAdd(RI(-2), RMul(RI(3), t))
          [] d = 3 -> RMul(sg, RI(3))
    ELSE
        CASE d = 0 -> RDiv(Cube(RSub(Two, t)), RI(6))
          [] d = 1 -> RMul(sg, RNeg(RDiv(RSq(RSub(Two, t)), Two)))
          [] d = 2 -> RSub(Two, t)
          [] d = 3 -> RMul(sg, RI(-1))
\* weights of the 4 neighbouring control points j..j+3 for a sample at offset k/s after control point j+1
\* (derivatives with respect to the control-lattice coordinate)
W(s, d, k, i) == Beta(RSub(R(k, s), RI(i - 1)), d)         \* i = 0..3
WRow(s, d, k) == <<W(s, d, k, 0), W(s, d, k, 1), W(s, d, k, 2), W(s, d, k, 3)>>
WTable(s, d) == E([k \in 1..s |-> WRow(s, d, k - 1)])
\* third derivative at offset 0 is taken from the right: Beta(-0, 3) for the point on the left side convention
\* ---- laws of the basis
PartitionOfUnity(s) == \A k \in 0..(s - 1) : RSumSeq(WRow(s, 0, k)) = One
DerivSumZero(s) == \A d \in 1..2 : \A k \in 0..(s - 1) : RSumSeq(WRow(s, d, k)) = Zero
LinearPrecision(s) == \A k \in 0..(s - 1) :
    /\ RSumSeq(E([i \in 1..4 |-> RMul(WRow(s, 0, k)[i], RI(i - 2))])) = R(k, s)      \* reproduces the position
    /\ RSumSeq(E([i \in 1..4 |-> RMul(WRow(s, 1, k)[i], RI(i - 2))])) = One          \* unit slope per control point
    /\ RSumSeq(E([i \in 1..4 |-> RMul(WRow(s, 2, k)[i], RI(i - 2))])) = Zero

\* ---- control point lattice
NCtrl(m, s) == (m + s - 1) \div s + 3                 \* smallest N with (N - 3) s >= m
CoversImage(m, s) == (NCtrl(m, s) - 3) * s >= m /\ (NCtrl(m, s) - 4) * s < m

\* ---- evaluation (1-D): coefficients c (1-based sequence of rationals), sample p = 0..m-1
Eval(c, s, d, p) == LET j == p \div s  k == p % s IN
    RSumSeq(E([i \in 1..4 |-> RMul(WRow(s, d, k)[i], c[j + i])]))
\* the other algorithm: superposition of scaled kernels centred at the control points (position s (q - 2) for 1-based q)
EvalT(c, s, p) == RSumSeq(E([q \in 1..Len(c) |-> RMul(c[q], Beta(R(p - s * (q - 2), s), 0))]))
EvalAll(c, s, d, m) == E([p \in 1..m |-> Eval(c, s, d, p - 1)])
\* 2-D tensor product: c[y][x] (rows = y), sizes m = <<mx, my>>, strides <<sx, sy>>, derivative orders <<dx, dy>>
Eval2(c, s, d, px, py) ==
    LET jy == py \div s[2]  ky == py % s[2] IN
    RSumSeq(E([i \in 1..4 |-> RMul(WRow(s[2], d[2], ky)[i], Eval(c[jy + i], s[1], d[1], px))]))

\* ---- subdivision of the control lattice (control point spacing halved)
Subdiv(c) == E([q \in 1..(2 * Len(c) - 1) |->
    IF q % 2 = 1 THEN LET m == (q + 1) \div 2 IN
            RAdd(RMul(R(3, 4), c[m]), RMul(R(1, 8), RAdd(IF m > 1 THEN c[m - 1] ELSE Zero, IF m < Len(c) THEN c[m + 1] ELSE Zero)))
    ELSE RMul(Half, RAdd(c[q \div 2], c[q \div 2 + 1]))])
\* spline as a function of the control-lattice coordinate x (control point q, 1-based, sits at x = q)
Spl(c, x, h) == RSumSeq(E([q \in 1..Len(c) |-> RMul(c[q], Beta(RDiv(RSub(x, RMul(RI(q), h)), h), 0))]))
\* after subdivision control point q' sits at (q' + 1) / 2: the function is unchanged between the old points 2 and N-1
SubdivKeeps(c) == LET c2 == Subdiv(c) IN
    \A x4 \in 8..(4 * (Len(c) - 1)) :      \* x = x4 / 4
        Spl(c, R(x4, 4), One) = RSumSeq(E([q \in 1..Len(c2) |-> RMul(c2[q], Beta(RMul(Two, RSub(R(x4, 4), R(q + 1, 2))), 0))]))

CONSTANTS Strides, Derivs, MaxSize, Coeffs, Coeffs2, EmitCases
VARIABLES st, ca
vars == <<st, ca>>
Init == st = 0 /\ ca = [kind |-> ""]
PickW == st = 0 /\ \E s \in Strides, d \in Derivs : ca' = [kind |-> "weights", s |-> s, d |-> d] /\ st' = 1
PickN == st = 0 /\ \E s \in Strides : ca' = [kind |-> "sizes", s |-> s] /\ st' = 1
PickE == st = 0 /\ \E s \in Strides, d \in Derivs, c \in Coeffs : \E m \in 1..IMin(MaxSize, (Len(c) - 3) * s) :
            /\ NCtrl(m, s) = Len(c)
            /\ ca' = [kind |-> "eval", s |-> s, d |-> d, c |-> c, m |-> m] /\ st' = 1
PickE2 == st = 0 /\ \E c \in Coeffs2, sx \in {2, 3}, sy \in {1, 2}, dx \in {0, 1, 2}, dy \in {0, 1, 2} :
            ca' = [kind |-> "eval2", s |-> <<sx, sy>>, d |-> <<dx, dy>>, c |-> c,
                   m |-> <<(Len(c[1]) - 3) * sx - 1, (Len(c) - 3) * sy>>] /\ st' = 1
PickS == st = 0 /\ \E c \in Coeffs : Len(c) >= 4 /\ ca' = [kind |-> "subdiv", c |-> c] /\ st' = 1
Next == PickW \/ PickN \/ PickE \/ PickE2 \/ PickS
Spec == Init /\ [][Next]_vars

RV(c) == E([i \in 1..Len(c) |-> RI(c[i])])
Laws ==
    /\ (st = 1 /\ ca.kind = "weights") => PartitionOfUnity(ca.s) /\ DerivSumZero(ca.s) /\ LinearPrecision(ca.s)
    /\ (st = 1 /\ ca.kind = "sizes") => \A m \in 1..MaxSize : CoversImage(m, ca.s)
    /\ (st = 1 /\ ca.kind = "eval" /\ ca.d = 0) =>
          \A p \in 0..(ca.m - 1) : Eval(RV(ca.c), ca.s, 0, p) = EvalT(RV(ca.c), ca.s, p)       \* the two algorithms agree
    /\ (st = 1 /\ ca.kind = "subdiv") => SubdivKeeps(RV(ca.c))

Emit == (EmitCases /\ st = 1) =>
    CASE ca.kind = "weights" -> PrintT(ToJson([kind |-> "weights", s |-> ca.s, d |-> ca.d, W |-> WTable(ca.s, ca.d),
                                               kernel |-> E([i \in 1..(4 * ca.s - 1) |-> Beta(R(i - 2 * ca.s, ca.s), IF ca.d = 3 THEN 0 ELSE ca.d)])]))
      [] ca.kind = "sizes" -> PrintT(ToJson([kind |-> "sizes", s |-> ca.s, N |-> E([m \in 1..MaxSize |-> NCtrl(m, ca.s)])]))
      [] ca.kind = "eval" -> PrintT(ToJson([kind |-> "eval", s |-> ca.s, d |-> ca.d, c |-> ca.c, m |-> ca.m,
                                            f |-> EvalAll(RV(ca.c), ca.s, ca.d, ca.m)]))
      [] ca.kind = "eval2" -> PrintT(ToJson([kind |-> "eval2", s |-> ca.s, d |-> ca.d, c |-> ca.c, m |-> ca.m,
                                             f |-> E([py \in 1..ca.m[2] |-> E([px \in 1..ca.m[1] |->
                                                      Eval2(E([r \in 1..Len(ca.c) |-> RV(ca.c[r])]), ca.s, ca.d, px - 1, py - 1)])])]))
      [] ca.kind = "subdiv" -> PrintT(ToJson([kind |-> "subdiv", c |-> ca.c, c2 |-> Subdiv(RV(ca.c))]))
=============================================================================
