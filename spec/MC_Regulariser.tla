--------------------------- MODULE MC_Regulariser ---------------------------
EXTENDS Regulariser
C_(k, L, Q) == [k |-> k, L |-> L, Q |-> Q]
Z2 == << <<Zero, Zero>>, <<Zero, Zero>> >>
Z3 == << <<Zero, Zero, Zero>>, <<Zero, Zero, Zero>>, <<Zero, Zero, Zero>> >>
QShapes == {<<7, 6>>, <<8, 8>>, <<6, 7, 8>>}
QSpacings(D) == IF D = 2 THEN {<<One, One>>, <<R(1,2), R(3,2)>>} ELSE {<<One, R(1,2), Two>>}
QFields(D) ==
    IF D = 2 THEN
        {<<C_(One, <<RI(2), RI(-1)>>, Z2), C_(RI(-2), <<R(1,2), RI(3)>>, Z2)>>,
         <<C_(R(1,2), <<Zero, Zero>>, Z2), C_(RI(-1), <<Zero, Zero>>, Z2)>>,                             \* translation
         <<C_(Zero, <<One, Zero>>, << <<R(1,2), RI(-1)>>, <<Zero, R(3,2)>> >>),
           C_(One, <<RI(-1), Two>>, << <<RI(2), R(1,2)>>, <<Zero, RI(-1)>> >>)>>}
    ELSE
        {<<C_(One, <<RI(2), RI(-1), R(1,2)>>, Z3), C_(RI(-2), <<R(1,2), RI(3), One>>, Z3), C_(Zero, <<RI(-1), R(3,2), RI(2)>>, Z3)>>,
         <<C_(Zero, <<One, Zero, RI(-1)>>, << <<R(1,2), RI(-1), One>>, <<Zero, R(3,2), Zero>>, <<Zero, Zero, RI(-1)>> >>),
           C_(One, <<RI(-1), Two, Zero>>, << <<RI(2), R(1,2), Zero>>, <<Zero, RI(-1), One>>, <<Zero, Zero, R(1,2)>> >>),
           C_(RI(-1), <<Zero, One, One>>, << <<One, Zero, R(-1,2)>>, <<Zero, One, Two>>, <<Zero, Zero, One>> >>)>>}
QProbes(n) == IF Len(n) = 2 THEN << <<2, 2>>, <<3, 3>>, <<2, n[2] - 3>>, <<n[1] - 3, n[2] - 3>> >>
              ELSE << <<2, 2, 2>>, <<3, 3, 4>>, <<n[1] - 3, n[2] - 3, n[3] - 3>> >>
\* ---------------------------------------------------------------- thorough lattice
TShapes == {<<7, 6>>, <<8, 8>>, <<9, 6>>, <<6, 11>>, <<6, 7, 8>>, <<6, 6, 7>>, <<7, 6, 6>>}   \* every axis >= 6: probes stay two samples away from every border
TSpacings(D) == IF D = 2 THEN {<<One, One>>, <<R(1,2), R(3,2)>>, <<R(5,4), R(3,4)>>, <<Two, R(1,4)>>}
                ELSE {<<One, R(1,2), Two>>, <<One, One, One>>, <<R(3,2), R(1,4), R(1,2)>>}
TFields(D) == QFields(D) \cup
    (IF D = 2 THEN
        {<<C_(RI(3), <<Zero, Zero>>, << <<One, Zero>>, <<Zero, Zero>> >>), C_(Zero, <<Zero, Zero>>, << <<Zero, One>>, <<Zero, Zero>> >>)>>,       \* pure squares / cross term
         <<C_(R(1,2), <<RI(-3), R(5,2)>>, << <<R(-1,4), Two>>, <<Zero, R(3,4)>> >>), C_(RI(-1), <<R(7,4), RI(-2)>>, << <<R(1,2), RI(-1)>>, <<Zero, R(5,4)>> >>)>>}
     ELSE
        {<<C_(Zero, <<Zero, Zero, Zero>>, << <<One, Zero, Zero>>, <<Zero, Zero, Zero>>, <<Zero, Zero, Zero>> >>),
           C_(Zero, <<Zero, Zero, Zero>>, << <<Zero, One, Zero>>, <<Zero, Zero, Zero>>, <<Zero, Zero, Zero>> >>),
           C_(Zero, <<Zero, Zero, Zero>>, << <<Zero, Zero, Zero>>, <<Zero, Zero, One>>, <<Zero, Zero, Zero>> >>)>>,
         <<C_(R(1,2), <<RI(-3), R(5,2), One>>, << <<R(-1,4), Two, Zero>>, <<Zero, R(3,4), RI(-1)>>, <<Zero, Zero, R(1,2)>> >>),
           C_(RI(-1), <<R(7,4), RI(-2), Zero>>, << <<R(1,2), RI(-1), One>>, <<Zero, R(5,4), Zero>>, <<Zero, Zero, RI(-2)>> >>),
           C_(Two, <<One, One, RI(-1)>>, << <<Zero, R(1,2), R(1,2)>>, <<Zero, RI(-1), One>>, <<Zero, Zero, R(3,4)>> >>)>>})
TProbes(n) == IF Len(n) = 2 THEN << <<2, 2>>, <<3, 3>>, <<2, n[2] - 3>>, <<n[1] - 3, n[2] - 3>>, <<n[1] - 3, 2>>, <<3, 2>> >>
              ELSE << <<2, 2, 2>>, <<3, 3, 2>>, <<n[1] - 3, n[2] - 3, n[3] - 3>>, <<2, n[2] - 3, 2>> >>
=============================================================================
