------------------------------ MODULE RatLA ------------------------------
(***************************************************************************)
(* Vectors and matrices over Rat: vectors are sequences of rationals,      *)
(* matrices are sequences of rows.  Affine maps are records [A, t].        *)
(***************************************************************************)
EXTENDS Rat

\* TLC evaluates [i \in S |-> e] lazily and re-evaluates e at EVERY application (no memoisation),
\* which makes nested vector/matrix expressions exponentially slow.  SubSeq converts the lazy
\* function into an explicit tuple, evaluating each element exactly once.  (TLCEval does not work
\* here: its Java override loses the state context.)
E(v) == SubSeq(v, 1, Len(v))

VDim(v)      == Len(v)
VZero(D)     == E([i \in 1..D |-> Zero])
VConst(D, a) == E([i \in 1..D |-> a])
VAdd(u, v)   == E([i \in 1..Len(u) |-> RAdd(u[i], v[i])])
VSub(u, v)   == E([i \in 1..Len(u) |-> RSub(u[i], v[i])])
VNeg(u)      == E([i \in 1..Len(u) |-> RNeg(u[i])])
VScale(a, u) == E([i \in 1..Len(u) |-> RMul(a, u[i])])
VMulEl(u, v) == E([i \in 1..Len(u) |-> RMul(u[i], v[i])])
VDivEl(u, v) == E([i \in 1..Len(u) |-> RDiv(u[i], v[i])])
VInt(s)      == E([i \in 1..Len(s) |-> RI(s[i])])

RECURSIVE DotFrom(_, _, _)
DotFrom(u, v, i) == IF i > Len(u) THEN Zero ELSE RAdd(RMul(u[i], v[i]), DotFrom(u, v, i + 1))
Dot(u, v) == DotFrom(u, v, 1)

MRows(M) == Len(M)
MCols(M) == Len(M[1])
MId(D)   == E([i \in 1..D |-> E([j \in 1..D |-> IF i = j THEN One ELSE Zero])])
MZero(D) == E([i \in 1..D |-> E([j \in 1..D |-> Zero])])
MDiag(v) == E([i \in 1..Len(v) |-> E([j \in 1..Len(v) |-> IF i = j THEN v[i] ELSE Zero])])
MT(M)    == E([j \in 1..Len(M[1]) |-> E([i \in 1..Len(M) |-> M[i][j]])])
MCol(M, j) == E([i \in 1..Len(M) |-> M[i][j]])
MVec(M, v) == E([i \in 1..Len(M) |-> Dot(M[i], v)])
MMul(A, B) == LET Bt == MT(B) IN E([i \in 1..Len(A) |-> E([j \in 1..Len(Bt) |-> Dot(A[i], Bt[j])])])
MAdd(A, B) == E([i \in 1..Len(A) |-> VAdd(A[i], B[i])])
MSub(A, B) == E([i \in 1..Len(A) |-> VSub(A[i], B[i])])
MScale(a, A) == E([i \in 1..Len(A) |-> VScale(a, A[i])])
MNeg(A)    == E([i \in 1..Len(A) |-> VNeg(A[i])])

Det2(M) == RSub(RMul(M[1][1], M[2][2]), RMul(M[1][2], M[2][1]))
Det3(M) ==
    RAdd(RSub(RMul(M[1][1], RSub(RMul(M[2][2], M[3][3]), RMul(M[2][3], M[3][2]))),
              RMul(M[1][2], RSub(RMul(M[2][1], M[3][3]), RMul(M[2][3], M[3][1])))),
         RMul(M[1][3], RSub(RMul(M[2][1], M[3][2]), RMul(M[2][2], M[3][1]))))
Det(M) == IF Len(M) = 1 THEN M[1][1] ELSE IF Len(M) = 2 THEN Det2(M) ELSE Det3(M)

\* minor / cofactor based inverse for D <= 3
Minor3(M, i, j) ==
    LET r == [k \in 1..2 |-> IF k < i THEN k ELSE k + 1]
        c == [k \in 1..2 |-> IF k < j THEN k ELSE k + 1]
    IN  RSub(RMul(M[r[1]][c[1]], M[r[2]][c[2]]), RMul(M[r[1]][c[2]], M[r[2]][c[1]]))
MInv(M) ==
    LET d == Det(M) IN
    IF Len(M) = 1 THEN <<<<RInv(M[1][1])>>>>
    ELSE IF Len(M) = 2 THEN
        << <<RDiv(M[2][2], d), RDiv(RNeg(M[1][2]), d)>>,
           <<RDiv(RNeg(M[2][1]), d), RDiv(M[1][1], d)>> >>
    ELSE E([i \in 1..3 |-> E([j \in 1..3 |->
            LET m == Minor3(M, j, i) IN
            RDiv(IF (i + j) % 2 = 0 THEN m ELSE RNeg(m), d)])])

IsOrthogonal(M) == MMul(MT(M), M) = MId(Len(M))

\* Affine maps x |-> A x + t
Aff(A, t)      == [A |-> A, t |-> t]
AffId(D)       == Aff(MId(D), VZero(D))
AffApply(f, x) == VAdd(MVec(f.A, x), f.t)
AffLin(f, v)   == MVec(f.A, v)
\* (f o g)(x) = f(g(x))
AffComp(f, g)  == Aff(MMul(f.A, g.A), VAdd(MVec(f.A, g.t), f.t))
AffInv(f)      == LET Ai == MInv(f.A) IN Aff(Ai, VNeg(MVec(Ai, f.t)))
\* D x (D+1) homogeneous form as a sequence of rows
AffHom(f)      == E([i \in 1..Len(f.A) |-> f.A[i] \o <<f.t[i]>>])
=============================================================================
