------------------------------- MODULE Rat -------------------------------
(***************************************************************************)
(* Exact rational arithmetic for TLC.  A rational is a normalised pair     *)
(* <<num, den>> with den > 0 and gcd(|num|, den) = 1.  TLC integers are    *)
(* 32 bit and TLC raises an error on overflow, so an out-of-range case is  *)
(* a loud machinery failure, never a silently wrong expectation.           *)
(***************************************************************************)
EXTENDS Integers, Sequences

RECURSIVE GCD(_, _)
GCD(a, b) == IF b = 0 THEN a ELSE GCD(b, a % b)

IAbs(n) == IF n < 0 THEN -n ELSE n
ISign(n) == IF n < 0 THEN -1 ELSE IF n = 0 THEN 0 ELSE 1
IMax(a, b) == IF a >= b THEN a ELSE b
IMin(a, b) == IF a <= b THEN a ELSE b

\* Normalising constructor; d # 0.
R(n, d) ==
    LET s == IF d < 0 THEN -1 ELSE 1
        g == GCD(IAbs(n), IAbs(d))
    IN  IF n = 0 THEN <<0, 1>> ELSE <<(s * n) \div g, (s * d) \div g>>

RI(n)   == <<n, 1>>
Zero    == <<0, 1>>
One     == <<1, 1>>
Two     == <<2, 1>>
Half    == <<1, 2>>
Num(a)  == a[1]
Den(a)  == a[2]
IsRat(a) == /\ a \in Int \X Int
            /\ a[2] > 0
            /\ GCD(IAbs(a[1]), a[2]) = 1

\* Cross-cancelling keeps intermediates small (fewer spurious overflows).
RAdd(a, b) ==
    IF a[2] = b[2] THEN R(a[1] + b[1], a[2])
    ELSE LET g == GCD(a[2], b[2])
         IN  R(a[1] * (b[2] \div g) + b[1] * (a[2] \div g), (a[2] \div g) * b[2])
RNeg(a)    == <<-a[1], a[2]>>
RSub(a, b) == RAdd(a, RNeg(b))
RMul(a, b) ==
    IF a[1] = 0 \/ b[1] = 0 THEN Zero
    ELSE LET g1 == GCD(IAbs(a[1]), b[2])
             g2 == GCD(IAbs(b[1]), a[2])
         IN  <<(a[1] \div g1) * (b[1] \div g2), (a[2] \div g2) * (b[2] \div g1)>>
RInv(a)    == IF a[1] < 0 THEN <<-a[2], -a[1]>> ELSE <<a[2], a[1]>>   \* a # 0
RDiv(a, b) == RMul(a, RInv(b))
RLt(a, b)  == a[1] * b[2] < b[1] * a[2]
RLe(a, b)  == a[1] * b[2] <= b[1] * a[2]
REq(a, b)  == a = b
RAbs(a)    == <<IAbs(a[1]), a[2]>>
RMax(a, b) == IF RLe(a, b) THEN b ELSE a
RMin(a, b) == IF RLe(a, b) THEN a ELSE b
RSign(a)   == ISign(a[1])
\* floor and ceiling (\div rounds towards minus infinity in TLA+)
RFloor(a)  == a[1] \div a[2]
RCeil(a)   == -((-a[1]) \div a[2])
RIsInt(a)  == a[2] = 1
RSq(a)     == RMul(a, a)

\* |a - b| <= tol
RClose(a, b, tol) == RLe(RAbs(RSub(a, b)), tol)

\* floor(a * 10^6) without leaving 32 bits (needs |a| < 2147 and Den(a) < 2 * 10^6):
\* observed floats are logged as integers in micro-units and compared with exact rationals.
RMicro(a) ==
    LET ip == a[1] \div a[2]
        f  == a[1] % a[2]
        d1 == (f * 1000) \div a[2]
        r1 == (f * 1000) % a[2]
        d2 == (r1 * 1000) \div a[2]
    IN  ip * 1000000 + d1 * 1000 + d2
CloseMicro(k, a, tol) == IAbs(k - RMicro(a)) <= tol

RECURSIVE RPow(_, _)
RPow(a, k) == IF k = 0 THEN One ELSE RMul(a, RPow(a, k - 1))

RECURSIVE RSumSeq(_)
RSumSeq(s) == IF s = <<>> THEN Zero ELSE RAdd(Head(s), RSumSeq(Tail(s)))
=============================================================================
