------------------------------- MODULE Rot -------------------------------
(***************************************************************************)
(* Exact (rational) rotation matrices: planar rotations from Pythagorean   *)
(* (cos, sin) pairs, 3-D rotations from integer quaternions (entries have  *)
(* the squared norm as denominator), signed permutations, and improper     *)
(* variants (one axis flipped).  These give non-axis-aligned, non-symmetric*)
(* geometry with no rounding in the oracle.                                *)
(***************************************************************************)
EXTENDS RatLA

Rot2(c, s) == << <<c, RNeg(s)>>, <<s, c>> >>

\* rational points on the unit circle (cos, sin)
CS_Id   == <<One, Zero>>
CS_90   == <<Zero, One>>
CS_180  == <<RI(-1), Zero>>
CS_270  == <<Zero, RI(-1)>>
CS_3_5  == <<R(3, 5), R(4, 5)>>
CS_4_5n == <<R(4, 5), R(-3, 5)>>
CS_5_13 == <<R(5, 13), R(12, 13)>>
CS_12_13n == <<R(-12, 13), R(5, 13)>>
CS_8_17 == <<R(8, 17), R(-15, 17)>>
CS_7_25 == <<R(7, 25), R(24, 25)>>

CSQuarter == {CS_Id, CS_90, CS_180, CS_270}
CSGeneric == {CS_3_5, CS_4_5n, CS_5_13, CS_12_13n, CS_8_17, CS_7_25}
CSAll     == CSQuarter \cup CSGeneric

Rot2Of(cs) == Rot2(cs[1], cs[2])
FlipX(M)   == E([i \in 1..Len(M) |-> E([j \in 1..Len(M) |-> IF j = 1 THEN RNeg(M[i][j]) ELSE M[i][j]])])

\* Rotation matrix of the (not necessarily unit) quaternion (w, x, y, z), integer components.
QuatMat(q) ==
    LET w == q[1]  x == q[2]  y == q[3]  z == q[4]
        n == w*w + x*x + y*y + z*z
    IN  << <<R(w*w + x*x - y*y - z*z, n), R(2*(x*y - w*z), n), R(2*(x*z + w*y), n)>>,
           <<R(2*(x*y + w*z), n), R(w*w - x*x + y*y - z*z, n), R(2*(y*z - w*x), n)>>,
           <<R(2*(x*z - w*y), n), R(2*(y*z + w*x), n), R(w*w - x*x - y*y + z*z, n)>> >>

\* elementary rotations about the coordinate axes from (cos, sin)
RotX(cs) == << <<One, Zero, Zero>>, <<Zero, cs[1], RNeg(cs[2])>>, <<Zero, cs[2], cs[1]>> >>
RotY(cs) == << <<cs[1], Zero, cs[2]>>, <<Zero, One, Zero>>, <<RNeg(cs[2]), Zero, cs[1]>> >>
RotZ(cs) == << <<cs[1], RNeg(cs[2]), Zero>>, <<cs[2], cs[1], Zero>>, <<Zero, Zero, One>> >>

\* integer quaternions with integral norm or norm^2 giving small denominators
QuatsAxis    == {<<1,0,0,0>>, <<0,1,0,0>>, <<0,0,1,0>>, <<0,0,0,1>>}
QuatsHurwitz == {<<1,1,1,1>>, <<1,-1,1,1>>, <<1,1,-1,1>>, <<1,1,1,-1>>,
                 <<1,1,0,0>>, <<1,0,1,0>>, <<1,0,0,1>>, <<1,-1,0,0>>, <<0,1,1,0>>, <<0,1,0,-1>>}
QuatsGeneric == {<<1,2,2,4>>, <<2,3,6,0>>, <<4,-2,1,2>>, <<1,4,8,0>>, <<2,4,5,6>>, <<6,-3,2,0>>,
                 <<3,1,-1,5>>, <<2,1,0,0>>, <<3,0,1,0>>, <<1,0,0,2>>}

Rot3Axis    == {QuatMat(q) : q \in QuatsAxis}
Rot3Perm    == {QuatMat(q) : q \in QuatsAxis \cup QuatsHurwitz}   \* proper signed permutations (subset of the 24)
Rot3Generic == {QuatMat(q) : q \in QuatsGeneric}

IsProper(M) == IsOrthogonal(M) /\ Det(M) = One
IsImproper(M) == IsOrthogonal(M) /\ Det(M) = RI(-1)
=============================================================================
